"""
C08 — value-based learning uses the Bellman target and really tracks its target network.

Three suites against the real agents (tiny networks from agents.py), Model/Bellman.lean behind the
driver, and an oracle that states the property on the implementation's own tensors:

* loss     : the real online/target networks are evaluated on the batch BEFORE `learn`, feeding them
             exactly what the learner feeds them (preprocess_observation, target-policy noise drawn
             from the same torch seed, stacked critic inputs for the multi-agent learners); the
             values (r, gamma, d, q'(s'), q(s,a)) go to the model as exact dyadics; the model's batch
             loss is compared with what `learn` returns (relative 1e-5: float32 reduction order).
             CQN returns cql + 0.5*TD: the CQL term is computed by the harness from the same
             forward pass and handed to the model as an opaque input.  DDPG/TD3/MADDPG/MATD3
             return (actor_loss, critic_loss): the critic loss is compared.
* meta     : metamorphic and exact.  Two identical copies of an agent (clones of one parent) learn
             from batch and batch' = batch with next_obs replaced on rows with done = 1 only, under
             identical seeds  =>  every weight of every network bit-equal afterwards, equal loss.
             (RainbowDQN: the categorical projection re-normalises in float, so only the loss is
             compared, with tolerance.)
* track    : consecutive learn steps; online/target tensors are snapshotted around `learn` with
             walker.module_tensors (NOT parameters(): detached tensors are seen) and
             target_after is compared with blend(tau, online_after, target_before) (1e-6) on steps
             where the model's delay schedule fires, with "unchanged" otherwise; the model follows a
             sample of the weights through `bellman init/step`.  Also directly after clone(), an
             architecture mutation and a checkpoint round trip, and n direct soft_update() calls
             against the closed form.  "Targets REALLY move": after a firing step with tau > 0 a
             target whose online network differs from it must have changed.
"""
from __future__ import annotations

import inspect
import json
import os
import tempfile
from collections import OrderedDict
from fractions import Fraction

import numpy as np
import torch

import agents
import walker
from common import ROOT, Check, InfraError, ddmin, frac

LOSS_ALGOS = ["DQN", "DQN-double", "CQN", "CQN-double", "DDPG", "TD3", "MADDPG", "MATD3"]
TRACK_ALGOS = ["DQN", "DQN-double", "CQN", "RainbowDQN", "DDPG", "TD3", "MADDPG", "MATD3"]
DELAYED = ("DDPG", "TD3", "MATD3")
# the multi-agent learners cost ~5 s per case (construction, clone): the quick tier draws them less often
SINGLE_LOSS = [a for a in LOSS_ALGOS if not a.startswith("MA")]
SINGLE_TRACK = [a for a in TRACK_ALGOS if not a.startswith("MA")]
FINDING_SHARED_ENCODER = "C08-shared-encoder-target-hard-copy"
REL_TOL = 1e-5
BLEND_TOL = 1e-6


# ----------------------------------------------------------------------------- small helpers
def base_algo(name: str) -> str:
    return name.split("-")[0]


def build_agent(case: dict):
    """the real agent of a case (deterministic in case['seed'])"""
    algo = base_algo(case["algo"])
    kw = {}
    if case["algo"].endswith("-double"):
        kw["double"] = True
    if "tau" in case:
        kw["tau"] = float(case["tau"])
    if "gamma" in case:
        kw["gamma"] = float(case["gamma"])
    if algo in DELAYED and "policy_freq" in case:
        kw["policy_freq"] = int(case["policy_freq"])
    if algo in ("DDPG", "TD3") and case.get("share") is not None:
        kw["share_encoders"] = bool(case["share"])
    if algo in ("MADDPG", "MATD3") and case.get("action_kind"):
        kw["action_kind"] = case["action_kind"]
    if algo == "RainbowDQN" and "n_step" in case:
        kw["n_step"] = int(case["n_step"])
    return agents.build(algo, case.get("family", "vector"), seed=int(case["seed"]), **kw)


def unwrap(m):
    return getattr(m, "_orig_mod", m)


def weights(m) -> "OrderedDict[str, torch.Tensor]":
    """every float tensor a module computes with, except registered buffers (noise samples,
    running statistics): parameters AND detached plain-tensor stand-ins for parameters"""
    m = unwrap(m)
    bufs = {n for n, _ in m.named_buffers()}
    return OrderedDict((k, v) for k, v in walker.module_tensors(m).items()
                       if k not in bufs and v.is_floating_point())


def snap(m) -> "OrderedDict[str, torch.Tensor]":
    return OrderedDict((k, v.detach().clone()) for k, v in weights(m).items())


def target_pairs(agent) -> list[tuple[str, torch.nn.Module, torch.nn.Module]]:
    """(label, online module, target module) read from the live registry: every network group's
    eval network paired with each of its shared networks (lists are flattened agent by agent)"""
    out = []
    for g in agent.registry.groups:
        if g.shared is None:
            continue
        shared = g.shared if isinstance(g.shared, (list, tuple)) else [g.shared]
        ev = getattr(agent, g.eval)
        for sname in shared:
            sh = getattr(agent, sname)
            if isinstance(ev, list):
                for i, (e, s) in enumerate(zip(ev, sh)):
                    out.append((f"{sname}[{i}]", e, s))
            else:
                out.append((sname, ev, sh))
    return out


def all_weights(agent) -> "OrderedDict[str, torch.Tensor]":
    out = OrderedDict()
    for name, obj in sorted(agents.networks_of(agent).items()):
        mods = obj if isinstance(obj, list) else [obj]
        for i, m in enumerate(mods):
            for k, v in weights(m).items():
                out[f"{name}[{i}].{k}"] = v.detach().clone()
    return out


def f32(x) -> float:
    return float(x)


def rat_to_float(s: str) -> float:
    return float(Fraction(s))


def close(a: float, b: float, rel=REL_TOL, absol=1e-7) -> bool:
    return abs(a - b) <= absol + rel * max(abs(a), abs(b))


def unpack(batch):
    form = agents.batch_form(batch)
    if form in ("tensordict", "dict"):
        return batch["obs"], batch["action"], batch["reward"], batch["next_obs"], batch["done"]
    return batch[0], batch[1], batch[2], batch[3], batch[4]


def obs_leaves(x) -> list[torch.Tensor]:
    """the tensors of an observation batch (plain tensor, dict / TensorDict, tuple), in a fixed order"""
    if isinstance(x, torch.Tensor):
        return [x]
    if isinstance(x, (tuple, list)):
        return [t for e in x for t in obs_leaves(e)]
    keys = sorted(x.keys())
    return [t for k in keys for t in obs_leaves(x[k])]


def perturb_next(batch, donor, rows: list[int], multi: bool) -> None:
    """next_obs[rows] := donor's next_obs[rows], in place, every member of the observation"""
    if not rows:
        return
    idx = torch.as_tensor(rows, dtype=torch.long)
    if multi:
        for aid in batch[3]:
            for a, b in zip(obs_leaves(batch[3][aid]), obs_leaves(donor[3][aid])):
                a[idx] = b[idx]
    else:
        for a, b in zip(obs_leaves(unpack(batch)[3]), obs_leaves(unpack(donor)[3])):
            a[idx] = b[idx]


def gen_dones(rng, n: int) -> list[int]:
    """done flags with at least one done row and one live row"""
    while True:
        d = [1 if rng.random() < 0.4 else 0 for _ in range(n)]
        if 0 < sum(d) < n:
            return d


def batch_size_of(agent) -> int:
    return int(agent.batch_size)


def pretrain(agent, case, steps: int) -> None:
    algo = base_algo(case["algo"])
    for i in range(steps):
        agents.learn_once(agent, algo, case.get("family", "vector"), seed=int(case["seed"]) + 101 + i,
                          variant=case.get("variant", "plain"))


# ----------------------------------------------------------------------------- loss suite
def eval_networks(agent, case, batch, seed: int):
    """what the learner will compute from its networks on this batch — evaluated now, before learn.
    Returns (model op line, python-float definition of the loss(es) the learner returns, rows info)"""
    name = case["algo"]
    algo = base_algo(name)
    gamma = float(agent.gamma)
    g = frac(gamma)
    with torch.no_grad():
        if algo in ("DQN", "CQN"):
            obs, act, rew, nxt, done = unpack(batch)
            o = agent.preprocess_observation(obs)
            n = agent.preprocess_observation(nxt)
            q_all = agent.actor(o)
            a = act if act.ndim > 1 else act.unsqueeze(-1)
            q_sa = q_all.gather(1, a.long()).reshape(-1)
            on = agent.actor(n)
            tg = agent.actor_target(n)
            r, d = rew.reshape(-1), done.reshape(-1)
            dbl = bool(agent.double)
            k = int(tg.shape[1])
            nums = []
            for j in range(len(r)):
                nums += [f32(r[j]), f32(d[j]), f32(q_sa[j])]
                if dbl:
                    nums += [f32(v) for v in on[j]]
                nums += [f32(v) for v in tg[j]]
            # the statement itself, in float64
            if dbl:
                sel = tg.double().gather(1, on.argmax(dim=1, keepdim=True)).reshape(-1)
            else:
                sel = tg.double().max(dim=1)[0]
            yj = r.double() + gamma * (1 - d.double()) * sel
            td = float(((q_sa.double() - yj) ** 2).mean())
            if algo == "CQN":
                cql = float(torch.logsumexp(q_all, dim=1).mean() - q_all.mean())
                line = f"bellman loss cqn {g} {int(dbl)} {frac(cql)} {k} " + " ".join(map(frac, nums))
                return line, [cql + 0.5 * td], {"rows": len(r), "done": int(d.sum())}
            kind = "double" if dbl else "dqn"
            return f"bellman loss {kind} {g} {k} " + " ".join(map(frac, nums)), [td], \
                {"rows": len(r), "done": int(d.sum())}
        if algo in ("DDPG", "TD3"):
            obs, act, rew, nxt, done = unpack(batch)
            o = agent.preprocess_observation(obs)
            n = agent.preprocess_observation(nxt)
            crit = [agent.critic] if algo == "DDPG" else [agent.critic_1, agent.critic_2]
            crit_t = [agent.critic_target] if algo == "DDPG" else [agent.critic_target_1, agent.critic_target_2]
            qs = [c(o, act).reshape(-1) for c in crit]
            agents.seed_all(seed)                                  # the draw learn() will make
            na = agent.actor_target(n)
            sig = inspect.signature(agent.learn).parameters        # learn(experiences, noise_clip=0.5, policy_noise=0.2)
            policy_noise, noise_clip = sig["policy_noise"].default, sig["noise_clip"].default
            noise = torch.empty_like(act).normal_(0, policy_noise)  # actions.data.normal_(0, policy_noise)
            noise = agent.multi_dim_clamp(-noise_clip, noise_clip, noise)
            na = agent.multi_dim_clamp(agent.min_action, agent.max_action, na + noise)
            qn = [c(n, na).reshape(-1) for c in crit_t]
            r, d = rew.reshape(-1), done.reshape(-1)
            nums = []
            for j in range(len(r)):
                nums += [f32(r[j]), f32(d[j])] + [f32(q[j]) for q in qs] + [f32(q[j]) for q in qn]
            sel = qn[0].double() if algo == "DDPG" else torch.min(qn[0], qn[1]).double()
            yj = r.double() + gamma * (1 - d.double()) * sel
            td = sum(float(((q.double() - yj) ** 2).mean()) for q in qs)
            kind = "ddpg" if algo == "DDPG" else "td3"
            return f"bellman loss {kind} {g} " + " ".join(map(frac, nums)), [td], \
                {"rows": len(r), "done": int(d.sum())}
        if algo in ("MADDPG", "MATD3"):
            states, actions, rewards, next_states, dones = batch
            st = agent.preprocess_observation(states)
            nx = agent.preprocess_observation(next_states)
            agents.seed_all(seed)                                  # Gumbel noise of discrete target actors
            next_actions = [agent.actor_targets[i](nx[aid]) for i, aid in enumerate(agent.agent_ids)]
            ss = agent.stack_critic_observations(st)
            sn = agent.stack_critic_observations(nx)
            sa = torch.cat(list(actions.values()), dim=1)
            sna = torch.cat(next_actions, dim=1)
            nums, defs = [], []
            nrows = 0
            for i, aid in enumerate(agent.agent_ids):
                if algo == "MADDPG":
                    qs = [agent.critics[i](ss, sa).reshape(-1)]
                    qn = [agent.critic_targets[i](sn, sna).reshape(-1)]
                else:
                    qs = [agent.critics_1[i](ss, sa).reshape(-1), agent.critics_2[i](ss, sa).reshape(-1)]
                    qn = [agent.critic_targets_1[i](sn, sna).reshape(-1),
                          agent.critic_targets_2[i](sn, sna).reshape(-1)]
                r, d = rewards[aid].reshape(-1), dones[aid].reshape(-1)
                nrows = len(r)
                for j in range(nrows):
                    nums += [f32(r[j]), f32(d[j])] + [f32(q[j]) for q in qs] + [f32(q[j]) for q in qn]
                sel = qn[0].double() if algo == "MADDPG" else torch.min(qn[0], qn[1]).double()
                yj = r.double() + gamma * (1 - d.double()) * sel
                defs.append(sum(float(((q.double() - yj) ** 2).mean()) for q in qs))
            kind = "maddpg" if algo == "MADDPG" else "matd3"
            line = f"bellman loss {kind} {g} {len(agent.agent_ids)} {nrows} " + " ".join(map(frac, nums))
            return line, defs, {"rows": nrows, "done": int(dones[agent.agent_ids[0]].sum())}
    raise KeyError(name)


def returned_losses(algo: str, agent, ret) -> list[float]:
    """the comparable part of what learn() returned"""
    if algo in ("DQN", "CQN"):
        return [float(ret)]
    if algo in ("DDPG", "TD3"):
        return [float(ret[1])]
    if algo in ("MADDPG", "MATD3"):
        return [float(ret[aid][1]) for aid in agent.agent_ids]
    if algo == "RainbowDQN":
        return [float(ret[0])]
    raise KeyError(algo)


def make_case_batch(agent, case, seed_offset: int = 0, dones=None):
    algo = base_algo(case["algo"])
    return agents.make_batch(agent, algo, case.get("family", "vector"), n=batch_size_of(agent),
                             seed=int(case["seed"]) + 17 + seed_offset,
                             dones=case["dones"] if dones is None else dones,
                             variant=case.get("variant", "plain"))


def run_loss_case(chk: Check, case: dict):
    """-> (impl lines, model lines, oracle problems, tags, detail)"""
    algo = base_algo(case["algo"])
    agent = build_agent(case)
    pretrain(agent, case, int(case.get("pretrain", 1)))
    batch = make_case_batch(agent, case)
    lseed = int(case["seed"]) + 5
    line, defs, info = eval_networks(agent, case, batch, lseed)
    agents.seed_all(lseed)
    ret = agent.learn(batch)
    got = returned_losses(algo, agent, ret)
    out = chk.driver.run(["reset", line])[1]
    chk.corr["model_lines"] += 1
    problems = []
    if out in ("bad-op", "reject", "nan"):
        model = None
    else:
        model = [rat_to_float(w) for w in out.split()]
    for i, (a, b) in enumerate(zip(got, defs)):
        if not (np.isfinite(a) and close(a, b)):
            problems.append(f"{case['algo']}: learn returned loss {a!r} but the definition "
                            f"mean((q - (r + gamma*(1-d)*q'))^2) on the networks' own outputs gives {b!r} (entry {i})")
    impl_line = " ".join(f"{v:.6g}" for v in got)
    model_line = out if model is None else " ".join(f"{v:.6g}" for v in model)
    agree = model is not None and len(model) == len(got) and all(close(a, b) for a, b in zip(got, model))
    tags = [f"loss-{case['algo']}", f"fam-{case.get('family', 'vector')}", f"done-rows-{min(info['done'], 4)}"]
    return agree, impl_line, model_line, problems, tags, {"driver_op": line[:200] + ("…" if len(line) > 200 else "")}


# ----------------------------------------------------------------------------- metamorphic suite
def run_meta_case(chk: Check, case: dict, rows=None):
    """learn(batch) vs learn(batch') from two identical clones; -> (problems, tags, detail)"""
    algo = base_algo(case["algo"])
    multi = algo in ("MADDPG", "MATD3")
    parent = build_agent(case)
    pretrain(parent, case, int(case.get("pretrain", 1)))
    a, b = parent.clone(), parent.clone()
    wa, wb = all_weights(a), all_weights(b)
    if list(wa) != list(wb) or any(not torch.equal(wa[k], wb[k]) for k in wa):
        raise InfraError(f"C08 meta: two clones of one {case['algo']} parent are not identical "
                         "(cannot set up the metamorphic pair)")
    dones = case["dones"]
    done_rows = [j for j, d in enumerate(dones) if d == 1]
    live_rows = [j for j, d in enumerate(dones) if d == 0]
    target_rows = done_rows if case.get("perturb", "done") == "done" else live_rows[:1]
    if rows is None and case.get("only_rows") is not None:
        rows = case["only_rows"]
    if rows is not None:
        target_rows = [j for j in target_rows if j in rows]
    kw = {}
    batches = []
    for which in (0, 1):
        bt = make_case_batch(parent, case)
        extra = None
        if algo == "RainbowDQN" and case.get("variant", "plain") in ("nstep", "per_nstep"):
            extra = agents.make_batch(parent, algo, case.get("family", "vector"), n=batch_size_of(parent),
                                      seed=int(case["seed"]) + 7919, dones=dones)
        if which == 1:
            donor = make_case_batch(parent, case, seed_offset=4242)
            perturb_next(bt, donor, target_rows, multi)
            if extra is not None:
                donor2 = agents.make_batch(parent, algo, case.get("family", "vector"), n=batch_size_of(parent),
                                           seed=int(case["seed"]) + 7919 + 4242, dones=dones)
                perturb_next(extra, donor2, target_rows, False)
        batches.append((bt, extra))
    lseed = int(case["seed"]) + 5
    rets = []
    for ag, (bt, extra) in zip((a, b), batches):
        kw = {}
        if algo == "RainbowDQN":
            if case.get("variant", "plain") in ("per", "per_nstep"):
                kw["per"] = True
            if extra is not None:
                kw["n_experiences"] = extra
        agents.seed_all(lseed)
        rets.append(ag.learn(bt, **kw))
    la, lb = returned_losses(algo, a, rets[0]), returned_losses(algo, b, rets[1])
    wa, wb = all_weights(a), all_weights(b)
    differing = [k for k in wa if not torch.equal(wa[k], wb[k])]
    changed = bool(differing) or la != lb
    problems = []
    if case.get("perturb", "done") == "done":
        if algo == "RainbowDQN":
            if not all(close(x, y2) for x, y2 in zip(la, lb)):
                problems.append(f"RainbowDQN[{case.get('variant')}]: next_obs of done rows {target_rows} changed "
                                f"the loss: {la} vs {lb}")
        else:
            if la != lb:
                problems.append(f"{case['algo']}: next_obs of rows marked done {target_rows} influenced the loss: "
                                f"{la} vs {lb}")
            if differing:
                problems.append(f"{case['algo']}: next_obs of rows marked done {target_rows} influenced the update: "
                                f"{len(differing)} weight tensors differ afterwards, e.g. {differing[:3]}")
    tags = [f"meta-{case['algo']}", f"perturbed-{min(len(target_rows), 4)}-rows"]
    if case.get("perturb") == "live":
        tags.append("sensitive-live-row" if changed else "INSENSITIVE-live-row")
    return problems, tags, {"perturbed_rows": target_rows, "loss": la, "loss_perturbed": lb,
                            "differing_tensors": differing[:5], "changed": changed}


# ----------------------------------------------------------------------------- tracking suite
def fired_observed(algo: str, agent, ret) -> bool | None:
    if algo in ("DDPG", "TD3"):
        return ret[0] is not None
    if algo == "MATD3":
        vals = [ret[aid][0] is not None for aid in agent.agent_ids]
        return all(vals) if len(set(vals)) == 1 else None
    return True


def counter_of(agent) -> int:
    c = getattr(agent, "learn_counter", 0)
    if isinstance(c, dict):
        vals = sorted(set(int(v) for v in c.values()))
        return vals[-1]
    return int(c)


def policy_freq_of(algo: str, agent) -> int:
    return int(getattr(agent, "policy_freq", 1)) if algo in DELAYED else 1


def sample_positions(rng, agent):
    """up to 3 flat positions in every target tensor: [(pair label, tensor name, flat index)]"""
    pos = []
    for label, _on, tg in target_pairs(agent):
        for name, t in weights(tg).items():
            n = t.numel()
            if n == 0:
                continue
            picks = {0, n - 1, rng.randrange(n)}
            for p in sorted(picks):
                pos.append((label, name, p))
    return pos


def read_sample(agent, pos, which: str) -> list[float]:
    mods = {label: (on, tg) for label, on, tg in target_pairs(agent)}
    cache = {}
    out = []
    for label, name, p in pos:
        key = (label, which)
        if key not in cache:
            on, tg = mods[label]
            cache[key] = weights(on if which == "online" else tg)
        t = cache[key].get(name)
        out.append(float("nan") if t is None or p >= t.numel() else float(t.detach().reshape(-1)[p]))
    return out


def apply_prelude(agent, case):
    """clone / architecture mutation / checkpoint round trip in front of the tracked steps"""
    prelude = case.get("prelude", "fresh")
    algo = base_algo(case["algo"])
    note = {}
    if prelude == "clone":
        agent = agent.clone()
    elif prelude == "mutation":
        from agilerl.hpo.mutation import Mutations
        mut = Mutations(no_mutation=0, architecture=1, new_layer_prob=0.5, parameters=0, activation=0, rl_hp=0,
                        rand_seed=int(case["seed"]) % (2 ** 31), device="cpu")
        agent = mut.mutation([agent])[0]
        note["mut"] = str(getattr(agent, "mut", None))
    elif prelude == "load":
        fd, path = tempfile.mkstemp(prefix="c08_", suffix=".pt")
        os.close(fd)
        try:
            saved = {lab: snap(tg) for lab, _o, tg in target_pairs(agent)}
            agent.save_checkpoint(path)
            if case.get("load_via", "load_checkpoint") == "classmethod":
                agent = agents.algo_class(algo).load(path, device="cpu")
            else:
                other = dict(case)
                other["seed"] = int(case["seed"]) + 977
                fresh = build_agent(other)
                fresh.load_checkpoint(path)
                agent = fresh
            # which target tensors did the round trip restore?  (restoring is property C07; a tensor that
            # was not restored is reported there and is not a meaningful "previous weight" here)
            lost = []
            for lab, _o, tg in target_pairs(agent):
                now = weights(tg)
                for k, v in saved.get(lab, {}).items():
                    if k not in now or now[k].shape != v.shape or not torch.equal(now[k].detach(), v):
                        lost.append(f"{lab}.{k}")
            note["not_restored"] = lost
        finally:
            if os.path.exists(path):
                os.remove(path)
    return agent, note


def run_track_case(chk: Check, case: dict):
    """-> (agree, impl lines, model lines, problems, tags, detail)"""
    import random as _random
    algo = base_algo(case["algo"])
    fam = case.get("family", "vector")
    agent = build_agent(case)
    pretrain(agent, case, int(case.get("pretrain", 1)))
    agent, note = apply_prelude(agent, case)
    tau = float(agent.tau)
    pf = policy_freq_of(algo, agent)
    prng = _random.Random(int(case["seed"]) ^ 0x5EED)
    pos = sample_positions(prng, agent)
    pending = set(note.get("not_restored", []))     # target tensors a checkpoint load did not restore
    problems, tags = [], [f"track-{case['algo']}", f"prelude-{case.get('prelude', 'fresh')}", f"pf-{pf}",
                          f"tau-{tau:g}"]
    impl_lines, model_ops, findings = [], [], []
    model_ops.append(f"bellman init {pf} {frac(tau)} {counter_of(agent)} " +
                     " ".join(frac(v) for v in read_sample(agent, pos, "target")))
    impl_lines.append("ok")
    moved_any = False
    for step in range(int(case.get("steps", 3))):
        before = {lab: snap(tg) for lab, _o, tg in target_pairs(agent)}
        c_before = counter_of(agent)
        ret = agents.learn_once(agent, algo, fam, seed=int(case["seed"]) + 31 + step,
                                variant=case.get("variant", "plain"))
        expect_fire = (c_before + 1) % pf == 0 if algo in DELAYED else True
        seen_fire = fired_observed(algo, agent, ret)
        if seen_fire is not None and seen_fire != expect_fire:
            problems.append(f"{case['algo']}: learn step entered with counter {c_before}, policy_freq {pf}: "
                            f"actor/targets {'were' if seen_fire else 'were not'} updated, expected "
                            f"{'an update' if expect_fire else 'no update'}")
        if algo in DELAYED and counter_of(agent) != c_before + 1:
            problems.append(f"{case['algo']}: learn_counter went {c_before} -> {counter_of(agent)}")
        for lab, on, tg in target_pairs(agent):
            won, wtg, wbef = weights(on), weights(tg), before[lab]
            if set(wtg) != set(wbef):
                problems.append(f"{case['algo']} {lab}: the target's tensors changed names during learn")
                continue
            moved = [k for k in wtg if not torch.equal(wtg[k].detach(), wbef[k])]
            moved_any = moved_any or bool(moved)
            if not expect_fire:
                if moved:
                    problems.append(f"{case['algo']} {lab}: step {step} (counter {c_before}+1, policy_freq {pf}) is "
                                    f"not a policy-delay step but {len(moved)} target tensors moved, e.g. {moved[:2]}")
                continue
            bad, off = [], []
            for k in wtg:
                if k not in won or won[k].shape != wtg[k].shape:
                    bad.append((k, "no online counterpart"))
                    continue
                if f"{lab}.{k}" in pending:
                    if "skipped-not-restored-by-load" not in tags:
                        tags.append("skipped-not-restored-by-load")
                    continue
                exp = tau * won[k].detach().double() + (1 - tau) * wbef[k].double()
                err = float((wtg[k].detach().double() - exp).abs().max()) if exp.numel() else 0.0
                if not err <= BLEND_TOL:
                    bad.append((k, f"max |target_after - (tau*online_after + (1-tau)*target_before)| = {err:.3g}"))
                if not torch.equal(won[k].detach(), wbef[k]):
                    off.append(k)
            if tau > 0 and off and not moved:
                problems.append(f"{case['algo']} {lab}: target network did not move in a learn step with tau={tau} "
                                f"although {len(off)} of its {len(wtg)} tensors differ from the online network "
                                f"({len(list(unwrap(tg).parameters()))} tensors are visible to target.parameters())")
            elif bad:
                msg = (f"{case['algo']} {lab}: step {step}, tau={tau}: {len(bad)} of {len(wtg)} target tensors "
                       f"are not tau*online + (1-tau)*previous, e.g. {bad[0][0]}: {bad[0][1]}")
                # the analysed shared-encoder defect: exactly the encoder tensors of a target critic, and they
                # are a hard copy of the online network's encoder
                if getattr(agent, "share_encoders", False) and algo in ("DDPG", "TD3") and "critic" in lab and \
                        all(k.startswith("encoder.") and k in won and torch.equal(wtg[k].detach(), won[k].detach())
                            for k, _why in bad):
                    findings.append(msg + " (they equal the ONLINE encoder: hard copy)")
                else:
                    problems.append(msg)
        model_ops.append("bellman step " + " ".join(frac(v) for v in read_sample(agent, pos, "online")))
        impl_lines.append((expect_fire if seen_fire is None else seen_fire, counter_of(agent) if algo in DELAYED else None,
                           read_sample(agent, pos, "target")))
        if expect_fire and pending:
            # every tensor has a meaningful "previous weight" from now on: the model restarts from the
            # implementation's current targets
            pending = set()
            model_ops.append(f"bellman init {pf} {frac(tau)} {counter_of(agent)} " +
                             " ".join(frac(v) for v in read_sample(agent, pos, "target")))
            impl_lines.append("ok")
    if case.get("direct", 0):
        # n direct soft updates with the online weights held fixed: iterate and closed form
        n = int(case["direct"])
        t0 = read_sample(agent, pos, "target")
        o0 = read_sample(agent, pos, "online")
        for _ in range(n):
            if algo in ("DQN", "CQN", "RainbowDQN"):
                agent.soft_update()
            else:
                # the soft-update phase of a policy step of learn(): every pair, then the re-synchronisation
                # of the encoder copies held by the critics when encoders are shared
                for _lab, on, tg in target_pairs(agent):
                    agent.soft_update(on, tg)
                if getattr(agent, "share_encoders", False) and "share_encoder_parameters" in agent.registry.hooks:
                    agent.share_encoder_parameters()
        args = f"{frac(tau)} {n} {len(pos)} " + " ".join(map(frac, o0)) + " " + " ".join(map(frac, t0))
        model_ops += ["bellman softn iter " + args, "bellman softn closed " + args]
        tn = read_sample(agent, pos, "target")
        impl_lines += [("vec", tn), ("vec", tn)]
        tags.append(f"direct-{n}")
    out = chk.driver.run(["reset"] + model_ops)[1:]
    chk.corr["model_lines"] += len(model_ops)
    # compare: the model follows the sampled weights; skip sample entries not restored by load
    skip = {i for i, (lab, name, _p) in enumerate(pos) if f"{lab}.{name}" in set(note.get("not_restored", []))}
    agree, first_diff = True, None
    shown_impl, shown_model = [], []
    delayed = algo in DELAYED
    for li, (impl, mo) in enumerate(zip(impl_lines, out)):
        if impl == "ok":
            ok = mo == "ok"
            shown_impl.append("ok")
            shown_model.append(mo)
        elif impl[0] == "vec":
            words = mo.split()
            vals = [rat_to_float(w) for w in words] if mo not in ("bad-op", "reject") else []
            ok = len(vals) == len(impl[1]) and all(abs(a - b) <= BLEND_TOL * max(1, int(case.get("direct", 1)))
                                                   for i, (a, b) in enumerate(zip(impl[1], vals)) if i not in skip)
            shown_impl.append("softn " + " ".join(f"{v:.6g}" for v in impl[1][:6]))
            shown_model.append("softn " + " ".join(f"{v:.6g}" for v in vals[:6]))
        else:
            fired, cnt, vec = impl
            words = mo.split()
            if mo in ("bad-op", "reject") or len(words) != 2 + len(vec):
                ok = False
                shown_model.append(mo[:80])
            else:
                mf, mc = words[0] == "1", int(words[1])
                vals = [rat_to_float(w) for w in words[2:]]
                ok = (mf == bool(fired)) and (not delayed or mc == cnt) and \
                    all(abs(a - b) <= BLEND_TOL for i, (a, b) in enumerate(zip(vec, vals)) if i not in skip)
                shown_model.append(f"{int(mf)} {mc if delayed else '-'} " + " ".join(f"{v:.6g}" for v in vals[:6]))
            shown_impl.append(f"{int(bool(fired))} {cnt if delayed else '-'} " + " ".join(f"{v:.6g}" for v in vec[:6]))
            # from now on nothing is skipped once a firing step has refreshed every tensor
            if fired:
                skip = set()
        if not ok and agree:
            agree, first_diff = False, li
    if moved_any:
        tags.append("targets-moved")
    if note.get("not_restored"):
        tags.append("load-left-target-tensors-unrestored(C07)")
    detail = {"note": note, "first_diff": first_diff, "sample_size": len(pos), "findings": findings}
    return agree, shown_impl, shown_model, problems, tags, detail


# ----------------------------------------------------------------------------- generators
def gen_loss_case(rng, tier: str, name: str | None = None) -> dict:
    name = name or rng.choice(LOSS_ALGOS + (SINGLE_LOSS if tier == "quick" else []))
    algo = base_algo(name)
    fams = ["vector", "vector", "discrete", "image", "dict"] if tier == "thorough" else ["vector", "vector", "vector", "discrete", "dict"]
    fam = rng.choice(fams)
    if algo in ("MADDPG", "MATD3"):
        fam = "vector" if tier == "quick" or rng.random() < 0.7 else "image"
    case = {"kind": "loss", "algo": name, "family": fam, "seed": rng.randrange(1 << 24),
            "gamma": rng.choice([0.99, 0.9, 0.5, 0.95, 1.0]), "tau": rng.choice([0.5, 0.01, 1.0]),
            "pretrain": rng.choice([0, 1, 2]), "dones": None}
    if algo in ("DDPG", "TD3"):
        case["share"] = rng.choice([True, False])
        case["policy_freq"] = rng.choice([1, 2])
    if algo in ("MADDPG", "MATD3"):
        case["action_kind"] = rng.choice(["box", "discrete"])
        if algo == "MATD3":
            case["policy_freq"] = rng.choice([1, 2])
    case["dones"] = gen_dones(rng, 8)
    return case


def gen_meta_case(rng, tier: str, name: str | None = None) -> dict:
    name = name or rng.choice(LOSS_ALGOS + ["RainbowDQN"] + (SINGLE_LOSS if tier == "quick" else []))
    if name == "RainbowDQN":
        case = {"algo": "RainbowDQN", "family": rng.choice(["vector", "discrete"]), "seed": rng.randrange(1 << 24),
                "gamma": rng.choice([0.99, 0.5]), "tau": rng.choice([0.5, 0.01]), "pretrain": rng.choice([0, 1]),
                "variant": rng.choice(["plain", "per", "nstep", "per_nstep"]), "dones": gen_dones(rng, 8)}
    else:
        case = gen_loss_case(rng, tier, name)
    case["kind"] = "meta"
    case["perturb"] = "done" if rng.random() < 0.8 else "live"
    return case


def gen_track_case(rng, tier: str, name: str | None = None, prelude: str | None = None) -> dict:
    name = name or rng.choice(TRACK_ALGOS + (SINGLE_TRACK * 2 if tier == "quick" else []))
    algo = base_algo(name)
    fam = rng.choice(["vector", "vector", "vector", "discrete", "dict", "image"] if tier == "thorough"
                     else ["vector", "vector", "vector", "discrete"])
    if algo in ("MADDPG", "MATD3"):
        fam = "vector"
    case = {"kind": "track", "algo": name, "family": fam, "seed": rng.randrange(1 << 24),
            "tau": rng.choice([0.01, 0.005, 0.5, 0.5, 1.0, 0.25]),
            "pretrain": rng.choice([0, 1, 2]),
            "steps": rng.choice([2, 3, 4]) if tier == "quick" else rng.choice([3, 4, 6, 7]),
            "prelude": prelude or rng.choice(["fresh", "fresh", "clone", "mutation", "load"]),
            "direct": rng.choice([0, 0, 2, 5])}
    if algo in DELAYED:
        case["policy_freq"] = rng.choice([1, 2, 3])
        case["steps"] = max(case["steps"], case["policy_freq"] + 1)
    if algo in ("DDPG", "TD3"):
        case["share"] = rng.choice([True, False])
    if algo in ("MADDPG", "MATD3"):
        case["action_kind"] = rng.choice(["box", "discrete"])
        case["steps"] = min(case["steps"], 2 if algo == "MADDPG" else (3 if tier == "quick" else 5))
    if algo == "RainbowDQN":
        case["variant"] = rng.choice(["plain", "per", "nstep", "per_nstep"])
        case["n_step"] = rng.choice([1, 3])
    if case["prelude"] == "load":
        case["load_via"] = rng.choice(["load_checkpoint", "classmethod"])
    return case


# ----------------------------------------------------------------------------- driving one case
def run_case(chk: Check, case: dict):
    """uniform result: dict(agree, impl, model, problems, tags, detail)"""
    kind = case["kind"]
    try:
        if kind == "loss":
            agree, impl, model, problems, tags, detail = run_loss_case(chk, case)
            return dict(agree=agree, impl=[impl], model=[model], problems=problems, tags=tags, detail=detail)
        if kind == "meta":
            problems, tags, detail = run_meta_case(chk, case)
            return dict(agree=True, impl=[], model=[], problems=problems, tags=tags, detail=detail)
        if kind == "track":
            agree, impl, model, problems, tags, detail = run_track_case(chk, case)
            return dict(agree=agree, impl=impl, model=model, problems=problems, tags=tags, detail=detail)
    except InfraError:
        raise
    except Exception as e:  # the implementation raised on a legal configuration
        import traceback
        tb = traceback.format_exc().strip().splitlines()
        return dict(agree=True, impl=[], model=[], tags=[f"raised-{type(e).__name__}"], detail={"traceback": tb[-6:]},
                    problems=[f"{case['algo']} ({kind}, prelude {case.get('prelude', '-')}) raised "
                              f"{type(e).__name__}: {str(e)[:200]}"])
    raise InfraError(f"unknown case kind {kind!r}")


def shrink(chk: Check, case: dict, res: dict) -> dict:
    """smaller failing case: fewer steps / simpler prelude / fewer perturbed rows (ddmin)"""
    def fails(c):
        try:
            r = run_case(chk, c)
        except InfraError:
            return False
        return bool(r["problems"]) if res["problems"] else not r["agree"]
    best = dict(case)
    if case["kind"] == "track":
        for change in ({"direct": 0}, {"prelude": "fresh"}, {"pretrain": 0}, {"family": "vector"}):
            cand = {**best, **change}
            if cand != best and fails(cand):
                best = cand
        lo = 1
        while best.get("steps", 1) > lo:
            cand = {**best, "steps": best["steps"] - 1}
            if fails(cand):
                best = cand
            else:
                break
    elif case["kind"] == "meta" and case.get("perturb", "done") == "done":
        done_rows = [j for j, d in enumerate(case["dones"]) if d == 1]

        def fails_rows(rows):
            try:
                p, _t, _d = run_meta_case(chk, best, rows=rows)
            except Exception:
                return False
            return bool(p)
        if len(done_rows) > 1 and fails_rows(done_rows):
            keep = ddmin(done_rows, fails_rows)
            # express the minimal row set through the done flags themselves where possible
            best = {**best, "only_rows": keep}
        for change in ({"pretrain": 0}, {"family": "vector"}):
            cand = {**best, **change}
            if cand != best and fails(cand):
                best = cand
    else:
        for change in ({"pretrain": 0}, {"family": "vector"}):
            cand = {**best, **change}
            if cand != best and fails(cand):
                best = cand
    return best


def report(chk: Check, case: dict, res: dict, suite: str) -> None:
    if len(chk.violations) >= 5:          # only the first five get a replay file: do not spend time shrinking
        chk.violation((res["problems"] or [f"model disagreement ({suite}, {case['algo']})"])[0], None,
                      no_input=not res["problems"])
        return
    small = shrink(chk, case, res)
    r2 = run_case(chk, small)
    if not (r2["problems"] or not r2["agree"]):
        small, r2 = case, res
    replay = {"case": small, "impl": r2["impl"], "model": r2["model"], "oracle_problems": r2["problems"],
              "detail": r2["detail"], "correspondence": f"harness/c08.py ({suite}) vs Model/Bellman.lean",
              "theorems": chk.gate["theorems"],
              "how": "bin/check C08 --replay <this file>   (VERIF_REPO selects the tree)"}
    if r2["problems"]:
        chk.violation(r2["problems"][0], replay)
    else:
        chk.violation(f"implementation and Bellman model disagree ({suite}, {small['algo']}): impl={r2['impl'][-1:]} "
                      f"model={r2['model'][-1:]}; the property oracle holds on this case and its shrinks",
                      replay, no_input=True)


# ----------------------------------------------------------------------------- check
def run(chk: Check) -> None:
    rng = chk.rng
    quick = chk.tier == "quick"
    chk.rule = ("three suites on real agents with the smallest legal networks: 'loss' (learner x observation family x "
                "gamma x done pattern x pretraining: model loss from the networks' own outputs vs learn()'s return), "
                "'meta' (two identical clones learn from batch / batch with next_obs replaced on done rows only: "
                "bit-equal weights and loss; 20% perturb a live row instead to show the test can see a difference), "
                "'track' (learner x tau in {small, .25, .5, 1} x policy_freq in {1,2,3} x prelude in {fresh, clone, "
                "architecture mutation, checkpoint load} x 2-7 consecutive learn steps + n direct soft updates: "
                "target_after vs blend(tau, online_after, target_before) over ALL tensors, model follows a sample); "
                "distinct = distinct case dict; non-trivial = a done row was present (loss/meta) or a target moved (track)")
    chk.assumptions = [
        "network forward passes, the optimiser step, the CQL regulariser and target-policy noise are inputs of the model",
        "float32 arithmetic: loss compared with relative tolerance 1e-5, blended weights with absolute tolerance 1e-6",
        "RainbowDQN: only target tracking and (toleranced) loss-invariance are checked here; its distributional target is C18",
        "after a checkpoint load, target tensors the round trip did not restore (property C07) are excluded from the "
        "first blend comparison and tagged",
        "torch CPU kernels compute each batch row independently of the other rows' values (bit-equality of the metamorphic pair)",
    ]
    cases: list[tuple[dict, str | None]] = []
    for f in sorted((ROOT / "corpus" / "C08").glob("*.json")):
        c = json.loads(f.read_text())
        cases.append((c.get("case", c), f.name))
    # every learner at least once per suite, then random fill
    n_loss, n_meta, n_track = (12, 12, 30) if quick else (150, 170, 400)
    for nm in LOSS_ALGOS:
        cases.append((gen_loss_case(rng, chk.tier, nm), None))
    for _ in range(max(0, n_loss - len(LOSS_ALGOS))):
        cases.append((gen_loss_case(rng, chk.tier), None))
    for nm in LOSS_ALGOS + ["RainbowDQN"]:
        cases.append((gen_meta_case(rng, chk.tier, nm), None))
    for _ in range(max(0, n_meta - len(LOSS_ALGOS) - 1)):
        cases.append((gen_meta_case(rng, chk.tier), None))
    # control: the same comparison must SEE a difference when a live row's next_obs is replaced
    for nm in ("DQN", "DDPG", "MADDPG") if quick else LOSS_ALGOS:
        c = gen_meta_case(rng, chk.tier, nm)
        c["perturb"], c["gamma"] = "live", 0.9
        cases.append((c, None))
    for nm in TRACK_ALGOS:
        cases.append((gen_track_case(rng, chk.tier, nm, "fresh"), None))
    for pre in ("clone", "mutation", "load"):
        for nm in (TRACK_ALGOS if not quick else rng.sample(TRACK_ALGOS, 4) + ["DQN"]):
            cases.append((gen_track_case(rng, chk.tier, nm, pre), None))
    while sum(1 for c, _ in cases if c["kind"] == "track") < n_track:
        cases.append((gen_track_case(rng, chk.tier), None))
    counts = {"loss": [0, 0], "meta": [0, 0], "track": [0, 0]}
    sensitive = [0, 0]
    for case, origin in cases:
        algo = base_algo(case["algo"])
        if agents.known_broken(algo, case.get("family", "vector")):
            chk.dist["skipped-known-broken-combo"] += 1
            continue
        res = run_case(chk, case)
        kind = case["kind"]
        counts[kind][0] += 1
        tags = res["tags"] + ([f"corpus-{origin}"] if origin else [])
        nontrivial = ("targets-moved" in tags) if kind == "track" else any(d == 1 for d in case.get("dones") or [])
        chk.case(case, nontrivial=nontrivial, tags=tags,
                 sample={k: v for k, v in case.items() if k != "dones"} | {"result": (res["impl"] or [res["detail"]])[-1:]})
        if "sensitive-live-row" in tags:
            sensitive[0] += 1
        if "INSENSITIVE-live-row" in tags:
            sensitive[1] += 1
        known = res["detail"].get("findings") if isinstance(res.get("detail"), dict) else None
        if known and not res["problems"]:
            # only the analysed defect shows (the model disagrees on the same tensors): KNOWN-FINDING when
            # known_findings.json lists it as open, a violation otherwise
            counts[kind][1] += (not res["agree"])
            chk.finding(FINDING_SHARED_ENCODER, known[0], {"case": case, "impl": res["impl"], "model": res["model"],
                                                          "oracle_problems": known, "detail": res["detail"]})
        elif res["problems"] or not res["agree"]:
            counts[kind][1] += (not res["agree"])
            report(chk, case, res, kind)
    for k, (n, dd) in counts.items():
        chk.suite(f"bellman-{k}", n, dd)
    chk.notes.append(f"metamorphic control: perturbing a LIVE row changed the outcome in {sensitive[0]} of "
                     f"{sensitive[0] + sensitive[1]} control cases")
    if sensitive[0] == 0 and sensitive[0] + sensitive[1] >= 3:
        raise InfraError("C08: the metamorphic comparison never saw a difference when a live row was perturbed (blind)")
    if chk.tier == "thorough":
        selftest(chk)


# ----------------------------------------------------------------------------- self-test
def selftest(chk: Check) -> None:
    """seeded faults, each must be noticed by the suite that is supposed to see it"""
    from agilerl.algorithms import dqn as dqn_mod
    from agilerl.algorithms import ddpg as ddpg_mod
    DQN, DDPG = dqn_mod.DQN, ddpg_mod.DDPG
    caught = []

    def expect(label, cases):
        hit = False
        for c in cases:
            r = run_case(chk, c)
            if r["problems"] or not r["agree"]:
                hit = True
                break
        if not hit:
            raise InfraError(f"C08 self-test: seeded fault '{label}' was not noticed")
        caught.append(label)

    base = {"family": "vector", "seed": 4242, "gamma": 0.9, "tau": 0.5, "pretrain": 1,
            "dones": [0, 1, 0, 1, 1, 0, 0, 1]}
    # (1) the terminal mask is dropped from the DQN target
    orig_update = DQN.update

    def no_mask(self, obs, actions, rewards, next_obs, dones):
        return orig_update(self, obs, actions, rewards, next_obs, torch.zeros_like(dones))
    DQN.update = no_mask
    try:
        expect("(1-dones) dropped [metamorphic]", [{**base, "kind": "meta", "algo": "DQN", "perturb": "done"}])
        expect("(1-dones) dropped [loss]", [{**base, "kind": "loss", "algo": "DQN"}])
    finally:
        DQN.update = orig_update
    # (2) soft_update does nothing
    orig_soft = DQN.soft_update
    DQN.soft_update = lambda self: None
    try:
        expect("soft_update no-op", [{**base, "kind": "track", "algo": "DQN", "steps": 2, "prelude": "fresh", "direct": 0}])
    finally:
        DQN.soft_update = orig_soft
    # (3) tau and 1 - tau swapped
    orig_soft2 = DDPG.soft_update

    def swapped(self, net, target):
        for e, t in zip(net.parameters(), target.parameters()):
            t.data.copy_((1.0 - self.tau) * e.data + self.tau * t.data)
    DDPG.soft_update = swapped
    try:
        expect("tau and 1-tau swapped", [{**base, "kind": "track", "algo": "DDPG", "tau": 0.25, "policy_freq": 1,
                                          "share": False, "steps": 2, "prelude": "fresh", "direct": 0}])
    finally:
        DDPG.soft_update = orig_soft2
    # (4) the delay schedule is off by one (fires when counter % pf == 1)
    orig_learn_counter_cases = {**base, "kind": "track", "algo": "DDPG", "tau": 0.5, "policy_freq": 2,
                                "share": False, "steps": 3, "prelude": "fresh", "direct": 0}
    orig_learn = DDPG.learn

    def shifted(self, experiences, *a, **k):
        self.learn_counter += 1                       # enters one ahead ...
        try:
            return orig_learn(self, experiences, *a, **k)
        finally:
            self.learn_counter -= 1                   # ... but reports the documented counter
    DDPG.learn = shifted
    try:
        expect("delay schedule shifted by one", [orig_learn_counter_cases])
    finally:
        DDPG.learn = orig_learn
    chk.notes.append("self-test: detected " + "; ".join(caught))


# ----------------------------------------------------------------------------- replay
def replay(chk: Check, path: str) -> int:
    c = json.loads(open(path).read())
    c = c.get("replay", c)
    case = c.get("case", c)
    res = run_case(chk, case)
    res["problems"] = res["problems"] + list(res["detail"].get("findings", []) if isinstance(res["detail"], dict) else [])
    print(json.dumps({"case": case, "agree_with_model": res["agree"], "oracle_problems": res["problems"],
                      "impl": res["impl"][-4:], "model": res["model"][-4:], "detail": res["detail"]},
                     indent=1, default=str))
    if res["problems"]:
        print(f"VIOLATION property=C08 replay={path}")
        print(f"  -> {res['problems'][0]}"[:600])
        return 1
    if not res["agree"]:
        print(f"VIOLATION property=C08 replay={path} no-failing-input-found")
        return 1
    return 0
