"""
C09 — replay buffers hold exactly the most recent transitions, each one intact.

Correspondence: random op sequences (add w | sample k | len | dump | clear) on the real
`ReplayBuffer` (through `Transition`, as `train_off_policy` does) and `MultiAgentReplayBuffer`
against `Model/Ring.lean`.  Every field of a transition encodes its id, so a slot whose fields
disagree shows up as MIXED.  Oracle: independent last-N reference in Python + "a batch handed out
is never altered later" + "no duplicates in one uniform batch".

Handed-out batches: every batch `sample(k, return_idx=True)` returns is kept together with a deep snapshot
taken at hand-out time; after every later draw and at the end of the case EVERY field (the "idxs", for the
prioritized buffer also "weights") must still equal the snapshot, and at hand-out the idxs must index the
batch's own rows in the storage.  Suite `handout` does the same for ReplayBuffer, MultiStepReplayBuffer and
PrioritizedReplayBuffer: three draws at unchanged length, then further adds each followed by a draw.

Rejected additions (single-agent): `badadd w` hands `add` a malformed batch (every leaf has one column too
many, ids 9001…) once the storage exists; the real code raises, the model answers `reject`; afterwards length,
contents, counter and all later ops must be as if the call had not happened.  Every leaf is malformed on purpose:
the TensorDict slice assignment copies key by key, so a batch whose first fields are well-formed is partly
written before it is rejected (also `add` of more rows than the capacity, or a batch with a missing key, which is
accepted) - inputs outside the property's quantifier, not probed.

Multi-agent layouts: every case draws `cfg` = field order (1-3 flag fields among done / termination /
terminated / truncation / truncated, placed last, first, between reward and next_state, or anywhere), a value
style (integer codes, +0.25 fractions, negative, x1000 - none but the first survives an integer cast, the last
two leave 0..255) and float or int64 (> 2^31) actions.  A stored / sampled transition counts as intact only if
EVERY leaf of every field of every agent equals exactly what was stored for the id read off agent_0's state
(sampled leaves: the float32 value, which is what `sample` hands out by design; dtypes are not compared).

Source translation (`pre_gate`, before the Lean gate): `py2lean_ring.py` translates the source text of
`ReplayBuffer.__init__/__len__/size/add/sample/clear` (replay_buffer.py) and of
`MultiAgentReplayBuffer.__init__/__len__/_add/save_to_memory*` (multi_agent_replay_buffer.py) of the tree
under test into `lean/Gen/RingGen.lean`; `Proofs/RingGenEq.lean` proves the generated methods equal to the
model functions (through `absBuf` / `absDeq`, under the representation invariant) and `Props/C09.lean`
restates the C09 theorems over the generated definitions (`C09_source_translation_*`).  If the translator
rejects the source or those proofs stop checking, that is a gate problem naming the broken equality; the
op-sequence suite below then supplies the failing input if there is one.

Per-environment split and shape normalisation (`py2lean_reorg.py` -> `Gen/ReorgGen.lean`, `Proofs/ReorgGenEq.lean`,
theorems `C09_reorganize_*`, `C09_source_translation_reorg_*`): suite `reorg` drives the real
`MultiAgentReplayBuffer._reorganize_dicts` / `save_to_memory(..., is_vectorised=True)` with 1-3 fields, 1-3 agents in
a per-field shuffled key order, each agent's value an array, a Python list, a dict of arrays or a tuple of arrays (the
first agent of the first field too), 1..5 environments, rows that are scalars / vectors / matrices, and sometimes one
array longer or shorter than the rest.  Every row carries a provenance code (call, field, agent, member, environment);
the decoded result and the decoded new deque entries are compared element by element with the model's transpose
(`ring reorg`, `ring penv` of the Lean driver; a raising call must be `reject`).  Oracle, independent of the model: with
equally long arrays every entry (field j, environment i, agent a, member k) holds exactly the row coded (j, a, k, i),
keys and key order are those of the input, and the deque grew by exactly the per-environment transitions in order.
Suite `shape` does the same for the single-agent path (`Transition` -> `unsqueeze(0)` / `batch_size` -> `ReplayBuffer.add`)
with scalar, (E,), (E,1) rewards / dones (mixed across adds), vector / Dict / Tuple observations, E = 1..5: one add
contributes exactly E rows, row e holds environment e in every leaf, tuple members sit under `tuple_obs_k` in order.

Value exactness, the `dtype` option and mixed numeric types (suites `exact`, `matypes`; oracle + the same Ring model ops):
`exact` drives ReplayBuffer / MultiStepReplayBuffer(n_step=1) / PrioritizedReplayBuffer, each constructed with the
documented `dtype` option omitted or set to float32 / float64 / float16 / bfloat16 / int64 / uint8, through (i) raw
TensorDicts whose fields (observation leaf, nested observation, action, reward, done) carry any of float64 / float32 /
float16 / int64 / int32 / uint8 / bool, and (ii) `Transition` with plain-array observations of those dtypes or Dict
observations, while reward / done / action (and Dict observation members) are handed over as Python int / float / bool,
numpy scalars, int64 / int32 / float64 / float32 / bool arrays, the type changing from add to add and the first add
biased to the integer types.  Values encode (id, leaf, position) and are chosen NOT to be representable in the narrower
types (float64 with 48 mantissa bits whose obs / next_obs differ by 2^-40, odd int64 > 2^60, int32 > 2^24, uint8 >= 128,
float32 with 20 bits).  A stored or sampled row decodes to an id only if EVERY leaf equals, as exact Python numbers, what
was handed to add(); dtypes themselves are not compared (only values are the property's business).
`matypes` does the same for MultiAgentReplayBuffer (it has no dtype option): per add and per agent each of state / action /
reward / done comes as Python int / float / bool, numpy scalar, Python list, int64 / int32 / uint8 / float32 / float64
array (`wide`: float64 that float32 cannot hold, `bigint`: 2^40 + code), single and vectorised adds, vector / Dict / Tuple
observations; stored experiences are compared exactly, sampled rows leaf by leaf with the float32 value of what was given
(sample() hands out float32 by design), and every sample op draws up to 10 batches until one STARTS with an integer-typed
transition and continues with a fractional one for the same field and agent (tag `matypes-batch-starts-narrow-then-fraction`).
Not generated: a single-agent field whose dtype changes between adds of raw / plain-array data (the storage is typed by
the first batch by construction).

clear() of every class (suite `clear`, probes `clear-probe`): ReplayBuffer, PrioritizedReplayBuffer and
MultiStepReplayBuffer with n_step 1..4, 1-3 environments per step, phases of steps separated by clear() (after clear():
fewer steps than the n-step window, exactly the window, a partial and a full refill).  After every phase the buffer must
hold exactly the last min(cap, records) records that the steps since the last clear() produce (n-step: obs / action of the
first, next_obs of the last step of a window, reward folded with gamma = 0.5 - exact), len() that count, and every
sampled row and sampled index (4 draws for each of three batch sizes) must be one of them.  `clear_probes` re-runs the two
analysed inputs of finding C09-clear-keeps-subclass-state (repaired in /repo 55584b2) and reports through chk.finding.
The `exact` suite appends clear() + adds + dump + samples to half of its cases for all three classes.

Read side of the multi-agent buffer (`py2lean_masample.py` -> `Gen/MaSampleGen.lean`, `Proofs/MaSampleGenEq.lean`, theorems
`C09_masample_*`, `C09_stack_rows`, `C09_source_translation_masample_*`): suite `masample` drives the real
`MultiAgentReplayBuffer.sample(k)` with the index draw recorded through a wrapper around the module's `random.sample`
(if the code draws another way the positions are read back off the provenance codes and the case is tagged), 2-4 fields
(sometimes a flag field), 1-3 agents whose keys every experience lists in its own order, each (field, agent) a plain
array, a dict (members listed in a per-experience order) or a tuple, rows scalars / vectors / matrices, batch sizes
0, 1..len, len + 1, single adds between the draws.  Every leaf carries a provenance code (experience, field, agent,
member); the WHOLE returned structure (every field, agent, member, row) is compared with `Ring.maSample` on the same
positions (`ring masample` of the Lean driver; a raising call must be `reject`).  Oracle, independent of the model: every
row of a batch decodes, in every field / agent / member, to the ONE experience stored at its drawn position, that
experience is among the last `cap` added, fields and agents come in `field_names` / `agent_ids` order, positions drawn by
`random.sample` are distinct, `len()` = min(cap, added), the deque is the same before and after `sample`, and no batch
handed out changes when experiences are added or drawn later.
"""
from __future__ import annotations

import json
import random

import numpy as np
import torch

from common import ROOT, Check, ddmin

OBS_KINDS = ["vector", "image", "dict", "tuple", "scalar"]


# ----------------------------------------------------------------------------- single agent
def make_obs(kind: str, ids: list[int], nxt: bool):
    """batched observation whose every element encodes the transition id"""
    off = 0.5 if nxt else 0.0           # next_obs is distinguishable from obs
    a = np.array(ids, dtype=np.float32) + off
    if kind == "vector":
        return np.repeat(a[:, None], 3, axis=1)
    if kind == "scalar":
        return a.copy()
    if kind == "image":
        return np.broadcast_to(a[:, None, None, None], (len(ids), 2, 3, 3)).copy()
    if kind == "dict":
        return {"v": np.repeat(a[:, None], 2, axis=1),
                "img": np.broadcast_to(a[:, None, None, None], (len(ids), 1, 2, 2)).copy()}
    if kind == "tuple":
        return (np.repeat(a[:, None], 2, axis=1), np.repeat(a[:, None], 4, axis=1))
    raise ValueError(kind)


def make_transition(kind: str, ids: list[int]):
    from agilerl.components.data import Transition
    w = len(ids)
    obs, nobs = make_obs(kind, ids, False), make_obs(kind, ids, True)
    if w == 1 and kind != "scalar":
        # unvectorised path of train_off_policy: no batch dim, then unsqueeze(0)
        sq = (lambda x: x[0])
        if isinstance(obs, dict):
            obs, nobs = {k: sq(v) for k, v in obs.items()}, {k: sq(v) for k, v in nobs.items()}
        elif isinstance(obs, tuple):
            obs, nobs = tuple(sq(v) for v in obs), tuple(sq(v) for v in nobs)
        else:
            obs, nobs = sq(obs), sq(nobs)
        t = Transition(obs=obs, action=np.array([ids[0], ids[0]], dtype=np.float32),
                       reward=float(ids[0]), next_obs=nobs, done=float(ids[0] % 2))
        t = t.unsqueeze(0)
    else:
        t = Transition(obs=obs, action=np.repeat(np.array(ids, dtype=np.float32)[:, None], 2, axis=1),
                       reward=np.array(ids, dtype=np.float32), next_obs=nobs,
                       done=np.array([i % 2 for i in ids], dtype=np.float32))
    td = t.to_tensordict()
    td.batch_size = [w]
    return td


def make_malformed(kind: str, w: int):
    """a batch the real `add` must reject once the storage exists: EVERY leaf has one column too many (1-d leaves
    become two columns), so whichever field the slice assignment copies first already fails and nothing is written.
    Its rows carry ids 9001… which must never show up in the buffer."""
    from tensordict import TensorDict
    good = make_transition(kind, list(range(9001, 9001 + w)))
    leaves = {}
    for key in good.keys(include_nested=True, leaves_only=True):
        x = good[key]
        x = x[:, None].repeat(1, 2) if x.ndim == 1 else torch.cat([x, x[..., :1]], dim=-1)
        leaves[key if isinstance(key, tuple) else (key,)] = x
    td = TensorDict({}, batch_size=[w])
    for key, x in leaves.items():
        td[key] = x
    return td


def decode_rows(td, n: int) -> list[str]:
    """per row: the id if every field (and every member of dict/tuple observations) agrees"""
    out = []
    for j in range(n):
        row = td[j]
        vals = set()

        def leaves(x, off):
            if hasattr(x, "keys"):
                for k in x.keys():
                    leaves(x[k], off)
            else:
                for v in torch.unique(x.reshape(-1).to(torch.float64)).tolist():
                    vals.add(v - off)

        leaves(row["obs"], 0.0)
        leaves(row["next_obs"], 0.5)
        leaves(row["action"], 0.0)
        leaves(row["reward"], 0.0)
        if len(vals) != 1:
            out.append("MIXED")
            continue
        v = vals.pop()
        d = row["done"].reshape(-1)
        if v != int(v) or d.numel() != 1 or float(d[0]) != int(v) % 2:
            out.append("MIXED")
        elif int(v) == 0:
            out.append("_")        # zero-initialised slot (ids start at 1)
        else:
            out.append(str(int(v)))
    return out


def batch_diff(snap, live):
    """first difference between a deep snapshot of a handed-out batch and the live batch (every field, "idxs" and
    "weights" included), or None"""
    ks, kl = (sorted(map(str, t.keys(include_nested=True, leaves_only=True))) for t in (snap, live))
    if ks != kl:
        return f"fields {ks} -> {kl}"
    for key in snap.keys(include_nested=True, leaves_only=True):
        a, b = snap[key], live[key]
        if a.shape != b.shape or a.dtype != b.dtype or not torch.equal(a, b):
            return (f"field {key if isinstance(key, str) else '.'.join(key)}: {a.reshape(-1)[:8].tolist()} -> "
                    f"{b.reshape(-1)[:8].tolist()}")
    return None


def gen_ops(rng: random.Random, cap: int, length: int, bad: bool = False):
    ops, size = [], 0
    nid = 1
    cursor = 0
    for _ in range(length):
        r = rng.random()
        if r < 0.62 or size == 0:
            mode = rng.random()
            if mode < 0.25:
                w = max(1, cap - cursor)                      # end exactly at the boundary
            elif mode < 0.45:
                w = min(cap, cap - cursor + rng.randint(1, max(1, cap // 2)))   # across the end
            elif mode < 0.55:
                w = cap
            else:
                w = rng.randint(1, cap)
            w = max(1, min(w, cap))
            ops.append(["add"] + list(range(nid, nid + w)))
            nid += w
            cursor = (cursor + w) % cap
            size = min(cap, size + w)
        elif r < 0.67 and bad:
            ops.append(["badadd", rng.randint(1, cap)])       # malformed batch, rejected by the real add
        elif r < 0.80:
            ops.append(["sample", rng.randint(1, size)])
        elif r < 0.87:
            ops.append(["len"])
        elif r < 0.95:
            ops.append(["dump"])
        else:
            ops.append(["clear"])
            size, cursor = 0, 0
            if rng.random() < 0.7 and cap >= 3:
                # life after clear(): a few narrow additions that do not fill the storage, then look at it
                for _ in range(rng.randint(2, 3)):
                    w = rng.randint(1, max(1, cap // 3))
                    ops.append(["add"] + list(range(nid, nid + w)))
                    nid += w
                    cursor = (cursor + w) % cap
                    size = min(cap, size + w)
                ops.append(["dump"])
                ops.append(["sample", rng.randint(1, size)])
    ops.append(["dump"])
    ops.append(["len"])
    return ops


def run_impl_single(cap: int, kind: str, ops, case_seed: int):
    """returns (observable lines for the model diff, model op lines, oracle problems, tags)"""
    from agilerl.components.replay_buffer import ReplayBuffer
    torch.manual_seed(case_seed)
    buf = ReplayBuffer(max_size=cap)
    obs_lines, model_lines, problems, tags = [], [f"ring new {cap}"], [], []
    obs_lines.append("ok")
    hist: list[int] = []
    since_clear: list[int] = []
    handed = []      # (snapshot decoded rows, live batch)
    for op in ops:
        if op[0] == "add":
            ids = op[1:]
            before = buf._cursor
            buf.add(make_transition(kind, ids))
            hist += ids
            since_clear += ids
            model_lines.append("ring add " + " ".join(map(str, ids)))
            obs_lines.append("ok")
            if before + len(ids) > cap:
                tags.append("wrap-across")
            elif before + len(ids) == cap:
                tags.append("wrap-exact")
            tags.append("add-batch" if len(ids) > 1 else "add-single")
        elif op[0] == "badadd":
            if buf.storage is None:
                continue                       # before the first add the batch would define the layout: not malformed
            before = (len(buf), buf.counter)
            try:
                buf.add(make_malformed(kind, op[1]))
                obs_lines.append("accepted-malformed")
            except Exception:
                obs_lines.append("reject")
            model_lines.append("ring add " + " ".join(map(str, range(9001, 9002 + cap))))   # too wide: the model rejects
            # oracle: a rejected add did not happen - length, counter and contents are those of the successful adds
            n = len(buf)
            rows = decode_rows(buf.storage[:n], n) if n else []
            if n != before[0] or n != min(cap, len(since_clear)) or sorted(rows) != sorted(map(str, since_clear[-cap:])):
                problems.append(f"after a rejected add (malformed batch of {op[1]} rows): len={n} contents={sorted(rows)}; "
                                f"expected len={min(cap, len(since_clear))} contents={sorted(map(str, since_clear[-cap:]))}")
            if buf.counter != before[1] or buf.counter != len(hist):
                problems.append(f"counter after a rejected add (malformed batch of {op[1]} rows) is {buf.counter}; "
                                f"{len(hist)} transitions were added")
            tags.append("rejected-add")
        elif op[0] == "sample":
            k = op[1]
            if len(buf) == 0:
                continue
            k = min(k, len(buf))
            s = buf.sample(k, return_idx=True)
            idx = [int(i) for i in s["idxs"].reshape(-1).tolist()]
            rows = decode_rows(s, s.shape[0])
            model_lines.append(f"ring sample {len(idx)} " + " ".join(map(str, idx)))
            obs_lines.append(" ".join(rows))
            # oracle: batches handed out before are untouched by this draw (every field, "idxs" included) ...
            for h in handed:
                d = None if h[3] else batch_diff(h[1], h[2])
                if d:
                    h[3] = True
                    problems.append(f"a batch handed out earlier was altered later (by another sample): {d}")
            # ... and the idxs of the new batch point at its own rows
            own = decode_rows(buf.storage[s["idxs"].reshape(-1)], len(idx)) if idx else []
            if own != rows:
                problems.append(f"sample idxs {idx} point at rows {own}, the batch holds {rows}")
            handed.append([list(rows), s.clone(), s, False])
            # oracle: right number, stored, no duplicates
            expect = set(map(str, since_clear[-cap:]))
            if len(rows) != k:
                problems.append(f"sample({k}) returned {len(rows)} rows")
            if len(set(idx)) != len(idx) or len(set(rows)) != len(rows):
                problems.append(f"duplicate in one uniform batch: idx={idx} rows={rows}")
            if not set(rows) <= expect:
                problems.append(f"sample returned rows not stored: {sorted(set(rows) - expect)}")
            tags.append("sample")
        elif op[0] == "len":
            model_lines.append("ring len")
            obs_lines.append(str(len(buf)))
            if len(buf) != min(cap, len(since_clear)):
                problems.append(f"len={len(buf)} expected {min(cap, len(since_clear))}")
        elif op[0] == "dump":
            model_lines.append("ring dump")
            n = len(buf)
            rows = decode_rows(buf.storage[:n], n) if n else []
            obs_lines.append(" ".join(rows))
            expect = sorted(map(str, since_clear[-cap:]))
            if sorted(rows) != expect:
                problems.append(f"contents {sorted(rows)} != last-N reference {expect}")
        elif op[0] == "clear":
            buf.clear()
            since_clear = []
            model_lines.append("ring clear")
            obs_lines.append("ok")
            tags.append("clear")
    # oracle: batches handed out earlier are unchanged
    for snap_rows, snap, live, reported in handed:
        now = decode_rows(live, live.shape[0])
        d = batch_diff(snap, live)
        if now != snap_rows:
            problems.append(f"a batch handed out earlier was altered later: {snap_rows} -> {now}")
        elif d and not reported:
            problems.append(f"a batch handed out earlier was altered later: {d}")
    model_lines.append("ring counter")
    obs_lines.append(str(buf.counter))
    return obs_lines, model_lines, problems, tags


# ----------------------------------------------------------------------------- multi agent
AGENTS = ["agent_0", "agent_1", "other_0"]
FIELDS = ["state", "action", "reward", "next_state", "done"]
FLAG_FIELDS = ["done", "termination", "terminated", "truncation", "truncated"]
# value styles: (scale, extra) - a field value is scale * code + extra (+ 0.5 for next_state), code = 4*id + agent index.
# None of them but "plain" survives an integer cast; "neg" / "big" leave the uint8 range.  All are exact in float32.
MA_STYLES = {"plain": (1.0, 0.0), "frac": (1.0, 0.25), "neg": (-1.0, -0.25), "big": (1000.0, 0.25)}
INT_ACTION_BASE = 2 ** 33          # int64 action ids beyond 2^31 (stored exactly; sampled as float32 by design)
DEFAULT_MA_CFG = {"fields": FIELDS, "style": "plain", "int_action": False}


def ma_cfg(cfg) -> dict:
    out = dict(DEFAULT_MA_CFG)
    out.update(cfg or {})
    return out


def ma_field_value(cfg: dict, kind: str, field: str, ai: int, ids: list[int]):
    """batched value (leading dim = len(ids)) of `field` for agent number ai; every element encodes the
    transition id (code 4*id + ai), so data under another agent's / transition's key is visible"""
    scale, extra = MA_STYLES[cfg["style"]]
    code = np.array(ids, dtype=np.int64) * 4 + ai
    if field in FLAG_FIELDS:
        return ((np.array(ids, dtype=np.int64) + ai + FLAG_FIELDS.index(field)) % 2).astype(np.float32)
    a = (code.astype(np.float64) * scale + extra).astype(np.float32)
    n = len(ids)
    if field in ("state", "next_state"):
        a = a + np.float32(0.5 if field == "next_state" else 0.0)
        if kind == "image":
            return np.broadcast_to(a[:, None, None, None], (n, 1, 2, 2)).copy()
        if kind == "dict":
            return {"p": np.repeat(a[:, None], 2, axis=1), "q": np.repeat(a[:, None], 3, axis=1)}
        if kind == "tuple":
            return (np.repeat(a[:, None], 2, axis=1), np.repeat(a[:, None], 3, axis=1), np.repeat(a[:, None], 1, axis=1))
        return np.repeat(a[:, None], 2 + ai, axis=1)
    if field == "action":
        if cfg["int_action"]:
            return np.repeat((code + INT_ACTION_BASE)[:, None], 2, axis=1)          # int64
        return np.repeat(a[:, None], 2, axis=1)
    if field == "reward":
        return a.copy()
    raise ValueError(field)


def ma_args(ids: list[int], vect: bool, kind: str, order_rng: random.Random | None = None, cfg=None):
    """one dict per field (in the order of cfg['fields']); each field's dict may list the agents in its own order"""
    cfg = ma_cfg(cfg)

    def field(name: str):
        d = {}
        order = list(enumerate(AGENTS))
        if order_rng is not None:
            order_rng.shuffle(order)
        for ai, ag in order:
            v = ma_field_value(cfg, kind, name, ai, ids)
            if not vect:
                if isinstance(v, dict):
                    v = {k: x[0] for k, x in v.items()}
                elif isinstance(v, tuple):
                    v = tuple(x[0] for x in v)
                else:
                    v = v[0]
            d[ag] = v
        return d
    return [field(f) for f in cfg["fields"]]


def _leaves(x):
    return [x[k] for k in sorted(x.keys())] if isinstance(x, dict) else (list(x) if isinstance(x, tuple) else [x])


def _ma_guess_id(cfg: dict, x0: float):
    """transition id from the first element of agent_0's `state` (None if it is not one of our codes)"""
    scale, extra = MA_STYLES[cfg["style"]]
    c = (x0 - extra) / scale
    if c != c or abs(c) > 1e9 or c != round(c) or int(round(c)) % 4 != 0 or c < 0:
        return None
    return int(round(c)) // 4


def _ma_row_id(cfg: dict, kind: str, get, sampled: bool) -> str:
    """`get(field, agent)` -> leaves (flat float64 arrays) of one stored / sampled transition.  The id is read off
    agent_0's state; the transition is intact iff EVERY leaf of every field of every agent equals exactly what was
    stored for that id (a sampled leaf: the float32 value of it, which is what sample() hands out by design)."""
    x = get("state", AGENTS[0])
    if not x or x[0].size == 0:
        return "MIXED"
    tid = _ma_guess_id(cfg, float(x[0][0]))
    if tid is None:
        return "MIXED"
    for f in cfg["fields"]:
        for ai, ag in enumerate(AGENTS):
            want = _leaves(ma_field_value(cfg, kind, f, ai, [tid]))
            got = get(f, ag)
            if len(got) != len(want):
                return "MIXED"
            for g, w in zip(got, want):
                w = np.asarray(w[0]).reshape(-1)
                w = w.astype(np.float32).astype(np.float64) if sampled else w.astype(np.float64)
                if g.shape != w.shape or not np.array_equal(g, w):
                    return "MIXED"
    return str(tid)


def ma_decode_experience(e, cfg=None, kind: str = "vector") -> str:
    cfg = ma_cfg(cfg)

    def get(f, ag):
        return [np.asarray(y).astype(np.float64).reshape(-1) for y in _leaves(getattr(e, f)[ag])]
    return _ma_row_id(cfg, kind, get, sampled=False)


def ma_decode_batch(batch, k: int, cfg=None, kind: str = "vector") -> list[str]:
    """sampled batch: tuple(field -> {agent: tensor[k,...]})"""
    cfg = ma_cfg(cfg)
    rows = []
    for j in range(k):
        def get(f, ag, j=j):
            x = batch[cfg["fields"].index(f)][ag]
            return [y[j].reshape(-1).to(torch.float64).numpy() for y in _leaves(x)]
        rows.append(_ma_row_id(cfg, kind, get, sampled=True))
    return rows


def run_impl_ma(cap: int, kind: str, ops, case_seed: int, cfg=None):
    from agilerl.components.multi_agent_replay_buffer import MultiAgentReplayBuffer
    cfg = ma_cfg(cfg)
    random.seed(case_seed)
    order_rng = random.Random(case_seed ^ 0x5EED) if case_seed % 3 else None   # 2/3 of the cases shuffle key order
    buf = MultiAgentReplayBuffer(memory_size=cap, field_names=list(cfg["fields"]), agent_ids=AGENTS)
    obs_lines, model_lines, problems, tags = ["ok"], [f"ring dnew {cap}"], [], []
    hist: list[int] = []
    for op in ops:
        if op[0] == "add":
            ids = op[1:]
            vect = len(ids) > 1 or (ids[0] % 3 == 0)
            buf.save_to_memory(*ma_args(ids, vect, kind, order_rng, cfg), is_vectorised=vect)
            hist += ids
            model_lines.append("ring dadd " + " ".join(map(str, ids)))
            obs_lines.append("ok")
            tags.append("ma-vect" if vect else "ma-single")
            if len(hist) > cap:
                tags.append("ma-evict")
        elif op[0] == "sample":
            k = min(op[1], len(buf))
            if k == 0:
                continue
            rows = ma_decode_batch(buf.sample(k), k, cfg, kind)
            expect = set(map(str, hist[-cap:]))
            if len(rows) != k or len(set(rows)) != k or not set(rows) <= expect:
                problems.append(f"MA sample({k}) -> {rows}; stored {sorted(expect)}")
            tags.append("ma-sample")
        elif op[0] == "len":
            model_lines.append("ring dlen")
            obs_lines.append(str(len(buf)))
            if len(buf) != min(cap, len(hist)):
                problems.append(f"MA len={len(buf)} expected {min(cap, len(hist))}")
        elif op[0] == "dump":
            model_lines.append("ring ddump")
            rows = [ma_decode_experience(e, cfg, kind) for e in buf.memory]
            obs_lines.append(" ".join(rows))
            if rows != list(map(str, hist[-cap:])):
                problems.append(f"MA contents {rows} != last-N {hist[-cap:]}")
    model_lines.append("ring dcounter")
    obs_lines.append(str(buf.counter))
    return obs_lines, model_lines, problems, tags


# ----------------------------------------------------------------------------- check
def pre_gate(chk: Check) -> None:
    """Regenerate lean/Gen/RingGen.lean from the source text of the tree under test and re-check
    `generated = model` (Proofs/RingGenEq.lean) and the theorems over the generated definitions."""
    import common
    import py2lean_ring
    import py2lean_reorg
    import py2lean_masample
    # both generated files feed Props.C09: bring both up to date before either gate builds it, so that a file left
    # over from a run against another tree is not blamed on the wrong translator
    for mod, out in ((py2lean_ring, "Gen/RingGen.lean"), (py2lean_reorg, "Gen/ReorgGen.lean"),
                     (py2lean_masample, "Gen/MaSampleGen.lean")):
        try:
            mod.write_if_changed(mod.translate(common.REPO)[0], common.LEAN_DIR / out)
        except mod.Unsupported:
            pass                                  # reported by the gate below
    common.translation_gate(chk, py2lean_ring, "Gen/RingGen.lean", ["Gen.RingGen", "Proofs.RingGenEq", "Props.C09"],
                            "ReplayBuffer circular storage / sample / clear, MultiAgentReplayBuffer bounded deque")
    common.translation_gate(chk, py2lean_reorg, "Gen/ReorgGen.lean", ["Gen.ReorgGen", "Proofs.ReorgGenEq", "Props.C09"],
                            "_reorganize_dicts / save_to_memory_vect_envs per-environment split, Transition shape "
                            "normalisation, reshape loop of ReplayBuffer.add")
    common.translation_gate(chk, py2lean_masample, "Gen/MaSampleGen.lean",
                            ["Gen.MaSampleGen", "Proofs.MaSampleGenEq", "Props.C09"],
                            "MultiAgentReplayBuffer.sample / _process_transition / stack_transitions (read side)")


def one_case(chk: Check, which: str, cap: int, kind: str, ops, case_seed: int, cfg=None):
    """returns (diff index or None, problems, tags, impl_lines, model_out)"""
    try:
        if which == "single":
            impl, model_ops, problems, tags = run_impl_single(cap, kind, ops, case_seed)
        else:
            impl, model_ops, problems, tags = run_impl_ma(cap, kind, ops, case_seed, cfg)
    except Exception as e:  # the implementation raised on a legal op sequence
        return None, [f"implementation raised {type(e).__name__}: {e}"], [], [], []
    model_out = chk.driver.run(["reset"] + model_ops)[1:]
    diff = next((i for i, (a, b) in enumerate(zip(impl, model_out)) if a != b), None)
    return diff, problems, tags, impl, model_out


def run(chk: Check) -> None:
    rng = chk.rng
    n_cases = 300 if chk.tier == "quick" else 2500
    chk.rule = ("random op sequences (add with widths biased to end exactly at / run across the end of the "
                "storage, sample, len, dump, clear; single-agent also malformed batches that add() rejects, which must "
                "leave no trace) on ReplayBuffer and MultiAgentReplayBuffer, capacities 1..17, five observation kinds; "
                "multi-agent: random field layouts (1-3 flag fields done/termination/terminated/truncation/truncated "
                "first, in the middle or last), four value styles (integer codes, +0.25 fractions, negative, > 255) and "
                "float or int64 (> 2^31) actions, sampled and stored fields compared exactly with what was stored; "
                "distinct = distinct (buffer, capacity, kind, layout, op list); non-trivial = at least one wrap-around "
                "or eviction happened; suites exact / matypes: the same op sequences with values that no narrower dtype "
                "holds (float64 / int64 / int32 / uint8 / bool / float16 fields), every buffer class with its dtype option "
                "omitted or set to one of six dtypes, and reward / done / action / observations handed over in Python and "
                "numpy numeric types that change from add to add, stored and sampled rows compared as exact numbers")
    chk.assumptions = ["tensordict slice assignment and indexing behave as documented",
                       "ids are encoded in every field, so equality of decoded ids stands for 'fields belong together'",
                       "a malformed batch is malformed in every leaf (the key-by-key TensorDict slice assignment is not "
                       "atomic for partly well-formed batches; those are outside the property)",
                       "single-agent storage is typed by the first batch: within one case a raw / plain-array field keeps "
                       "its dtype (numeric types vary only where Transition normalises them); multi-agent sample() hands "
                       "out float32, so sampled leaves are compared with the float32 value of what was stored"]
    # corpus first
    corpus = sorted(f for f in (ROOT / "corpus" / "C09").glob("*.json") if not f.name.startswith(("reorg_", "shape_", "exact_", "matypes_", "masample_")))
    cases = []
    for f in corpus:
        c = json.loads(f.read_text())
        cases.append((c["which"], c["cap"], c["kind"], c["ops"], c.get("seed", 0), c.get("cfg"), f.name))
    for i in range(n_cases):
        which = "single" if rng.random() < 0.6 else "ma"
        cap = rng.choice([1, 2, 3, 4, 5, 7, 8, 11, 16, 17]) if rng.random() < 0.8 else rng.randint(1, 17)
        kind = rng.choice(OBS_KINDS if which == "single" else ["vector", "image", "dict", "tuple"])
        ops = gen_ops(rng, cap, rng.randint(4, 14 if chk.tier == "quick" else 40), bad=which == "single")
        cfg = gen_ma_cfg(rng) if which == "ma" else None
        cases.append((which, cap, kind, ops, rng.randrange(1 << 30), cfg, None))
    ndiff = 0
    for which, cap, kind, ops, cs, cfg, origin in cases:
        diff, problems, tags, impl, model_out = one_case(chk, which, cap, kind, ops, cs, cfg)
        wrapped = any(t in ("wrap-across", "wrap-exact", "ma-evict") for t in tags)
        if which == "ma":
            c = ma_cfg(cfg)
            flags = [i for i, f in enumerate(c["fields"]) if f in FLAG_FIELDS]
            tags = tags + [f"ma-style-{c['style']}", "ma-flag-last" if flags and min(flags) == len(c["fields"]) - len(flags)
                           else "ma-flag-not-last", f"ma-int-action-{c['int_action']}"]
        chk.case([which, cap, kind, cfg, ops], nontrivial=wrapped,
                 sample={"buffer": which, "cap": cap, "obs": kind, "cfg": cfg, "ops": ops[:8]},
                 tags=tags + [f"buf-{which}", f"obs-{kind}"])
        if diff is None and not problems:
            continue
        ndiff += diff is not None

        cat0 = problem_kind(problems[0]) if problems else None

        def still_fails(sub):          # shrink towards the same kind of failure, not just any failure
            d, p, *_ = one_case(chk, which, cap, kind, renumber(sub), cs, cfg)
            return any(problem_kind(q) == cat0 for q in p) if problems else d is not None
        small = renumber(ddmin(ops, still_fails))
        d2, p2, _, impl2, model2 = one_case(chk, which, cap, kind, small, cs, cfg)
        replay = {"which": which, "cap": cap, "kind": kind, "ops": small, "seed": cs, "cfg": cfg,
                  "impl": impl2, "model": model2, "oracle_problems": p2 or problems,
                  "correspondence": "harness/c09.py vs Model/Ring.lean", "theorems": chk.gate["theorems"]}
        if problems:
            chk.violation(next((q for q in p2 if problem_kind(q) == cat0), (p2 or problems)[0]), replay)
        else:
            chk.violation(f"implementation and Ring model disagree at line {diff}: impl={impl[diff]!r} "
                          f"model={model_out[diff]!r}; property oracle holds on this case and its shrinks",
                          replay, no_input=True)
    chk.suite("ring-ops", len(cases), ndiff)
    sample_stress(chk)
    handout_suite(chk)
    reorg_suite(chk)
    shape_suite(chk)
    exact_suite(chk)
    matypes_suite(chk)
    masample_suite(chk)
    clear_suite(chk)
    clear_probes(chk)
    if chk.tier == "thorough":
        selftest(chk)
        selftest_reorg(chk)
        selftest_types(chk)
        selftest_clear(chk)
        selftest_masample(chk)


def problem_kind(msg: str) -> str:
    """first word of an oracle message (contents / sample / duplicate / len / a / MA / implementation / after / counter)"""
    import re
    return re.split(r"[ =\[(]", msg, maxsplit=1)[0]


def gen_ma_cfg(rng: random.Random) -> dict:
    """field layout and value style of one multi-agent case"""
    flags = rng.sample(FLAG_FIELDS, rng.choice([1, 1, 1, 2, 2, 3]))
    base = ["state", "action", "reward", "next_state"]
    r = rng.random()
    if r < 0.25:
        fields = base + flags                                  # the layout every caller in the repo uses
    elif r < 0.45:
        fields = flags + base                                  # flags first
    elif r < 0.65:
        fields = base[:3] + flags + base[3:]                   # s, a, r, d, s'
    else:
        fields = base + flags
        rng.shuffle(fields)
    return {"fields": fields, "style": rng.choice(sorted(MA_STYLES)), "int_action": rng.random() < 0.3}


def stress_one(cls_name: str, cap: int, fill: int, batch: int, seed: int, w: int, n_draws: int):
    try:
        return _stress_one(cls_name, cap, fill, batch, seed, w, n_draws)
    except Exception as e:  # the implementation raised on a legal sequence of additions / draws
        return f"{cls_name}(max_size={cap}): implementation raised {type(e).__name__}: {str(e)[:200]}"


def _stress_one(cls_name: str, cap: int, fill: int, batch: int, seed: int, w: int, n_draws: int):
    from agilerl.components.replay_buffer import MultiStepReplayBuffer, ReplayBuffer
    cls = ReplayBuffer if cls_name == "ReplayBuffer" else MultiStepReplayBuffer
    torch.manual_seed(seed)
    buf = cls(max_size=cap) if cls is ReplayBuffer else cls(max_size=cap, n_step=1, gamma=0.5)
    nid = 1
    while nid <= fill:
        ids = list(range(nid, min(nid + w, fill + 1)))
        buf.add(make_transition("vector", ids))
        nid += len(ids)
    stored = set(map(str, range(max(1, fill - cap + 1), fill + 1)))
    for d in range(n_draws):
        sb = buf.sample(batch, return_idx=True) if cls is ReplayBuffer else buf.sample(batch)
        rows = decode_rows(sb, sb.shape[0])
        if len(rows) != batch or len(set(rows)) != len(rows) or not set(rows) <= stored:
            return (f"{cls.__name__}(max_size={cap}) holding {min(fill, cap)} rows: sample({batch}) draw {d} returned "
                    f"{'a repeated row' if len(set(rows)) != len(rows) else 'rows ' + str(sorted(set(rows) - stored)[:3])}: {rows[:12]}")
    return None


def sample_stress(chk: Check) -> None:
    """large buffers, batches much smaller than the buffer, many draws: every uniform batch must consist of
    distinct stored rows (sampling code paths may depend on the size / batch-size ratio)"""
    from agilerl.components.replay_buffer import MultiStepReplayBuffer, ReplayBuffer
    rng = chk.rng
    n_cfg = 14 if chk.tier == "quick" else 60
    n_draws = 300 if chk.tier == "quick" else 600
    bad = 0
    for _ in range(n_cfg):
        cap = rng.choice([64, 100, 257, 600, 1000])
        fill = rng.choice([cap, cap, rng.randint(cap // 2, cap), cap + rng.randint(1, cap // 2)])
        batch = rng.choice([1, 2, 3, 8, 16, 32, 64])
        batch = min(batch, max(1, min(fill, cap) // rng.choice([1, 2, 9, 12, 20])))
        seed = rng.randrange(1 << 30)
        cls = rng.choice([ReplayBuffer, ReplayBuffer, MultiStepReplayBuffer])
        w = rng.choice([1, 4, 7])
        problem = stress_one(cls.__name__, cap, fill, batch, seed, w, n_draws)
        chk.case(["stress", cls.__name__, cap, fill, batch, seed], nontrivial=True,
                 sample={"suite": "sample-stress", "buffer": cls.__name__, "cap": cap, "added": fill, "batch": batch},
                 tags=["sample-stress", f"ratio-{min(fill, cap) // max(batch, 1) > 8}"])
        if problem:
            bad += 1
            chk.violation(problem, {"suite": "sample-stress", "buffer": cls.__name__, "cap": cap, "added": fill,
                                    "batch": batch, "torch_seed": seed, "add_width": w, "draws": n_draws})
    chk.suite("sample-stress", n_cfg, bad)


HANDOUT_CLASSES = ["ReplayBuffer", "MultiStepReplayBuffer", "PrioritizedReplayBuffer"]


def handout_one(cls_name: str, cap: int, fill: int, batch: int, seed: int, w: int, more: int):
    try:
        return _handout_one(cls_name, cap, fill, batch, seed, w, more)
    except Exception as e:
        return f"{cls_name}(max_size={cap}): implementation raised {type(e).__name__}: {str(e)[:200]}"


def _handout_one(cls_name: str, cap: int, fill: int, batch: int, seed: int, w: int, more: int):
    """keep every batch (with its idxs) that sample() hands out; sample again at unchanged length, add, sample
    again: no field of an earlier batch may change, and idxs must index the batch's own rows"""
    from agilerl.components import replay_buffer as rb
    torch.manual_seed(seed)
    if cls_name == "ReplayBuffer":
        buf = rb.ReplayBuffer(max_size=cap)
    elif cls_name == "MultiStepReplayBuffer":
        buf = rb.MultiStepReplayBuffer(max_size=cap, n_step=1, gamma=0.5)
    else:
        buf = rb.PrioritizedReplayBuffer(max_size=cap, alpha=0.5)
    kept = []          # [deep snapshot, live batch]
    nid = 1

    def add(upto):
        nonlocal nid
        while nid <= upto:
            ids = list(range(nid, min(nid + w, upto + 1)))
            buf.add(make_transition("vector", ids))
            nid += len(ids)

    def draw(where):
        k = min(batch, len(buf))
        b = buf.sample(k) if cls_name == "PrioritizedReplayBuffer" else buf.sample(k, return_idx=True)
        if "idxs" not in b.keys():
            return f"{cls_name}: sample did not return idxs"
        idx = b["idxs"].reshape(-1)
        rows, own = decode_rows(b, b.shape[0]), decode_rows(buf.storage[idx], idx.numel())
        if rows != own:
            return f"{cls_name}(max_size={cap}) {where}: idxs {idx.tolist()[:8]} point at rows {own[:8]}, the batch holds {rows[:8]}"
        for snap, live in kept:
            d = batch_diff(snap, live)
            if d:
                return (f"{cls_name}(max_size={cap}) holding {len(buf)} rows: a batch handed out earlier was altered "
                        f"by a later sample({k}) {where}: {d}")
        kept.append([b.clone(), b])
        return None

    add(fill)
    for where in ("at unchanged length", "at unchanged length", "at unchanged length"):
        p = draw(where)
        if p:
            return p
    for step in range(more):
        add(nid + w - 1)
        for snap, live in kept:
            d = batch_diff(snap, live)
            if d:
                return f"{cls_name}(max_size={cap}): a batch handed out earlier was altered by a later add: {d}"
        p = draw("after a further add")
        if p:
            return p
    return None


def handout_suite(chk: Check) -> None:
    rng = chk.rng
    n_cfg = 18 if chk.tier == "quick" else 90
    bad = 0
    for i in range(n_cfg):
        cls_name = HANDOUT_CLASSES[i % 3]
        cap = rng.choice([2, 3, 5, 8, 16, 33])
        fill = rng.choice([cap, cap + rng.randint(1, cap), rng.randint(1, cap)])
        batch = rng.randint(1, min(fill, cap))
        w = rng.choice([1, 1, 2, 3])
        w = min(w, cap)
        seed, more = rng.randrange(1 << 30), rng.randint(1, 4)
        problem = handout_one(cls_name, cap, fill, batch, seed, w, more)
        chk.case(["handout", cls_name, cap, fill, batch, seed, w, more], nontrivial=fill >= cap,
                 sample={"suite": "handout", "buffer": cls_name, "cap": cap, "added": fill, "batch": batch},
                 tags=["handout", f"handout-{cls_name}"])
        if problem:
            bad += 1
            chk.violation(problem, {"suite": "handout", "buffer": cls_name, "cap": cap, "added": fill, "batch": batch,
                                    "torch_seed": seed, "add_width": w, "more_adds": more})
    chk.suite("handout", n_cfg, bad)


# ----------------------------------------------------------------------------- per-environment split (reorg)
REORG_ROW_SHAPES = [(), (2,), (1, 3)]


def reorg_code(call: int, j: int, a: int, k: int, i: int) -> int:
    return 1 + i + 8 * (k + 8 * (a + 8 * (j + 8 * call)))


def reorg_decode(code: int):
    c = code - 1
    i, c = c % 8, c // 8
    k, c = c % 8, c // 8
    a, c = c % 8, c // 8
    j, call = c % 8, c // 8
    return call, j, a, k, i


def gen_reorg_case(rng: random.Random) -> dict:
    """spec of one sequence of vectorised calls: per call, per field, the agents in key order with the container kind
    of each and the number of rows of every array (normally num_envs; sometimes one array is longer / shorter)"""
    nfields, nagents = rng.randint(1, 3), rng.randint(1, 3)
    cap = rng.choice([1, 2, 3, 5, 8, 13])
    calls = []
    for _ in range(rng.randint(1, 3)):
        n = rng.randint(1, 5)
        fields = []
        for j in range(nfields):
            order = list(range(nagents))
            rng.shuffle(order)
            ags = []
            for a in order:
                kind = rng.choice(["A", "A", "L", "D", "T"])
                m = 1 if kind in "AL" else rng.randint(1, 3)
                ags.append({"agent": a, "kind": kind, "lens": [n] * m, "row": rng.randrange(len(REORG_ROW_SHAPES)),
                            "subkeys": rng.sample(range(4), m) if kind == "D" else list(range(m))})
            fields.append(ags)
        if rng.random() < 0.25:                      # one array disagrees in length
            f = rng.choice(fields)
            ag = rng.choice(f)
            ag["lens"][rng.randrange(len(ag["lens"]))] = max(0, n + rng.choice([-2, -1, 1, 2]))
        calls.append({"n": n, "fields": fields})
    return {"cap": cap, "calls": calls}


def reorg_build(call_no: int, call: dict):
    """(real arguments, wire tokens, equal-lengths?) of one vectorised call"""
    args, toks, equal = [], [str(len(call["fields"]))], True
    n_first = None
    for j, ags in enumerate(call["fields"]):
        d = {}
        toks.append(str(len(ags)))
        for ag in ags:
            a, kind, shape = ag["agent"], ag["kind"], REORG_ROW_SHAPES[ag["row"]]

            def arr(k, ln, as_list=False):
                codes = [reorg_code(call_no, j, a, k, i) for i in range(ln)]
                if as_list:                                              # Python list of rows (the maybe_to_array path)
                    return [float(c) if shape == () else np.full(shape, c, dtype=np.float64).tolist() for c in codes], codes
                return np.stack([np.full(shape, c, dtype=np.float64) for c in codes]) if codes else np.zeros((0,) + shape), codes
            toks.append(str(a))
            if kind in "AL":
                v, codes = arr(0, ag["lens"][0], kind == "L")
                toks += ["A", str(len(codes))] + list(map(str, codes))
                lens = [len(codes)]
            elif kind == "D":
                v, lens = {}, []
                toks += ["D", str(len(ag["lens"]))]
                for k, (sk, ln) in enumerate(zip(ag["subkeys"], ag["lens"])):
                    x, codes = arr(k, ln)
                    v[f"k{sk}"] = x
                    toks += [str(sk), str(len(codes))] + list(map(str, codes))
                    lens.append(len(codes))
            else:
                vs, lens = [], []
                toks += ["T", str(len(ag["lens"]))]
                for k, ln in enumerate(ag["lens"]):
                    x, codes = arr(k, ln)
                    vs.append(x)
                    toks += [str(len(codes))] + list(map(str, codes))
                    lens.append(len(codes))
                v = tuple(vs)
            if n_first is None:
                n_first = lens[0]
            equal = equal and all(ln == n_first for ln in lens)
            d[f"agent_{a}"] = v
        args.append(d)
    call["n_first"] = n_first
    return args, toks, equal


def _reorg_leaf(x):
    v = np.asarray(x, dtype=np.float64).reshape(-1)
    if v.size == 0 or not np.all(v == v[0]) or v[0] != int(v[0]):
        return "MIXED"
    return int(v[0])


def reorg_decode_envfield(d) -> list:
    """one per-environment dict -> [(agent index, ("A", code) | ("D", [(subkey, code)…]) | ("T", [code…]))…] in key order"""
    out = []
    for key, val in d.items():
        a = int(str(key).split("_")[1])
        if isinstance(val, dict):
            out.append((a, ("D", [(int(str(k)[1:]), _reorg_leaf(x)) for k, x in val.items()])))
        elif isinstance(val, tuple):
            out.append((a, ("T", [_reorg_leaf(x) for x in val])))
        else:
            out.append((a, ("A", _reorg_leaf(val))))
    return out


def reorg_parse_matrix(line: str):
    """inverse of `Ring.showMatrix`: rows of lists of per-environment dicts in the format of reorg_decode_envfield"""
    t = line.split()
    pos = 0

    def nat():
        nonlocal pos
        pos += 1
        return int(t[pos - 1])

    def ent():
        nonlocal pos
        tag = t[pos]
        pos += 1
        if tag == "A":
            return ("A", nat())
        m = nat()
        if tag == "D":
            return ("D", [(nat(), nat()) for _ in range(m)])
        return ("T", [nat() for _ in range(m)])

    def envfield():
        return [(nat(), ent()) for _ in range(nat())]
    rows = [[envfield() for _ in range(nat())] for _ in range(nat())]
    if pos != len(t):
        raise ValueError("trailing tokens")
    return rows


def reorg_oracle(call_no: int, call: dict, res_dec, what: str) -> list[str]:
    """the statement itself on the decoded result of a call whose arrays are equally long: entry (field j, env i)
    has the input's agents in the input's order and every leaf is the row coded (call, j, a, k, i)"""
    problems = []
    n = call.get("n_first", call["n"])          # the number of rows of the first value of the first field
    if len(res_dec) != len(call["fields"]):
        return [f"{what}: {len(res_dec)} lists for {len(call['fields'])} fields"]
    for j, (ags, lst) in enumerate(zip(call["fields"], res_dec)):
        if len(lst) != n:
            problems.append(f"{what}: field {j} has {len(lst)} per-environment entries for {n} environments")
            continue
        for i, d in enumerate(lst):
            if [a for a, _ in d] != [ag["agent"] for ag in ags]:
                problems.append(f"{what}: field {j} env {i}: agents {[a for a, _ in d]}, given {[ag['agent'] for ag in ags]}")
                continue
            for (a, (tag, body)), ag in zip(d, ags):
                want_tag = "A" if ag["kind"] in "AL" else ag["kind"]
                leaves = [(0, body)] if tag == "A" else ([(k, c) for k, (_, c) in enumerate(body)] if tag == "D" else list(enumerate(body)))
                if tag != want_tag or len(leaves) != len(ag["lens"]) or (tag == "D" and [sk for sk, _ in body] != ag["subkeys"]):
                    problems.append(f"{what}: field {j} env {i} agent {a}: container {tag} {body}, given kind {ag['kind']} "
                                    f"with {len(ag['lens'])} member(s) {ag['subkeys']}")
                    continue
                for k, c in leaves:
                    if c == "MIXED" or reorg_decode(c) != (call_no, j, a, k, i):
                        src = "a row mixing several sources" if c == "MIXED" else \
                            "the row of (call, field, agent, member, env) = " + str(reorg_decode(c))
                        problems.append(f"{what}: entry (field {j}, env {i}, agent {a}, member {k}) holds {src}; "
                                        f"expected {(call_no, j, a, k, i)}")
    return problems[:4]


def reorg_one(chk: Check, case: dict):
    """returns (problems of the oracle, model/implementation differences, tags)"""
    from agilerl.components.multi_agent_replay_buffer import MultiAgentReplayBuffer
    nfields = len(case["calls"][0]["fields"])
    nagents = max(ag["agent"] for c in case["calls"] for f in c["fields"] for ag in f) + 1
    buf = MultiAgentReplayBuffer(memory_size=case["cap"], field_names=[f"f{j}" for j in range(nfields)],
                                 agent_ids=[f"agent_{a}" for a in range(nagents)])
    problems, diffs, tags = [], [], []
    hist: list = []           # per-environment transitions added so far (decoded), oldest first
    for cno, call in enumerate(case["calls"]):
        args, toks, equal = reorg_build(cno, call)
        wire = " ".join(toks)
        m_reorg, m_penv = chk.driver.run(["reset", "ring reorg " + wire, "ring penv " + wire])[1:]
        tags.append("reorg-equal-lengths" if equal else "reorg-length-mismatch")
        # (a) the split itself
        try:
            res = buf._reorganize_dicts(*args)
            res_dec = [[reorg_decode_envfield(d) for d in lst] for lst in res]
            raised = None
        except Exception as e:
            res_dec, raised = None, f"{type(e).__name__}: {str(e)[:80]}"
        if raised is not None:
            if m_reorg != "reject":
                (problems if equal else diffs).append(f"call {cno}: _reorganize_dicts raised {raised}; the model returns a result")
            tags.append("reorg-raises")
        elif m_reorg == "reject":
            diffs.append(f"call {cno}: _reorganize_dicts returned a result where the model raises")
        else:
            if res_dec != reorg_parse_matrix(m_reorg):
                diffs.append(f"call {cno}: _reorganize_dicts result differs from the model's transpose: impl={res_dec} "
                             f"model={reorg_parse_matrix(m_reorg)}")
            if equal:
                problems += reorg_oracle(cno, call, res_dec, f"call {cno}: _reorganize_dicts")
            else:
                tags.append("reorg-silent-truncation" if any(ln > len(res_dec[0]) for f in call["fields"] for ag in f for ln in ag["lens"])
                            else "reorg-other-mismatch")
        # (b) save_to_memory(is_vectorised=True): what reaches the deque
        before_counter = buf.counter
        try:
            buf.save_to_memory(*[dict(d) for d in args], is_vectorised=True)
            saved = True
        except Exception as e:
            saved = False
            if raised is None:
                problems.append(f"call {cno}: save_to_memory raised {type(e).__name__}: {str(e)[:80]} although the split succeeds")
        if saved:
            if m_penv == "reject":
                diffs.append(f"call {cno}: save_to_memory succeeded where the model raises")
                continue
            envs = reorg_parse_matrix(m_penv)                       # envs[i][j]
            hist += envs
            if buf.counter != before_counter + len(envs):
                problems.append(f"call {cno}: counter grew by {buf.counter - before_counter} for {len(envs)} environments")
            tags.append(f"reorg-envs-{len(envs)}")
        elif raised is not None and len(buf.memory) != min(case["cap"], len(hist)):
            problems.append(f"call {cno}: a raising save_to_memory left {len(buf.memory)} entries, {min(case['cap'], len(hist))} expected")
        stored = [[reorg_decode_envfield(d) for d in e] for e in buf.memory]
        want = hist[-case["cap"]:]
        if stored != want:
            msg = (f"call {cno}: deque holds {len(stored)} transitions {stored[-2:]}, the last {case['cap']} per-environment "
                   f"transitions are {want[-2:]}")
            # with equal lengths this is the property itself (each environment's column, in order, last N)
            (problems if all(reorg_build(c, cl)[2] for c, cl in enumerate(case["calls"][: cno + 1])) else diffs).append(msg)
        if len(hist) > case["cap"]:
            tags.append("reorg-evict")
    return problems, diffs, tags


def reorg_suite(chk: Check) -> None:
    rng = chk.rng
    n_cases = 60 if chk.tier == "quick" else 500
    cases = [(json.loads(f.read_text()), f.name) for f in sorted((ROOT / "corpus" / "C09").glob("reorg_*.json"))]
    cases += [(gen_reorg_case(rng), None) for _ in range(n_cases)]
    bad = 0
    for case, origin in cases:
        case = case.get("case", case)
        try:
            problems, diffs, tags = reorg_one(chk, case)
        except (ValueError, IndexError) as e:
            from common import InfraError
            raise InfraError(f"reorg suite: cannot parse the driver's answer: {e}")
        kinds = sorted({ag["kind"] for c in case["calls"] for f in c["fields"] for ag in f})
        chk.case(["reorg", case], nontrivial=any(c["n"] > 1 for c in case["calls"]),
                 sample={"suite": "reorg", "cap": case["cap"], "calls": len(case["calls"]), "kinds": kinds},
                 tags=tags + ["reorg"] + [f"reorg-kind-{k}" for k in kinds]
                 + [f"reorg-first-{case['calls'][0]['fields'][0][0]['kind']}"])
        if not problems and not diffs:
            continue
        bad += 1
        if problems:
            small = reorg_shrink(chk, case, lambda c: bool(reorg_one(chk, c)[0]))
            p2 = reorg_one(chk, small)[0]
            chk.violation(p2[0] if p2 else problems[0],
                          {"suite": "reorg", "case": small, "oracle_problems": p2 or problems,
                           "correspondence": "harness/c09.py reorg vs Model/Ring.lean reorganizeDicts / perEnv"})
        else:
            small = reorg_shrink(chk, case, lambda c: bool(reorg_one(chk, c)[1]))
            d2 = reorg_one(chk, small)[1]
            chk.violation((d2 or diffs)[0] + "; property oracle holds on this case and its shrinks",
                          {"suite": "reorg", "case": small, "differences": d2 or diffs}, no_input=True)
    chk.suite("reorg", len(cases), bad)


def reorg_shrink(chk: Check, case: dict, fails) -> dict:
    """fewer calls, then fewer fields (the same fields in every call)"""
    import copy
    best = copy.deepcopy(case)
    for keep in range(len(best["calls"])):
        c = copy.deepcopy(best)
        c["calls"] = [best["calls"][keep]]
        try:
            if fails(c):
                best = c
                break
        except Exception:
            pass
    nf = len(best["calls"][0]["fields"])
    for j in reversed(range(nf)):
        if len(best["calls"][0]["fields"]) <= 1:
            break
        c = copy.deepcopy(best)
        for cl in c["calls"]:
            del cl["fields"][j]
        try:
            if fails(c):
                best = c
        except Exception:
            pass
    return best


# ----------------------------------------------------------------------------- single-agent shape normalisation
def shape_obs(kind: str, ids: list[int], nxt: bool, batched: bool):
    off = 0.5 if nxt else 0.0
    a = np.array(ids, dtype=np.float32) + off
    if kind == "vector":
        x = np.repeat(a[:, None], 3, axis=1)
    elif kind == "dict":
        x = {"zeta": np.repeat(a[:, None], 2, axis=1), "alpha": np.repeat(a[:, None], 3, axis=1)}
    else:   # tuple: member k has k+1 columns and adds 1000*k to the id, so a member under the wrong key is visible
        x = tuple(np.repeat(a[:, None] + 1000.0 * k, k + 1, axis=1) for k in range(3))
    if batched:
        return x
    return ({k: v[0] for k, v in x.items()} if isinstance(x, dict) else tuple(v[0] for v in x) if isinstance(x, tuple) else x[0])


def shape_one(case: dict) -> list[str]:
    try:
        return _shape_one(case)
    except Exception as e:
        return [f"implementation raised {type(e).__name__}: {str(e)[:160]}"]


def _shape_one(case: dict) -> list[str]:
    """adds as train_off_policy makes them; every add must contribute exactly its number of environments, in order"""
    from agilerl.components.data import Transition
    from agilerl.components.replay_buffer import ReplayBuffer
    cap, kind = case["cap"], case["kind"]
    buf = ReplayBuffer(max_size=cap)
    problems, nid, hist = [], 1, []
    for form_r, form_d, e, vect in case["adds"]:
        ids = list(range(nid, nid + e))
        nid += e
        idsf = np.array(ids, dtype=np.float32)

        def leaf(form, vals):
            if form == "scalar":
                return float(vals[0])
            if form == "np0":
                return np.float32(vals[0])
            return vals.copy() if form == "E" else vals[:, None].copy()
        t = Transition(obs=shape_obs(kind, ids, False, vect), action=(np.repeat(idsf[:, None], 2, axis=1) if vect else np.repeat(idsf, 2)),
                       reward=leaf(form_r, idsf), next_obs=shape_obs(kind, ids, True, vect), done=leaf(form_d, idsf % 2))
        if not vect:
            t = t.unsqueeze(0)
        td = t.to_tensordict()
        td.batch_size = [e]
        before = (len(buf), buf._cursor)
        buf.add(td)
        hist += ids
        # model (Ring.normLeaf / addLeafShape, theorems C09_source_translation_reorg_scalar_one_row / _vector_rows):
        # the add contributes exactly e rows, written from the old cursor on, row r = environment r
        if len(buf) != min(cap, before[0] + e) or buf._cursor != (before[1] + e) % cap:
            problems.append(f"add of {e} environment(s) (reward {form_r}, done {form_d}): len {before[0]} -> {len(buf)}, cursor "
                            f"{before[1]} -> {buf._cursor}; exactly {e} row(s) expected")
            continue
        st = buf.storage
        if tuple(st["reward"].shape) != (cap, 1) or tuple(st["done"].shape) != (cap, 1):
            problems.append(f"stored reward / done have shapes {tuple(st['reward'].shape)} / {tuple(st['done'].shape)}, expected ({cap}, 1)")
            continue
        if kind == "tuple" and list(st["obs"].keys()) != [f"tuple_obs_{k}" for k in range(3)]:
            problems.append(f"tuple observation stored under keys {list(st['obs'].keys())}")
            continue
        for r, tid in enumerate(ids):
            row = st[(before[1] + r) % cap]
            vals = {("reward",): float(row["reward"].reshape(-1)[0]), ("done",): float(row["done"].reshape(-1)[0]) - tid % 2 + tid}
            for name, off in (("obs", 0.0), ("next_obs", 0.5)):
                x = row[name]
                if kind == "vector":
                    vals[(name,)] = x
                elif kind == "dict":
                    for k in ("zeta", "alpha"):
                        vals[(name, k)] = x[k]
                else:
                    for k in range(3):
                        vals[(name, k)] = x[f"tuple_obs_{k}"] - 1000.0 * k
                for key in [q for q in vals if q[0] == name]:
                    v = torch.unique(vals[key].reshape(-1).to(torch.float64)).tolist()
                    vals[key] = v[0] - off if len(v) == 1 else float("nan")
            a = torch.unique(row["action"].reshape(-1).to(torch.float64)).tolist()
            vals[("action",)] = a[0] if len(a) == 1 else float("nan")
            wrong = {".".join(map(str, k)): v for k, v in vals.items() if v != tid}
            if wrong:
                problems.append(f"row {r} of an add of {e} environment(s) (reward {form_r}, done {form_d}, obs {kind}) should hold "
                                f"environment {r} (id {tid}) in every leaf; differing leaves: {wrong}")
                break
    return problems[:3]


def shape_suite(chk: Check) -> None:
    rng = chk.rng
    n_cases = 40 if chk.tier == "quick" else 300
    cases = [json.loads(f.read_text()) for f in sorted((ROOT / "corpus" / "C09").glob("shape_*.json"))]
    for _ in range(n_cases):
        cap = rng.choice([5, 6, 8, 11])
        adds = []
        for _ in range(rng.randint(2, 5)):
            vect = rng.random() < 0.7
            e = rng.randint(1, 5) if vect else 1
            forms = ["E", "E1"] if vect else ["scalar", "np0", "scalar"]
            adds.append([rng.choice(forms), rng.choice(forms), e, vect])
        cases.append({"suite": "shape", "cap": cap, "kind": rng.choice(["vector", "dict", "tuple"]), "adds": adds})
    bad = 0
    for case in cases:
        case = case.get("case", case)
        problems = shape_one(case)
        chk.case(["shape", case], nontrivial=any(a[2] > 1 for a in case["adds"]),
                 sample={"suite": "shape", "cap": case["cap"], "obs": case["kind"], "adds": case["adds"][:4]},
                 tags=["shape", f"shape-obs-{case['kind']}"] + [f"shape-reward-{a[0]}" for a in case["adds"]]
                 + [f"shape-envs-{a[2]}" for a in case["adds"]])
        if problems:
            bad += 1
            small = dict(case)
            small["adds"] = ddmin(case["adds"], lambda sub: bool(sub) and bool(shape_one({**case, "adds": sub})))
            p2 = shape_one(small) or problems
            chk.violation(p2[0], {"suite": "shape", "case": small, "oracle_problems": p2})
    chk.suite("shape", len(cases), bad)


def selftest_reorg(chk: Check) -> None:
    """seeded fault: a split that reads every agent's row 0 must be noticed by the reorg suite's oracle"""
    from agilerl.components import multi_agent_replay_buffer as mb
    orig = mb.MultiAgentReplayBuffer._reorganize_dicts

    def broken(self, *args):
        res = orig(self, *args)
        for lst in res:
            for d in lst[1:]:
                for k in d:
                    d[k] = lst[0][k]
        return res
    mb.MultiAgentReplayBuffer._reorganize_dicts = broken
    try:
        case = {"cap": 4, "calls": [{"n": 2, "fields": [[{"agent": 0, "kind": "A", "lens": [2], "row": 1, "subkeys": [0]}]]}]}
        problems, diffs, _ = reorg_one(chk, case)
    finally:
        mb.MultiAgentReplayBuffer._reorganize_dicts = orig
    if not problems:
        from common import InfraError
        raise InfraError("C09 self-test: a per-environment split that repeats environment 0 was not noticed")
    chk.notes.append("self-test: split repeating environment 0 detected")


# ----------------------------------------------------------------------------- read side of the multi-agent buffer
MS_FLAGS = ["done", "termination", "terminated", "truncation", "truncated"]
MS_PLAIN = ["state", "action", "reward", "next_state", "info"]


def ms_code(case: dict, eid: int, j: int, a: int, mem: int) -> int:
    """provenance of one leaf; flag fields are cast to uint8 by sample(), so their codes stay below 256"""
    if case["fields"][j] in MS_FLAGS:
        return (eid * case["agents"] + a) % 256
    return ((eid * 4 + j) * 4 + a) * 4 + mem + 1


def gen_masample_case(rng: random.Random) -> dict:
    nf = rng.randint(2, 4)
    fields = rng.sample(MS_PLAIN, nf - 1) + [rng.choice(MS_FLAGS) if rng.random() < 0.7 else rng.choice(MS_PLAIN)]
    fields = list(dict.fromkeys(fields))
    rng.shuffle(fields)
    agents = rng.randint(1, 3)
    kinds = []
    for f in fields:
        row = []
        for _ in range(agents):
            k = rng.choice(["A", "A", "D", "T"])
            if f in MS_FLAGS and rng.random() < 0.93:
                k = "A"                                   # a dict / tuple flag has no .astype: sample() raises
            row.append({"kind": k, "members": rng.randint(1, 3), "shape": rng.choice(["scalar", "vec", "mat"])})
        kinds.append(row)
    cap = rng.choice([1, 2, 3, 4, 6, 8])
    ops, stored = [], 0
    for _ in range(rng.randint(1, min(cap + 3, 9))):
        ops.append(["add"])
        stored = min(cap, stored + 1)
    for _ in range(rng.randint(2, 6)):
        r = rng.random()
        if r < 0.2:
            ops.append(["add"])
            stored = min(cap, stored + 1)
        else:
            ks = list(range(1, stored + 1)) + [stored, 1]
            ops.append(["sample", rng.choice(ks) if r < 0.9 else rng.choice([0, stored + 1, -1])])
    return {"cap": cap, "fields": fields, "agents": agents, "kinds": kinds, "ops": ops, "seed": rng.randrange(1 << 30)}


def ms_leaf(shape: str, code: int):
    if shape == "scalar":
        return np.float64(code)
    return np.full((3,) if shape == "vec" else (2, 2), float(code))


def ms_experience(case: dict, eid: int, order_rng: random.Random):
    """(arguments of save_to_memory, the model's transition: per field [(agent, ent)…] in the key order given)"""
    args, trans = [], []
    for j, f in enumerate(case["fields"]):
        order = list(range(case["agents"]))
        order_rng.shuffle(order)
        d, t = {}, []
        for a in order:
            spec = case["kinds"][j][a]
            n = spec["members"]
            if spec["kind"] == "A":
                d[f"agent_{a}"] = ms_leaf(spec["shape"], ms_code(case, eid, j, a, 0))
                t.append((a, ("A", ms_code(case, eid, j, a, 0))))
            elif spec["kind"] == "D":
                ks = list(range(n))
                order_rng.shuffle(ks)
                d[f"agent_{a}"] = {f"k{m}": ms_leaf(spec["shape"], ms_code(case, eid, j, a, m)) for m in ks}
                t.append((a, ("D", [(m, ms_code(case, eid, j, a, m)) for m in ks])))
            else:
                d[f"agent_{a}"] = tuple(ms_leaf(spec["shape"], ms_code(case, eid, j, a, m)) for m in range(n))
                t.append((a, ("T", [ms_code(case, eid, j, a, m) for m in range(n)])))
        args.append(d)
        trans.append(t)
    return args, trans


def ms_wire_trans(trans) -> str:
    out = [str(len(trans))]
    for fld in trans:
        out.append(str(len(fld)))
        for a, (kind, x) in fld:
            out.append(str(a))
            if kind == "A":
                out += ["A", str(x)]
            elif kind == "D":
                out += ["D", str(len(x))] + [f"{m} {c}" for m, c in x]
            else:
                out += ["T", str(len(x))] + [str(c) for c in x]
    return " ".join(out)


def ms_rows(x, k: int):
    """codes of the rows of one returned leaf (leading dimension must be k; a row is its code if constant)"""
    arr = np.asarray(x.detach().cpu().numpy() if hasattr(x, "detach") else x, dtype=np.float64)
    if arr.ndim == 0 or arr.shape[0] != k:
        return f"SHAPE{tuple(arr.shape)}"
    out = []
    for r in range(k):
        v = arr[r].reshape(-1)
        out.append(int(v[0]) if v.size and np.all(v == v[0]) and float(v[0]).is_integer() else "MIXED")
    return out


def ms_decode_batch(batch, case: dict, k: int):
    """tuple(field -> {agent: tensor | dict | tuple}) -> [[(agent index, ("A", rows) | ("D", [(member, rows)…]) | ("T", [rows…]))…]…]"""
    out = []
    for fld in batch:
        row = []
        for key, v in fld.items():
            a = int(str(key).split("_")[1])
            if isinstance(v, dict):
                row.append((a, ("D", [(int(str(m)[1:]), ms_rows(x, k)) for m, x in v.items()])))
            elif isinstance(v, tuple):
                row.append((a, ("T", [ms_rows(x, k) for x in v])))
            else:
                row.append((a, ("A", ms_rows(v, k))))
        out.append(row)
    return out


def ms_parse_batch(line: str):
    """inverse of `Ring.showBatch`, in the format of ms_decode_batch"""
    toks = line.split()
    pos = 0

    def nat():
        nonlocal pos
        pos += 1
        return int(toks[pos - 1])

    def rows():
        return [nat() for _ in range(nat())]
    out = []
    for _ in range(nat()):
        fld = []
        for _ in range(nat()):
            a = nat()
            kind = toks[pos]
            pos += 1
            if kind == "A":
                fld.append((a, ("A", rows())))
            elif kind == "D":
                fld.append((a, ("D", [(nat(), rows()) for _ in range(nat())])))
            else:
                fld.append((a, ("T", [rows() for _ in range(nat())])))
        out.append(fld)
    if pos != len(toks):
        raise ValueError("trailing tokens")
    return out


def ms_eid_of(case: dict, j: int, a: int, mem: int, code, added: int):
    """the experience a code of leaf (j, a, mem) belongs to, among the experiences that can still be stored"""
    for eid in range(max(0, added - case["cap"]), added):
        if ms_code(case, eid, j, a, mem) == code:
            return eid
    return None


def masample_one(chk: Check, case: dict):
    """returns (problems of the oracle, model/implementation differences, tags)"""
    import copy
    from agilerl.components import multi_agent_replay_buffer as mb
    fields, na, cap = case["fields"], case["agents"], case["cap"]
    buf = mb.MultiAgentReplayBuffer(memory_size=cap, field_names=list(fields), agent_ids=[f"agent_{a}" for a in range(na)])
    order_rng = random.Random(case["seed"])
    draws: list = []

    class RandomProxy:
        def __getattr__(self, name):
            return getattr(random, name)

        @staticmethod
        def sample(population, k, **kw):
            pos = random.sample(range(len(population)), k, **kw)     # raises exactly as on the population itself
            draws.append(list(pos))
            return [population[i] for i in pos]
    problems, diffs, tags, model_ops, pending = [], [], [], [], []
    hist: list = []              # model transitions of everything added, oldest first
    handed: list = []            # (op number, decoded snapshot, live batch, k)
    real_random, mb.random = mb.random, RandomProxy()
    random.seed(case["seed"])
    try:
        for n, op in enumerate(case["ops"]):
            if op[0] == "add":
                args, trans = ms_experience(case, len(hist), order_rng)
                buf.save_to_memory(*args, is_vectorised=False)
                hist.append(trans)
                if len(hist) > cap:
                    tags.append("ma-evict")
                if len(buf) != min(cap, len(hist)):
                    problems.append(f"len = {len(buf)} after {len(hist)} additions to a buffer of capacity {cap}")
                continue
            k = op[1]
            mem = hist[-cap:]
            before = [copy.deepcopy(e) for e in buf.memory]
            draws.clear()
            try:
                batch, raised = buf.sample(k), None
            except Exception as e:
                batch, raised = None, f"{type(e).__name__}: {str(e)[:80]}"
            same = len(before) == len(buf.memory) and all(
                _ms_same(x, y) for e0, e1 in zip(before, buf.memory) for x, y in zip(e0, e1))
            if not same:
                problems.append(f"op {n}: sample({k}) modified the memory")
            wire_head = (f"ring masample {len(fields)} {' '.join(fields)} {na} {' '.join(str(a) for a in range(na))} "
                         f"{len(mem)} {' '.join(ms_wire_trans(t) for t in mem)} {k}")
            if raised is not None:
                tags.append("masample-raises")
                legal = 1 <= k <= len(mem) and all(case["kinds"][j][a]["kind"] == "A"
                                                   for j, f in enumerate(fields) if f in MS_FLAGS for a in range(na))
                if legal:
                    problems.append(f"op {n}: sample({k}) of a buffer holding {len(mem)} raised {raised}")
                pos = draws[0] if draws else list(range(max(0, min(k, len(mem)))))
                pending.append((n, k, None, wire_head + f" {len(pos)} {' '.join(map(str, pos))}", raised))
                continue
            dec = ms_decode_batch(batch, case, k)
            if draws:
                pos = draws[0]
                tags.append("masample-draw-recorded")
                if len(set(pos)) != len(pos):
                    problems.append(f"op {n}: random.sample drew positions {pos} with a repetition")
            else:                                        # the code draws some other way: read the positions back
                tags.append("masample-draw-read-back")
                first = dec[0][0][1]
                codes = first[1] if first[0] == "A" else first[1][0][1] if first[0] == "D" else first[1][0]
                mem0 = 0 if first[0] != "D" else first[1][0][0]
                eids = [ms_eid_of(case, 0, dec[0][0][0], mem0, c, len(hist)) for c in (codes if isinstance(codes, list) else [])]
                if len(eids) != k or any(e is None for e in eids):
                    problems.append(f"op {n}: sample({k}) returned rows {codes} of field {fields[0]} that are not stored transitions")
                    continue
                pos = [e - (len(hist) - len(mem)) for e in eids]
            # oracle: fields / agents in order, every leaf of row r is the experience at position pos[r]
            if len(dec) != len(fields):
                problems.append(f"op {n}: sample({k}) returned {len(dec)} fields for field_names {fields}")
            for j, fld in enumerate(dec[: len(fields)]):
                if [a for a, _ in fld] != list(range(na)):
                    problems.append(f"op {n}: field {fields[j]} lists agents {[a for a, _ in fld]}, agent_ids order is {list(range(na))}")
                for a, (kind, x) in fld:
                    leaves = [(0, x)] if kind == "A" else x if kind == "D" else list(enumerate(x))
                    if kind != case["kinds"][j][a]["kind"] or len(leaves) != (1 if kind == "A" else case["kinds"][j][a]["members"]):
                        problems.append(f"op {n}: field {fields[j]} agent {a}: container {kind} with {len(leaves)} members, stored "
                                        f"{case['kinds'][j][a]['kind']} with {case['kinds'][j][a]['members']}")
                    for m, rws in leaves:
                        want = [ms_code(case, len(hist) - len(mem) + i, j, a, m) for i in pos]
                        if rws != want:
                            problems.append(f"sample({k}) at op {n}: field {fields[j]} agent {a} member {m} holds rows {rws}; the "
                                            f"experiences at the drawn positions {pos} store {want}")
            tags += [f"masample-k-{'len' if k == len(mem) else 'one' if k == 1 else 'mid'}"]
            handed.append((n, copy.deepcopy(dec), batch, k))
            pending.append((n, k, dec, wire_head + f" {len(pos)} {' '.join(map(str, pos))}", None))
            for n0, snap, live, k0 in handed[:-1]:
                if ms_decode_batch(live, case, k0) != snap:
                    problems.append(f"after op {n}: the batch handed out at op {n0} changed")
        for n0, snap, live, k0 in handed:
            if ms_decode_batch(live, case, k0) != snap:
                problems.append(f"after the last op: the batch handed out at op {n0} changed")
    finally:
        mb.random = real_random
    if pending:
        answers = chk.driver.run(["reset"] + [w for _, _, _, w, _ in pending])[1:]
        for (n, k, dec, _, raised), ans in zip(pending, answers):
            if ans == "bad-op":
                from common import InfraError
                raise InfraError("masample suite: the driver rejects the op line")
            if raised is not None:
                if ans != "reject":
                    diffs.append(f"op {n}: sample({k}) raised {raised}; the model returns {ans[:80]}")
            elif ans == "reject":
                diffs.append(f"op {n}: sample({k}) returned a batch where the model raises")
            elif ms_parse_batch(ans) != dec:
                diffs.append(f"op {n}: sample({k}) differs from Ring.maSample on the same positions: impl={dec} model={ms_parse_batch(ans)}")
    kinds = sorted({sp["kind"] for row in case["kinds"] for sp in row})
    tags += [f"masample-kind-{x}" for x in kinds] + [f"masample-agents-{na}"]
    return problems, diffs, tags


def _ms_same(x, y) -> bool:
    if isinstance(x, dict):
        return isinstance(y, dict) and list(x) == list(y) and all(_ms_same(x[k], y[k]) for k in x)
    if isinstance(x, tuple):
        return isinstance(y, tuple) and len(x) == len(y) and all(_ms_same(a, b) for a, b in zip(x, y))
    return np.array_equal(np.asarray(x), np.asarray(y))


def masample_suite(chk: Check) -> None:
    rng = chk.rng
    n_cases = 60 if chk.tier == "quick" else 500
    cases = [json.loads(f.read_text()) for f in sorted((ROOT / "corpus" / "C09").glob("masample_*.json"))]
    cases += [gen_masample_case(rng) for _ in range(n_cases)]
    bad = 0
    for case in cases:
        case = case.get("case", case)
        try:
            problems, diffs, tags = masample_one(chk, case)
        except (ValueError, IndexError) as e:
            from common import InfraError
            raise InfraError(f"masample suite: cannot parse the driver's answer: {e}")
        chk.case(["masample", case], nontrivial=any(op[0] == "sample" and op[1] > 1 for op in case["ops"]),
                 sample={"suite": "masample", "cap": case["cap"], "fields": case["fields"], "agents": case["agents"],
                         "ops": case["ops"][:6]}, tags=tags + ["masample"])
        if not problems and not diffs:
            continue
        bad += 1
        key = 0 if problems else 1
        small = {**case, "ops": ddmin(case["ops"], lambda sub: bool(sub) and bool(_ms_try(chk, {**case, "ops": sub})[key]))}
        p2, d2, _ = _ms_try(chk, small)
        if problems:
            chk.violation((p2 or problems)[0], {"suite": "masample", "case": small, "oracle_problems": p2 or problems,
                                                "correspondence": "harness/c09.py masample vs Model/Ring.lean maSample"})
        else:
            chk.violation((d2 or diffs)[0][:600] + "; property oracle holds on this case and its shrinks",
                          {"suite": "masample", "case": small, "differences": d2 or diffs}, no_input=True)
    chk.suite("masample", len(cases), bad)


def _ms_try(chk: Check, case: dict):
    try:
        return masample_one(chk, case)
    except Exception as e:
        return [f"implementation raised {type(e).__name__}: {str(e)[:160]}"], [], []


def selftest_masample(chk: Check) -> None:
    """seeded fault: a regrouping that takes the LAST agent's column from the batch in reverse order (rows of one batch
    row then come from two experiences) must be noticed by the masample suite's oracle"""
    from agilerl.components import multi_agent_replay_buffer as mb
    orig = mb.MultiAgentReplayBuffer._process_transition

    def broken(self, experiences, np_array=False):
        t = orig(self, experiences, np_array)
        last = self.agent_ids[-1]
        for f in t:
            if not isinstance(t[f][last], (dict, tuple)):
                t[f][last] = t[f][last].flip(0)
        return t
    mb.MultiAgentReplayBuffer._process_transition = broken
    try:
        case = {"cap": 4, "fields": ["state", "reward"], "agents": 2, "seed": 1, "ops": [["add"], ["add"], ["sample", 2]],
                "kinds": [[{"kind": "A", "members": 1, "shape": "vec"}] * 2, [{"kind": "A", "members": 1, "shape": "scalar"}] * 2]}
        problems, _, _ = masample_one(chk, case)
    finally:
        mb.MultiAgentReplayBuffer._process_transition = orig
    if not problems:
        from common import InfraError
        raise InfraError("C09 self-test: a batch whose rows mix two experiences was not noticed")
    chk.notes.append("self-test: batch rows mixing two experiences detected")


# ----------------------------------------------------------------------------- value exactness / dtype option / mixed types
EX_NP = {"f64": np.float64, "f32": np.float32, "f16": np.float16, "i64": np.int64, "i32": np.int32, "u8": np.uint8,
         "bool": np.bool_}
EX_UNIQUE = ["f64", "f32", "i64", "i32", "u8"]     # the first element of a row determines the id (ids < 256)
EX_DTYPE_OPTS = [None, "float32", "float64", "float16", "bfloat16", "int64", "uint8"]
EX_INT_FORMS, EX_FLOAT_FORMS = ["int", "npint"], ["float", "npfloat32"]


def ex_values(dt: str, ids: list[int], salt: int, shape: tuple) -> np.ndarray:
    """array (len(ids), *shape) of dtype `dt`; element `pos` of the row of transition `tid` encodes (tid, salt, pos) by
    a value that is NOT representable in the narrower types: f64 needs 48 mantissa bits (and differs between salts only
    by 2^-40, far below float32 resolution), f32 needs 20 bits (> float16's 11), i64 is odd and > 2^60 (> 2^53, so no
    float type holds it), i32 is > 2^24 (odd ones are not float32 values), u8 covers 128..255, bool flips with salt."""
    n = int(np.prod(shape)) if shape else 1
    rows = []
    for tid in ids:
        row = []
        for pos in range(n):
            if dt == "f64":
                v = tid + (pos + 1) * 2.0 ** -30 + salt * 2.0 ** -40
            elif dt == "f32":
                v = tid + 0.25 + salt * 2.0 ** -6 + pos * 2.0 ** -12
            elif dt == "f16":
                v = (tid % 32) + (salt % 4) * 0.25 + (pos % 4) * 2.0 ** -4
            elif dt == "i64":
                v = 2 ** 60 + tid * 1024 + salt * 64 + pos + 1
            elif dt == "i32":
                v = 2 ** 24 + 1 + tid * 512 + salt * 32 + pos
            elif dt == "u8":
                v = (tid * 37 + salt * 11 + pos * 5 + 128) % 256
            else:
                v = bool(((tid >> (pos % 8)) + salt) % 2)
            row.append(v)
        rows.append(row)
    return np.array(rows, dtype=EX_NP[dt]).reshape((len(ids),) + tuple(shape))


def _py(x) -> tuple:
    """exact Python values of an array / tensor (floats as float, everything else as int), flattened"""
    if isinstance(x, torch.Tensor):
        x = x.detach().reshape(-1)
        return tuple((x.to(torch.float64) if x.is_floating_point() else x.to(torch.int64)).tolist())
    a = np.asarray(x).reshape(-1)
    return tuple(float(v) for v in a.tolist()) if a.dtype.kind == "f" else tuple(int(v) for v in a.tolist())


def ex_typed(form: str, ints: list[int], floats: list[float], vect: bool, cols: int = 0):
    """one field of a transition handed over in one of the numeric types environments use: `int` (Python int / int64
    array), `npint` (numpy int64 scalar / int32 array), `float` (Python float / float64 array), `npfloat32`, `bool`.
    Integer forms carry the integer code, float forms the fractional one.  Returns (value, expected per row)."""
    vals = ints if form in ("int", "npint", "bool") else floats
    npdt = {"int": np.int64, "npint": np.int32 if vect else np.int64, "float": np.float64, "npfloat32": np.float32,
            "bool": np.bool_}[form]
    a = np.array(vals, dtype=npdt)
    if cols:
        a = np.repeat(a[:, None], cols, axis=1)
    exp = [_py(a[i]) for i in range(len(vals))]
    if vect:
        return a, exp
    if cols:
        return a[0], exp
    if form in ("int", "float", "bool"):
        return a[0].item(), exp                       # plain Python number
    return a[0], exp                                  # numpy scalar


def gen_exact_case(rng: random.Random) -> dict:
    cap = rng.choice([1, 2, 3, 4, 5, 7, 8])
    path = rng.choice(["transition", "raw"])
    case = {"suite": "exact", "cls": rng.choice(HANDOUT_CLASSES), "dtype_opt": rng.choice(EX_DTYPE_OPTS), "cap": cap,
            "path": path, "seed": rng.randrange(1 << 30)}
    all_dt = sorted(EX_NP)
    if path == "raw":
        # a raw TensorDict may carry any dtype in any field; the storage is typed by the first batch, so the dtype of a
        # field is the same in every add
        prof = {"obs_kind": rng.choice(["vector", "image", "nested", "flat"]), "obs": rng.choice(all_dt), "obs2": rng.choice(all_dt),
                "action": rng.choice(all_dt), "reward": rng.choice(all_dt), "done": rng.choice(all_dt),
                "reward_1d": rng.random() < 0.5}
        if not {prof["obs"], prof["action"], prof["reward"]} & set(EX_UNIQUE):
            prof["reward"] = rng.choice(["f64", "i64"])
    else:
        # through Transition, as train_off_policy does: plain-array observations keep their dtype (any of the seven);
        # Dict observations, action, reward and done are handed over in a numeric type that changes from add to add
        prof = {"obs_kind": rng.choice(["vector", "vector", "image", "dict"]), "obs": rng.choice(all_dt), "act_cols": rng.choice([1, 2])}
    case["profile"] = prof
    ops, first = [], True
    for op in gen_ops(rng, cap, rng.randint(3, 9)):
        if op[0] != "add":
            ops.append(op)
            continue
        w = len(op) - 1
        vect = w > 1 or rng.random() < 0.4
        narrow_first = first and rng.random() < 0.6       # the storage is laid out by the first batch: start it narrow
        forms = [rng.choice(EX_INT_FORMS if narrow_first else EX_INT_FORMS + EX_FLOAT_FORMS),
                 rng.choice(["bool", "int"] if narrow_first else ["bool", "int", "float", "npfloat32"]),
                 rng.choice(EX_INT_FORMS if narrow_first else EX_INT_FORMS + EX_FLOAT_FORMS),
                 rng.choice(EX_INT_FORMS if narrow_first else EX_INT_FORMS + EX_FLOAT_FORMS)]
        ops.append(["add", w, vect] + forms)
        first = False
    if ops and rng.random() < 0.5:
        # life after clear() for every class: a few adds (in any numeric type), then look at the storage and sample
        ops.append(["clear"])
        for _ in range(rng.randint(1, 3)):
            w = rng.randint(1, max(1, cap // 2))
            ops.append(["add", w, w > 1 or rng.random() < 0.4, rng.choice(EX_INT_FORMS + EX_FLOAT_FORMS), rng.choice(["bool", "int", "float"]),
                        rng.choice(EX_INT_FORMS + EX_FLOAT_FORMS), rng.choice(EX_INT_FORMS + EX_FLOAT_FORMS)])
        ops += [["dump"], ["sample", 1], ["sample", cap], ["len"]]
    case["ops"] = ops
    return case


def ex_build(case: dict, ids: list[int], vect: bool, forms: list[str]):
    """(TensorDict for add, expected rows {leaf: values}) of one add of the transitions `ids`"""
    from tensordict import TensorDict
    prof, w = case["profile"], len(ids)
    obs_shape = {"vector": (3,), "image": (1, 2, 2), "nested": (2,), "flat": (), "dict": (2,)}[prof["obs_kind"]]
    exp = [dict() for _ in ids]

    def note(key, arr):
        for r in range(w):
            exp[r][key] = _py(arr[r])
    if case["path"] == "raw":
        def leaf(dt, salt, shape):
            a = ex_values(dt, ids, salt, shape)
            return a, torch.from_numpy(a.copy())
        d = {}
        for name, salt in (("obs", 0), ("next_obs", 1)):
            a, t = leaf(prof["obs"], salt, obs_shape)
            if prof["obs_kind"] == "nested":
                a2, t2 = leaf(prof["obs2"], salt + 2, (1, 3))
                d[name] = TensorDict({"p": t, "q": t2}, batch_size=[w])
                note(f"{name}.p", a)
                note(f"{name}.q", a2)
            else:
                d[name] = t
                note(name, a)
        for name, salt, shape in (("action", 2, (2,)), ("reward", 3, () if prof["reward_1d"] else (1,)), ("done", 0, (1,))):
            a, t = leaf(prof[name], salt, shape)
            d[name] = t
            note(name, a)
        return TensorDict(d, batch_size=[w]), exp
    from agilerl.components.data import Transition
    f_reward, f_done, f_action, f_obs = forms
    ints = [3 * t + 1 for t in ids]
    floats = [t + 0.25 for t in ids]
    kw = {}
    for name, salt in (("obs", 0), ("next_obs", 1)):
        if prof["obs_kind"] == "dict":
            # Transition converts Dict observations to float32 (by design): float32-exact values, given as int or float
            v = {}
            for k, cols in (("zeta", 2), ("alpha", 3)):
                x, e = ex_typed(f_obs, [i + 7 * salt for i in ints], [f + 0.5 * salt for f in floats], vect, cols)
                v[k] = x
                for r in range(w):
                    exp[r][f"{name}.{k}"] = tuple(float(q) for q in e[r])
            kw[name] = v
        else:
            a = ex_values(prof["obs"], ids, salt, obs_shape)
            note(name, a)
            kw[name] = a if vect else a[0]
    for name, form, cols, ii, ff in (("reward", f_reward, 0, ints, floats), ("done", f_done, 0, [t % 2 for t in ids], [float(t % 2) for t in ids]),
                                     ("action", f_action, prof["act_cols"], [5 * t + 2 for t in ids], [t + 0.75 for t in ids])):
        if name == "action" and not vect and prof["act_cols"] == 1 and form in ("int", "float"):
            x, e = ex_typed(form, ii, ff, False, 0)             # a discrete / scalar action as a plain Python number
        else:
            x, e = ex_typed(form, ii, ff, vect, cols)
        kw[name] = x
        for r in range(w):
            exp[r][name] = tuple(float(q) for q in e[r])         # Transition hands these over as float32: exact here
    t = Transition(**kw)
    if not vect:
        t = t.unsqueeze(0)
    td = t.to_tensordict()
    td.batch_size = [w]
    return td, exp


def _ex_row_key(d: dict) -> tuple:
    return tuple(sorted(d.items()))


def _ex_td_row(row) -> dict:
    out = {}
    for key in row.keys(include_nested=True, leaves_only=True):
        name = key if isinstance(key, str) else ".".join(key)
        if name not in ("idxs", "weights"):
            out[name] = _py(row[key])
    return out


def run_exact(case: dict):
    """same contract as run_impl_single; a stored / sampled row decodes to an id only if EVERY leaf holds exactly the
    values that were handed to add() for that id"""
    from agilerl.components import replay_buffer as rb
    cap, cls_name = case["cap"], case["cls"]
    torch.manual_seed(case["seed"])
    kw = {} if case["dtype_opt"] is None else {"dtype": getattr(torch, case["dtype_opt"])}
    if cls_name == "ReplayBuffer":
        buf = rb.ReplayBuffer(max_size=cap, **kw)
    elif cls_name == "MultiStepReplayBuffer":
        buf = rb.MultiStepReplayBuffer(max_size=cap, n_step=1, gamma=0.5, **kw)
    else:
        buf = rb.PrioritizedReplayBuffer(max_size=cap, alpha=0.5, **kw)
    where = f"{cls_name}(max_size={cap}" + ("" if case["dtype_opt"] is None else f", dtype=torch.{case['dtype_opt']}") + ")"
    obs_lines, model_lines, problems, tags = ["ok"], [f"ring new {cap}"], [], [f"exact-path-{case['path']}", f"exact-{cls_name}",
                                                                              f"exact-dtype-opt-{case['dtype_opt']}"]
    known: dict = {}          # row key -> id
    added: dict = {}          # id -> expected row
    since_clear: list[int] = []
    nid = 1

    def decode(td, n, what):
        rows = []
        for j in range(n):
            got = _ex_td_row(td[j])
            tid = known.get(_ex_row_key(got))
            if tid is None:
                # report against the added transition that shares the most leaves with it
                best = max(added, key=lambda t: sum(added[t].get(k) == v for k, v in got.items()), default=None)
                if best is None or set(added[best]) != set(got):
                    problems.append(f"values: {where} {what} row {j} has leaves {sorted(got)}")
                else:
                    k = next(k for k in sorted(got) if got[k] != added[best][k])
                    problems.append(f"values: {where} {what} row {j} is none of the added transitions: leaf {k} holds "
                                    f"{list(got[k])[:4]!r}; transition {best} (all other {len(got) - sum(got[q] != added[best][q] for q in got)}"
                                    f" leaves equal) was added with {k} = {list(added[best][k])[:4]!r}")
                rows.append("MIXED")
            else:
                rows.append(str(tid))
        return rows
    for op in case["ops"]:
        if op[0] == "add":
            w, vect, forms = op[1], op[2], op[3:]
            ids = list(range(nid, nid + w))
            nid += w
            td, exp = ex_build(case, ids, vect, forms)
            for tid, e in zip(ids, exp):
                added[tid] = e
                known[_ex_row_key(e)] = tid
            before = buf._cursor
            buf.add(td)
            since_clear += ids
            model_lines.append("ring add " + " ".join(map(str, ids)))
            obs_lines.append("ok")
            if case["path"] == "transition":
                tags += [f"exact-reward-{forms[0]}", f"exact-done-{forms[1]}", f"exact-action-{forms[2]}"]
            if before + w >= cap:
                tags.append("wrap-across" if before + w > cap else "wrap-exact")
        elif op[0] == "sample":
            if len(buf) == 0:
                continue
            k = min(op[1], len(buf))
            s = buf.sample(k) if cls_name == "PrioritizedReplayBuffer" else buf.sample(k, return_idx=True)
            rows = decode(s, s.shape[0], f"sample({k})")
            idx = [int(i) for i in s["idxs"].reshape(-1).tolist()]
            if cls_name != "PrioritizedReplayBuffer":
                model_lines.append(f"ring sample {len(idx)} " + " ".join(map(str, idx)))
                obs_lines.append(" ".join(rows))
                if len(set(rows)) != len(rows):
                    problems.append(f"duplicate in one uniform batch: idx={idx} rows={rows}")
            expect = set(map(str, since_clear[-cap:]))
            if len(rows) != k:
                problems.append(f"sample({k}) returned {len(rows)} rows")
            if not set(rows) - {"MIXED"} <= expect:
                problems.append(f"sample returned rows not stored: {sorted(set(rows) - expect)}")
        elif op[0] == "len":
            model_lines.append("ring len")
            obs_lines.append(str(len(buf)))
            if len(buf) != min(cap, len(since_clear)):
                problems.append(f"len={len(buf)} expected {min(cap, len(since_clear))}")
        elif op[0] == "dump":
            n = len(buf)
            rows = decode(buf.storage[:n], n, "storage") if n else []
            model_lines.append("ring dump")
            obs_lines.append(" ".join(rows))
            if "MIXED" not in rows and sorted(rows) != sorted(map(str, since_clear[-cap:])):
                problems.append(f"contents {sorted(rows)} != last-N reference {sorted(map(str, since_clear[-cap:]))}")
        elif op[0] == "clear":
            buf.clear()
            since_clear = []
            model_lines.append("ring clear")
            obs_lines.append("ok")
    model_lines.append("ring counter")
    obs_lines.append(str(buf.counter))
    prof = case["profile"]
    tags += [f"exact-obs-{prof['obs_kind']}", f"exact-obs-dtype-{prof['obs']}"]
    if case["path"] == "raw":
        tags += [f"exact-{f}-dtype-{prof[f]}" for f in ("action", "reward", "done")]
    return obs_lines, model_lines, problems, tags


def exact_one(chk: Check, case: dict):
    """(diff index or None, oracle problems, tags, impl lines, model lines)"""
    try:
        impl, model_ops, problems, tags = run_exact(case)
    except Exception as e:      # every generated sequence is legal
        return None, [f"implementation raised {type(e).__name__}: {str(e)[:200]}"], [], [], []
    model_out = chk.driver.run(["reset"] + model_ops)[1:]
    diff = next((i for i, (a, b) in enumerate(zip(impl, model_out)) if a != b), None)
    return diff, problems, tags, impl, model_out


def _typed_suite(chk: Check, name: str, prefix: str, gen, one, n_cases: int, correspondence: str) -> None:
    cases = [json.loads(f.read_text()) for f in sorted((ROOT / "corpus" / "C09").glob(prefix + "*.json"))]
    cases += [gen(chk.rng) for _ in range(n_cases)]
    bad = 0
    for case in cases:
        case = case.get("case", case)
        diff, problems, tags, impl, model_out = one(chk, case)
        chk.case([name, case], nontrivial=any(t in ("wrap-across", "wrap-exact", "ma-evict") for t in tags),
                 sample={k: v for k, v in case.items() if k != "ops"} | {"ops": case["ops"][:5]}, tags=tags + [name])
        if diff is None and not problems:
            continue
        bad += 1
        cat0 = problem_kind(problems[0]) if problems else None

        def still_fails(sub):
            d, p, *_ = one(chk, {**case, "ops": sub})
            return any(problem_kind(q) == cat0 for q in p) if problems else d is not None
        small = {**case, "ops": ddmin(case["ops"], still_fails)}
        d2, p2, _, impl2, model2 = one(chk, small)
        replay = {"suite": name, "case": small, "impl": impl2, "model": model2, "oracle_problems": p2 or problems,
                  "correspondence": correspondence}
        if problems:
            chk.violation(next((q for q in p2 if problem_kind(q) == cat0), (p2 or problems)[0]), replay)
        else:
            chk.violation(f"implementation and Ring model disagree at line {diff}: impl={impl[diff]!r} model={model_out[diff]!r}; "
                          f"property oracle holds on this case and its shrinks", replay, no_input=True)
    chk.suite(name, len(cases), bad)


def exact_suite(chk: Check) -> None:
    _typed_suite(chk, "exact", "exact_", gen_exact_case, exact_one, 70 if chk.tier == "quick" else 600,
                 "harness/c09.py run_exact vs Model/Ring.lean")


# ----------------------------------------------------------------------------- multi-agent: mixed numeric types per field
MT_FORMS = {"reward": ["int", "npint", "float", "npfloat32", "bigint", "wide", "listint", "listfloat"],
            "action": ["int", "npint", "float", "npfloat32", "bigint", "wide"],
            "done": ["bool", "int", "float"],
            "state": ["int", "npint", "float", "npfloat32", "wide", "u8"]}
MT_NARROW = {"int", "npint", "bigint", "bool", "u8", "listint"}          # forms whose dtype cannot hold a fraction


def mt_value(field: str, form: str, ai: int, ids: list[int], nxt: bool = False):
    """batched values of one field for agent number ai in the numeric type `form`; (array or list, per-row Python
    values).  code = 4 * id + ai; integer forms carry 3 * code + 1, float forms code + 0.25 (`wide`: + 2^-30, a float64
    that float32 cannot hold), `bigint` 2^40 + code (int64 beyond float32 and int32), `u8` code mod 256."""
    code = [4 * t + ai for t in ids]
    if field == "done":
        vals = [(t + ai) % 2 for t in ids]
        a = np.array(vals, dtype={"bool": np.bool_, "int": np.int64, "float": np.float64}[form])
        return a, [_py(a[i]) for i in range(len(ids))]
    off = 0.5 if nxt else 0.0
    if form in ("int", "npint", "listint"):
        vals, dt = [3 * c + 1 + (7 if nxt else 0) for c in code], (np.int64 if form != "npint" else np.int32)
    elif form == "bigint":
        vals, dt = [2 ** 40 + c for c in code], np.int64
    elif form == "u8":
        vals, dt = [(c + (7 if nxt else 0)) % 256 for c in code], np.uint8
    elif form == "wide":
        vals, dt = [c + 0.25 + off + 2.0 ** -30 for c in code], np.float64
    else:
        vals, dt = [c + 0.25 + off for c in code], (np.float32 if form == "npfloat32" else np.float64)
    a = np.array(vals, dtype=dt)
    cols = {"reward": 0, "action": 2, "state": 3}[field]
    if cols:
        a = np.repeat(a[:, None], cols, axis=1)
    exp = [_py(a[i]) for i in range(len(ids))]
    if form.startswith("list"):
        return a.tolist(), exp                    # a Python list of Python numbers (the maybe_to_array path)
    return a, exp


def gen_matypes_case(rng: random.Random) -> dict:
    cap = rng.choice([2, 3, 4, 5, 7, 8])
    kind = rng.choice(["vector", "vector", "dict", "tuple"])
    ops = []
    for op in gen_ops(rng, cap, rng.randint(4, 10)):
        if op[0] == "clear":
            continue                                            # the multi-agent buffer has no clear()
        if op[0] != "add":
            ops.append(op)
            continue
        w = len(op) - 1
        vect = w > 1 or rng.random() < 0.4
        narrow = rng.random() < 0.5                             # about half of the transitions in integer types
        forms = {}
        for f in ("state", "action", "reward", "done"):
            pool = [x for x in MT_FORMS[f] if (x in MT_NARROW) == narrow or rng.random() < 0.25]
            pool = [x for x in pool if vect or not x.startswith("list")] or ["float"]
            forms[f] = [rng.choice(pool) for _ in AGENTS] if rng.random() < 0.5 else [rng.choice(pool)] * len(AGENTS)
        ops.append(["add", w, vect, forms])
    return {"suite": "matypes", "cap": cap, "kind": kind, "ops": ops, "seed": rng.randrange(1 << 30)}


def mt_args(case: dict, ids: list[int], vect: bool, forms: dict):
    """(the five field dicts for save_to_memory, per id the expected {(field, agent, leaf): values})"""
    kind = case["kind"]
    exp = [dict() for _ in ids]
    args = []
    for f in FIELDS:
        d = {}
        for ai, ag in enumerate(AGENTS):
            base = "state" if f in ("state", "next_state") else f
            form = forms[base][ai]
            v, e = mt_value(base, form, ai, ids, nxt=f == "next_state")
            if base == "state" and kind != "vector":
                v2, e2 = mt_value(base, form, (ai + 1) % 4, ids, nxt=f == "next_state")      # a second, different member
                members = {"p": (v, e), "q": (v2, e2)} if kind == "dict" else {0: (v, e), 1: (v2, e2)}
                for mk, (_, me) in members.items():
                    for r in range(len(ids)):
                        exp[r][(f, ag, str(mk))] = me[r]
                val = {mk: (mv if vect else mv[0]) for mk, (mv, _) in members.items()}
                d[ag] = val if kind == "dict" else tuple(val[i] for i in (0, 1))
            else:
                for r in range(len(ids)):
                    exp[r][(f, ag, "")] = e[r]
                d[ag] = v if vect else (v[0] if isinstance(v, np.ndarray) else v[0])
                if not vect and base in ("reward", "done") and form in ("int", "float", "bool"):
                    d[ag] = v[0].item()                         # plain Python number, as PettingZoo environments return
        args.append(d)
    return args, exp


def _mt_leaves(x) -> dict:
    if isinstance(x, dict):
        return {str(k): v for k, v in x.items()}
    if isinstance(x, tuple):
        return {str(i): v for i, v in enumerate(x)}
    return {"": x}


def run_matypes(case: dict):
    """same contract as run_impl_ma.  Stored experiences must hold exactly the values given; a sampled row must hold,
    in every leaf of every field of every agent, the float32 value of what was given for one stored transition
    (sample() hands out float32 by design; flag fields as 0 / 1)."""
    from agilerl.components.multi_agent_replay_buffer import MultiAgentReplayBuffer
    cap = case["cap"]
    random.seed(case["seed"])
    buf = MultiAgentReplayBuffer(memory_size=cap, field_names=list(FIELDS), agent_ids=list(AGENTS))
    obs_lines, model_lines, problems, tags = ["ok"], [f"ring dnew {cap}"], [], [f"matypes-obs-{case['kind']}"]
    hist: list[int] = []
    added, known, known32, narrow_of = {}, {}, {}, {}
    nid = 1

    def f32(vals):
        return tuple(float(np.float32(v)) for v in vals)
    for op in case["ops"]:
        if op[0] == "add":
            w, vect, forms = op[1], op[2], op[3]
            ids = list(range(nid, nid + w))
            nid += w
            args, exp = mt_args(case, ids, vect, forms)
            for tid, e in zip(ids, exp):
                added[tid] = e
                known[_ex_row_key(e)] = tid
                known32[_ex_row_key({k: f32(v) for k, v in e.items()})] = tid
                narrow_of[tid] = {f: [x in MT_NARROW for x in forms[f]] for f in forms}
            buf.save_to_memory(*args, is_vectorised=vect)
            hist += ids
            model_lines.append("ring dadd " + " ".join(map(str, ids)))
            obs_lines.append("ok")
            tags.append("ma-vect" if vect else "ma-single")
            tags += [f"matypes-{f}-{x}" for f in forms for x in set(forms[f])]
            if len(hist) > cap:
                tags.append("ma-evict")
        elif op[0] == "sample":
            k = min(op[1], len(buf))
            if k == 0:
                continue
            expect = set(hist[-cap:])
            # several draws: the order of a batch is random, and a batch that STARTS with an integer-typed transition
            # and goes on with a fractional one is the interesting one
            seen_narrow_first = False
            for draw in range(10):
                batch = buf.sample(k)
                rows = []
                for j in range(k):
                    got = {}
                    for fi, f in enumerate(FIELDS):
                        for ag in AGENTS:
                            for lk, x in _mt_leaves(batch[fi][ag]).items():
                                got[(f, ag, lk)] = _py(x[j].to(torch.float64))
                    tid = known32.get(_ex_row_key(got))
                    rows.append(tid)
                    if tid is None and len(problems) < 3:
                        best = max(expect, key=lambda t: sum(f32(added[t].get(q, ())) == v for q, v in got.items()))
                        q = next((q for q in sorted(got) if f32(added[best].get(q, ())) != got[q]), None)
                        problems.append(f"MA values: sample({k}) row {j} is none of the stored transitions: field {q[0]} of {q[1]}"
                                        f"{' member ' + q[2] if q[2] else ''} holds {list(got[q])!r}; transition {best} (closest) was "
                                        f"added with {list(added[best].get(q, ()))!r}; ids of the batch so far {rows}")
                if None not in rows and (len(set(rows)) != k or not set(rows) <= expect):
                    problems.append(f"MA sample({k}) -> {rows}; stored {sorted(expect)}")
                if rows[0] is not None and k > 1:
                    first = narrow_of[rows[0]]
                    if any(first[f][ai] and any(r is not None and not narrow_of[r][f][ai] for r in rows[1:])
                           for f in first for ai in range(len(AGENTS))):
                        seen_narrow_first = True
                if problems or (draw >= 2 and (seen_narrow_first or k == 1)):
                    break
            tags.append("ma-sample")
            if seen_narrow_first:
                tags.append("matypes-batch-starts-narrow-then-fraction")
        elif op[0] == "len":
            model_lines.append("ring dlen")
            obs_lines.append(str(len(buf)))
            if len(buf) != min(cap, len(hist)):
                problems.append(f"MA len={len(buf)} expected {min(cap, len(hist))}")
        elif op[0] == "dump":
            rows = []
            for e in buf.memory:
                got = {}
                for f in FIELDS:
                    for ag in AGENTS:
                        for lk, x in _mt_leaves(getattr(e, f)[ag]).items():
                            got[(f, ag, lk)] = _py(x)
                tid = known.get(_ex_row_key(got))
                rows.append("MIXED" if tid is None else str(tid))
            model_lines.append("ring ddump")
            obs_lines.append(" ".join(rows))
            if rows != list(map(str, hist[-cap:])):
                problems.append(f"MA contents {rows} != last-N {hist[-cap:]}")
    model_lines.append("ring dcounter")
    obs_lines.append(str(buf.counter))
    return obs_lines, model_lines, problems, tags


def matypes_one(chk: Check, case: dict):
    try:
        impl, model_ops, problems, tags = run_matypes(case)
    except Exception as e:
        return None, [f"implementation raised {type(e).__name__}: {str(e)[:200]}"], [], [], []
    model_out = chk.driver.run(["reset"] + model_ops)[1:]
    diff = next((i for i, (a, b) in enumerate(zip(impl, model_out)) if a != b), None)
    return diff, problems, tags, impl, model_out


def matypes_suite(chk: Check) -> None:
    _typed_suite(chk, "matypes", "matypes_", gen_matypes_case, matypes_one, 50 if chk.tier == "quick" else 400,
                 "harness/c09.py run_matypes vs Model/Ring.lean")


def selftest_types(chk: Check) -> None:
    """seeded faults for the value / numeric-type dimensions: each must be reported by the oracle of its suite"""
    from common import InfraError
    from agilerl.components import data as dmod
    from agilerl.components import multi_agent_replay_buffer as mb
    from agilerl.components import replay_buffer as rb
    add_ops = [["add", 1, False, "int", "bool", "int", "int"], ["add", 2, True, "float", "float", "float", "float"],
               ["dump"], ["sample", 2]]
    raw = {"suite": "exact", "cls": "ReplayBuffer", "dtype_opt": None, "cap": 4, "path": "raw", "seed": 1, "ops": add_ops,
           "profile": {"obs_kind": "vector", "obs": "f64", "obs2": "u8", "action": "i64", "reward": "f32", "done": "bool",
                       "reward_1d": False}}
    via_t = {"suite": "exact", "cls": "ReplayBuffer", "dtype_opt": None, "cap": 4, "path": "transition", "seed": 1,
             "ops": add_ops, "profile": {"obs_kind": "vector", "obs": "f64", "act_cols": 1}}
    orig_init, orig_add, orig_tt = rb.ReplayBuffer._init, rb.ReplayBuffer.add, dmod.to_torch_tensor
    orig_stack = mb.MultiAgentReplayBuffer.stack_transitions

    def init_cast(self, data):                       # "honours" the dtype option: floating leaves stored in self.dtype
        orig_init(self, data)
        self._storage = self._storage.apply(lambda t: t.to(self.dtype) if t.is_floating_point() else t)

    def add_via_float(self, data):                   # every leaf passes through float32 on the way in
        return orig_add(self, data.apply(lambda t: t.float().to(t.dtype)))

    def tt_keep(data, dtype=torch.float32):          # Transition keeps the numeric type it is given
        return torch.as_tensor(data)

    def stack_first(transitions):                    # batch typed by its first row
        if isinstance(transitions[0], (dict, tuple)):
            return orig_stack(transitions)
        first = np.asarray(transitions[0])
        out = np.empty((len(transitions), *first.shape), dtype=first.dtype)
        for i, t in enumerate(transitions):
            out[i] = t
        return np.expand_dims(out, axis=1) if out.ndim == 1 else out
    ma = {"suite": "matypes", "cap": 6, "kind": "vector", "seed": 5,
          "ops": [["add", 1, False, {"state": ["float"] * 3, "action": ["float"] * 3, "reward": ["int"] * 3, "done": ["bool"] * 3}],
                  ["add", 3, True, {"state": ["float"] * 3, "action": ["float"] * 3, "reward": ["float"] * 3, "done": ["float"] * 3}],
                  ["add", 2, True, {"state": ["float"] * 3, "action": ["float"] * 3, "reward": ["npint"] * 3, "done": ["int"] * 3}],
                  ["dump"], ["sample", 6], ["sample", 3]]}
    seeded = [("storage cast to the dtype option", rb.ReplayBuffer, "_init", init_cast, exact_one, raw),
              ("add through float32", rb.ReplayBuffer, "add", add_via_float, exact_one, raw),
              ("Transition keeps the given numeric type", dmod, "to_torch_tensor", tt_keep, exact_one, via_t),
              ("sampled batch typed by its first row", mb.MultiAgentReplayBuffer, "stack_transitions", staticmethod(stack_first),
               matypes_one, ma)]
    for what, owner, attr, fault, one, case in seeded:
        if one(chk, case)[1]:
            raise InfraError(f"C09 self-test: the case for '{what}' fails on the unpatched implementation")
        orig = owner.__dict__[attr] if isinstance(owner, type) else getattr(owner, attr)
        setattr(owner, attr, fault)
        try:
            problems = one(chk, case)[1]
        finally:
            setattr(owner, attr, orig)
        if not problems:
            raise InfraError(f"C09 self-test: seeded fault '{what}' was not noticed")
        chk.notes.append(f"self-test: {what} detected ({problems[0][:90]})")


# ----------------------------------------------------------------------------- clear() of every single-agent class
CLEAR_GAMMA = 0.5          # dyadic: n-step returns of integer rewards are exact in float32


def clear_step_td(ids: list[int]):
    """one environment step of len(ids) environments; every leaf encodes the id, done = 0 (episode ends are C10's subject)"""
    from agilerl.components.data import Transition
    a = np.array(ids, dtype=np.float32)
    t = Transition(obs=np.repeat(a[:, None], 3, axis=1), action=np.repeat(a[:, None], 2, axis=1), reward=a.copy(),
                   next_obs=np.repeat(a[:, None] + 0.5, 3, axis=1), done=np.zeros(len(ids), dtype=np.float32))
    td = t.to_tensordict()
    td.batch_size = [len(ids)]
    return td


def clear_decode(td, n: int) -> list:
    """per row (obs id, action id, reward, next_obs id) or "MIXED" """
    rows = []
    for j in range(n):
        r = td[j]
        o, a, x = (torch.unique(r[k].reshape(-1).to(torch.float64)).tolist() for k in ("obs", "action", "next_obs"))
        rew, d = r["reward"].reshape(-1).tolist(), r["done"].reshape(-1).tolist()
        if len(o) != 1 or len(a) != 1 or len(x) != 1 or len(rew) != 1 or d != [0.0]:
            rows.append("MIXED")
        else:
            rows.append((o[0], a[0], float(rew[0]), x[0] - 0.5))
    return rows


def clear_one(case: dict) -> list[str]:
    try:
        return _clear_one(case)
    except Exception as e:
        return [f"implementation raised {type(e).__name__}: {str(e)[:200]}"]


def _clear_one(case: dict) -> list[str]:
    """phases of environment steps separated by clear(); after every phase the buffer must hold exactly the last
    min(cap, records) records that the steps SINCE the last clear() produce (n-step: windows of n consecutive steps of one
    environment, obs / action of the first, next_obs of the last, reward folded with gamma), and every sampled row /
    sampled index must be one of them"""
    from agilerl.components import replay_buffer as rb
    cls_name, cap, n, envs = case["cls"], case["cap"], case.get("n_step", 1), case["envs"]
    torch.manual_seed(case["seed"])
    if cls_name == "ReplayBuffer":
        buf, n = rb.ReplayBuffer(max_size=cap), 1
    elif cls_name == "MultiStepReplayBuffer":
        buf = rb.MultiStepReplayBuffer(max_size=cap, n_step=n, gamma=CLEAR_GAMMA)
    else:
        buf, n = rb.PrioritizedReplayBuffer(max_size=cap, alpha=0.5), 1
    where = f"{cls_name}(max_size={cap}" + (f", n_step={n}" if cls_name == "MultiStepReplayBuffer" else "") + ")"
    problems, nid = [], 1
    for pno, steps in enumerate(case["phases"]):
        if pno:
            buf.clear()
            if len(buf) != 0:
                problems.append(f"clear: {where} len after clear() is {len(buf)}")
        window, records = [], []
        for _ in range(steps):
            ids = list(range(nid, nid + envs))
            nid += envs
            buf.add(clear_step_td(ids))
            window = (window + [ids])[-n:]
            if len(window) == n:
                for e in range(envs):
                    records.append((float(window[0][e]), float(window[0][e]),
                                    float(sum(CLEAR_GAMMA ** k * window[k][e] for k in range(n))), float(window[-1][e])))
        want = records[-cap:]
        what = f"{where} after {'clear() and ' if pno else ''}{steps} step(s) of {envs} environment(s)" + \
            (f" (phase {pno}, ids from {nid - steps * envs})" if pno else "")
        if len(buf) != len(want):
            problems.append(f"clear: {what}: len={len(buf)}, expected {len(want)}")
            break
        if not want:
            continue
        stored = clear_decode(buf.storage[:len(buf)], len(buf))
        if sorted(map(str, stored)) != sorted(map(str, want)):
            extra = [r for r in stored if r not in want][:3]
            problems.append(f"clear: {what}: storage holds records (obs id, action id, reward, next_obs id) {extra} that the steps "
                            f"since the last clear() do not produce; expected {want[-3:]}")
            break
        for k in sorted({1, len(want), max(1, len(want) // 2)}):
            for _ in range(4):
                s = buf.sample(k) if cls_name == "PrioritizedReplayBuffer" else buf.sample(k, return_idx=True)
                rows = clear_decode(s, s.shape[0])
                idx = [int(i) for i in s["idxs"].reshape(-1).tolist()]
                if len(rows) != k or any(r not in want for r in rows) or any(not 0 <= i < len(want) for i in idx) or \
                        (cls_name != "PrioritizedReplayBuffer" and len(set(idx)) != k):
                    problems.append(f"clear: {what}: sample({k}) returned idxs {idx} rows {rows[:4]}; the buffer holds {len(want)} "
                                    f"record(s) {want[-3:]}")
                    break
            if problems:
                break
        if problems:
            break
    return problems


def gen_clear_case(rng: random.Random, i: int) -> dict:
    cls_name = HANDOUT_CLASSES[i % 3]
    envs = rng.choice([1, 1, 2, 3])
    cap = rng.choice([c for c in (1, 2, 3, 4, 6, 8, 9) if c >= envs])     # a vectorised add is at most the capacity
    n = rng.choice([1, 2, 2, 3, 3, 4]) if cls_name == "MultiStepReplayBuffer" else 1
    phases = [rng.randint(0, 2 * cap // envs + n)]
    for _ in range(rng.randint(1, 3)):
        # after clear(): fewer steps than the window, exactly the window, fewer records than before, or a refill
        phases.append(rng.choice([rng.randint(1, n), n, rng.randint(n, n + max(1, cap // envs)), rng.randint(1, 2 * cap // envs + n)]))
    return {"suite": "clear", "cls": cls_name, "cap": cap, "n_step": n, "envs": envs, "phases": phases, "seed": rng.randrange(1 << 30)}


def clear_suite(chk: Check) -> None:
    n_cases = 45 if chk.tier == "quick" else 360
    cases = [json.loads(f.read_text()) for f in sorted((ROOT / "corpus" / "C09").glob("clear_*.json"))]
    cases += [gen_clear_case(chk.rng, i) for i in range(n_cases)]
    bad = 0
    for case in cases:
        case = case.get("case", case)
        problems = clear_one(case)
        chk.case(["clear", case], nontrivial=len(case["phases"]) > 1 and case["phases"][0] > 0,
                 sample={k: v for k, v in case.items() if k != "seed"},
                 tags=["clear-suite", f"clear-{case['cls']}", f"clear-n-step-{case.get('n_step', 1)}", f"clear-envs-{case['envs']}"])
        if problems:
            bad += 1
            small = dict(case)
            for cand in ([case["phases"][0]] + [p] for p in case["phases"][1:]):       # one clear() is enough?
                if clear_one({**case, "phases": cand}):
                    small["phases"] = cand
                    break
            p2 = clear_one(small) or problems
            chk.violation(p2[0], {"suite": "clear", "case": small, "oracle_problems": p2})
    chk.suite("clear", len(cases), bad)


CLEAR_PROBES = {
    # the two inputs of finding C09-clear-keeps-subclass-state (repaired in 55584b2)
    "per": {"suite": "clear", "cls": "PrioritizedReplayBuffer", "cap": 8, "n_step": 1, "envs": 1, "phases": [8, 1], "seed": 0},
    "nstep": {"suite": "clear", "cls": "MultiStepReplayBuffer", "cap": 8, "n_step": 3, "envs": 1, "phases": [2, 3], "seed": 0},
}


def clear_probes(chk: Check) -> None:
    """regression probes on exactly the analysed inputs: prioritised buffer cap 8, add 8, clear, add 1, sample;
    n-step buffer n_step=3, add 1, 2, clear, add 3 more -> one record, made of the three post-clear transitions only"""
    for name, case in CLEAR_PROBES.items():
        problems = clear_one(case)
        chk.case(["clear-probe", name], nontrivial=True, tags=["clear-probe"])
        if problems:
            chk.finding("C09-clear-keeps-subclass-state", problems[0], {"suite": "clear", "case": case, "oracle_problems": problems})
    chk.suite("clear-probe", len(CLEAR_PROBES), 0)


def selftest_clear(chk: Check) -> None:
    """seeded fault: subclasses whose clear() resets only the storage (the inherited ReplayBuffer.clear) must be noticed
    by both regression probes"""
    from common import InfraError
    from agilerl.components import replay_buffer as rb
    saved = {c: c.__dict__.get("clear") for c in (rb.MultiStepReplayBuffer, rb.PrioritizedReplayBuffer)}
    for c in saved:
        c.clear = rb.ReplayBuffer.clear
    try:
        missed = [k for k, case in CLEAR_PROBES.items() if not clear_one(case)]
    finally:
        for c, f in saved.items():
            if f is None:
                del c.clear
            else:
                c.clear = f
    if missed:
        raise InfraError(f"C09 self-test: clear() that keeps the subclass state was not noticed by probe(s) {missed}")
    chk.notes.append("self-test: clear() keeping priority trees / the pending n-step window detected")


def renumber(ops):
    """after shrinking, ids must still be 1,2,3,… in order of addition"""
    out, nid = [], 1
    for op in ops:
        if op[0] == "add":
            w = len(op) - 1
            out.append(["add"] + list(range(nid, nid + w)))
            nid += w
        else:
            out.append(list(op))
    return out


def selftest(chk: Check) -> None:
    """seeded faults: the suite must notice an implementation that drops the wrap-around slice"""
    from agilerl.components import replay_buffer as rb
    orig = rb.ReplayBuffer.add

    def broken(self, data):
        n = data.shape[0]
        if self._storage is not None and self._cursor + n > self.max_size:
            data = data[: self.max_size - self._cursor]          # loses data[n:]
            orig(self, data)
            self._cursor = (self._cursor + (n - data.shape[0])) % self.max_size
            return
        return orig(self, data)
    rb.ReplayBuffer.add = broken
    try:
        ops = [["add", 1, 2], ["add", 3, 4], ["dump"]]
        diff, problems, *_ = one_case(chk, "single", 3, "vector", ops, 1)
    finally:
        rb.ReplayBuffer.add = orig
    if diff is None and not problems:
        from common import InfraError
        raise InfraError("C09 self-test: seeded wrap-around fault was not noticed")
    chk.notes.append("self-test: dropped wrap-around slice detected")


def replay(chk: Check, path: str) -> int:
    c = json.loads(open(path).read())
    c = c.get("replay", c)
    if c.get("suite") == "sample-stress":
        problem = stress_one(c["buffer"], c["cap"], c["added"], c["batch"], c["torch_seed"], c["add_width"], c["draws"])
        print(json.dumps({"problem": problem}))
        if problem:
            print(f"VIOLATION property=C09 replay={path}")
        return 1 if problem else 0
    if c.get("suite") == "reorg":
        problems, diffs, _ = reorg_one(chk, c["case"])
        print(json.dumps({"oracle_problems": problems, "differences": diffs}, indent=1))
        if problems:
            print(f"VIOLATION property=C09 replay={path}")
            return 1
        if diffs:
            print(f"VIOLATION property=C09 replay={path} no-failing-input-found")
            return 1
        return 0
    if c.get("suite") == "shape":
        problems = shape_one(c["case"])
        print(json.dumps({"oracle_problems": problems}, indent=1))
        if problems:
            print(f"VIOLATION property=C09 replay={path}")
        return 1 if problems else 0
    if c.get("suite") == "clear":
        problems = clear_one(c["case"])
        print(json.dumps({"oracle_problems": problems}, indent=1))
        if problems:
            print(f"VIOLATION property=C09 replay={path}")
        return 1 if problems else 0
    if c.get("suite") in ("exact", "matypes"):
        diff, problems, _, impl, model = (exact_one if c["suite"] == "exact" else matypes_one)(chk, c["case"])
        print(json.dumps({"diff_at": diff, "oracle_problems": problems, "impl": impl, "model": model}, indent=1))
        if problems:
            print(f"VIOLATION property=C09 replay={path}")
            return 1
        if diff is not None:
            print(f"VIOLATION property=C09 replay={path} no-failing-input-found")
            return 1
        return 0
    if c.get("suite") == "masample":
        problems, diffs, _ = masample_one(chk, c["case"])
        print(json.dumps({"oracle_problems": problems, "differences": diffs}, indent=1))
        if problems:
            print(f"VIOLATION property=C09 replay={path}")
            return 1
        if diffs:
            print(f"VIOLATION property=C09 replay={path} no-failing-input-found")
            return 1
        return 0
    if c.get("suite") == "handout":
        problem = handout_one(c["buffer"], c["cap"], c["added"], c["batch"], c["torch_seed"], c["add_width"], c["more_adds"])
        print(json.dumps({"problem": problem}))
        if problem:
            print(f"VIOLATION property=C09 replay={path}")
        return 1 if problem else 0
    diff, problems, _, impl, model = one_case(chk, c["which"], c["cap"], c["kind"], c["ops"], c.get("seed", 0), c.get("cfg"))
    print(json.dumps({"diff_at": diff, "oracle_problems": problems, "impl": impl, "model": model}, indent=1))
    if problems:
        print(f"VIOLATION property=C09 replay={path}")
        return 1
    if diff is not None:
        print(f"VIOLATION property=C09 replay={path} no-failing-input-found")
        return 1
    return 0
