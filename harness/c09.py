"""
C09 — replay buffers hold exactly the most recent transitions, each one intact.

Correspondence: random op sequences (add w | sample k | len | dump | clear) on the real
`ReplayBuffer` (through `Transition`, as `train_off_policy` does) and `MultiAgentReplayBuffer`
against `Model/Ring.lean`.  Every field of a transition encodes its id, so a slot whose fields
disagree shows up as MIXED.  Oracle: independent last-N reference in Python + "a batch handed out
is never altered later" + "no duplicates in one uniform batch".

Source translation (`pre_gate`, before the Lean gate): `py2lean_ring.py` translates the source text of
`ReplayBuffer.__init__/__len__/size/add/sample/clear` (replay_buffer.py) and of
`MultiAgentReplayBuffer.__init__/__len__/_add/save_to_memory*` (multi_agent_replay_buffer.py) of the tree
under test into `lean/Gen/RingGen.lean`; `Proofs/RingGenEq.lean` proves the generated methods equal to the
model functions (through `absBuf` / `absDeq`, under the representation invariant) and `Props/C09.lean`
restates the C09 theorems over the generated definitions (`C09_source_translation_*`).  If the translator
rejects the source or those proofs stop checking, that is a gate problem naming the broken equality; the
op-sequence suite below then supplies the failing input if there is one.
"""
from __future__ import annotations

import json
import random

import numpy as np
import torch

from common import ROOT, Check, ddmin

OBS_KINDS = ["vector", "image", "dict", "tuple", "scalar"]


# ----------------------------------------------------------------------------- single agent
def make_obs(kind: str, ids: list[int], nxt: bool):
    """batched observation whose every element encodes the transition id"""
    off = 0.5 if nxt else 0.0           # next_obs is distinguishable from obs
    a = np.array(ids, dtype=np.float32) + off
    if kind == "vector":
        return np.repeat(a[:, None], 3, axis=1)
    if kind == "scalar":
        return a.copy()
    if kind == "image":
        return np.broadcast_to(a[:, None, None, None], (len(ids), 2, 3, 3)).copy()
    if kind == "dict":
        return {"v": np.repeat(a[:, None], 2, axis=1),
                "img": np.broadcast_to(a[:, None, None, None], (len(ids), 1, 2, 2)).copy()}
    if kind == "tuple":
        return (np.repeat(a[:, None], 2, axis=1), np.repeat(a[:, None], 4, axis=1))
    raise ValueError(kind)


def make_transition(kind: str, ids: list[int]):
    from agilerl.components.data import Transition
    w = len(ids)
    obs, nobs = make_obs(kind, ids, False), make_obs(kind, ids, True)
    if w == 1 and kind != "scalar":
        # unvectorised path of train_off_policy: no batch dim, then unsqueeze(0)
        sq = (lambda x: x[0])
        if isinstance(obs, dict):
            obs, nobs = {k: sq(v) for k, v in obs.items()}, {k: sq(v) for k, v in nobs.items()}
        elif isinstance(obs, tuple):
            obs, nobs = tuple(sq(v) for v in obs), tuple(sq(v) for v in nobs)
        else:
            obs, nobs = sq(obs), sq(nobs)
        t = Transition(obs=obs, action=np.array([ids[0], ids[0]], dtype=np.float32),
                       reward=float(ids[0]), next_obs=nobs, done=float(ids[0] % 2))
        t = t.unsqueeze(0)
    else:
        t = Transition(obs=obs, action=np.repeat(np.array(ids, dtype=np.float32)[:, None], 2, axis=1),
                       reward=np.array(ids, dtype=np.float32), next_obs=nobs,
                       done=np.array([i % 2 for i in ids], dtype=np.float32))
    td = t.to_tensordict()
    td.batch_size = [w]
    return td


def decode_rows(td, n: int) -> list[str]:
    """per row: the id if every field (and every member of dict/tuple observations) agrees"""
    out = []
    for j in range(n):
        row = td[j]
        vals = set()

        def leaves(x, off):
            if hasattr(x, "keys"):
                for k in x.keys():
                    leaves(x[k], off)
            else:
                for v in torch.unique(x.reshape(-1).to(torch.float64)).tolist():
                    vals.add(v - off)

        leaves(row["obs"], 0.0)
        leaves(row["next_obs"], 0.5)
        leaves(row["action"], 0.0)
        leaves(row["reward"], 0.0)
        if len(vals) != 1:
            out.append("MIXED")
            continue
        v = vals.pop()
        d = row["done"].reshape(-1)
        if v != int(v) or d.numel() != 1 or float(d[0]) != int(v) % 2:
            out.append("MIXED")
        elif int(v) == 0:
            out.append("_")        # zero-initialised slot (ids start at 1)
        else:
            out.append(str(int(v)))
    return out


def gen_ops(rng: random.Random, cap: int, length: int):
    ops, size = [], 0
    nid = 1
    cursor = 0
    for _ in range(length):
        r = rng.random()
        if r < 0.62 or size == 0:
            mode = rng.random()
            if mode < 0.25:
                w = max(1, cap - cursor)                      # end exactly at the boundary
            elif mode < 0.45:
                w = min(cap, cap - cursor + rng.randint(1, max(1, cap // 2)))   # across the end
            elif mode < 0.55:
                w = cap
            else:
                w = rng.randint(1, cap)
            w = max(1, min(w, cap))
            ops.append(["add"] + list(range(nid, nid + w)))
            nid += w
            cursor = (cursor + w) % cap
            size = min(cap, size + w)
        elif r < 0.80:
            ops.append(["sample", rng.randint(1, size)])
        elif r < 0.88:
            ops.append(["len"])
        elif r < 0.97:
            ops.append(["dump"])
        else:
            ops.append(["clear"])
            size, cursor = 0, 0
    ops.append(["dump"])
    ops.append(["len"])
    return ops


def run_impl_single(cap: int, kind: str, ops, case_seed: int):
    """returns (observable lines for the model diff, model op lines, oracle problems, tags)"""
    from agilerl.components.replay_buffer import ReplayBuffer
    torch.manual_seed(case_seed)
    buf = ReplayBuffer(max_size=cap)
    obs_lines, model_lines, problems, tags = [], [f"ring new {cap}"], [], []
    obs_lines.append("ok")
    hist: list[int] = []
    since_clear: list[int] = []
    handed = []      # (snapshot decoded rows, live batch)
    for op in ops:
        if op[0] == "add":
            ids = op[1:]
            before = buf._cursor
            buf.add(make_transition(kind, ids))
            hist += ids
            since_clear += ids
            model_lines.append("ring add " + " ".join(map(str, ids)))
            obs_lines.append("ok")
            if before + len(ids) > cap:
                tags.append("wrap-across")
            elif before + len(ids) == cap:
                tags.append("wrap-exact")
            tags.append("add-batch" if len(ids) > 1 else "add-single")
        elif op[0] == "sample":
            k = op[1]
            if len(buf) == 0:
                continue
            k = min(k, len(buf))
            s = buf.sample(k, return_idx=True)
            idx = [int(i) for i in s["idxs"].reshape(-1).tolist()]
            rows = decode_rows(s, s.shape[0])
            model_lines.append(f"ring sample {len(idx)} " + " ".join(map(str, idx)))
            obs_lines.append(" ".join(rows))
            handed.append((list(rows), s))
            # oracle: right number, stored, no duplicates
            expect = set(map(str, since_clear[-cap:]))
            if len(rows) != k:
                problems.append(f"sample({k}) returned {len(rows)} rows")
            if len(set(idx)) != len(idx) or len(set(rows)) != len(rows):
                problems.append(f"duplicate in one uniform batch: idx={idx} rows={rows}")
            if not set(rows) <= expect:
                problems.append(f"sample returned rows not stored: {sorted(set(rows) - expect)}")
            tags.append("sample")
        elif op[0] == "len":
            model_lines.append("ring len")
            obs_lines.append(str(len(buf)))
            if len(buf) != min(cap, len(since_clear)):
                problems.append(f"len={len(buf)} expected {min(cap, len(since_clear))}")
        elif op[0] == "dump":
            model_lines.append("ring dump")
            n = len(buf)
            rows = decode_rows(buf.storage[:n], n) if n else []
            obs_lines.append(" ".join(rows))
            expect = sorted(map(str, since_clear[-cap:]))
            if sorted(rows) != expect:
                problems.append(f"contents {sorted(rows)} != last-N reference {expect}")
        elif op[0] == "clear":
            buf.clear()
            since_clear = []
            model_lines.append("ring clear")
            obs_lines.append("ok")
            tags.append("clear")
    # oracle: batches handed out earlier are unchanged
    for snap, live in handed:
        now = decode_rows(live, live.shape[0])
        if now != snap:
            problems.append(f"a batch handed out earlier was altered later: {snap} -> {now}")
    model_lines.append("ring counter")
    obs_lines.append(str(buf.counter))
    return obs_lines, model_lines, problems, tags


# ----------------------------------------------------------------------------- multi agent
AGENTS = ["agent_0", "agent_1", "other_0"]
FIELDS = ["state", "action", "reward", "next_state", "done"]


def ma_args(ids: list[int], vect: bool, kind: str, order_rng: random.Random | None = None):
    """every value of agent number ai encodes 4*id + ai (its done flag: (id + ai) % 2), so data that
    ends up under another agent's key is visible; each field's dict may list the agents in its own order"""
    def field(fi: int):
        d = {}
        order = list(enumerate(AGENTS))
        if order_rng is not None:
            order_rng.shuffle(order)
        for ai, ag in order:
            a = np.array(ids, dtype=np.float32) * 4 + ai
            if FIELDS[fi] == "done":
                v = np.array([(i + ai) % 2 for i in ids], dtype=np.float32)
            elif FIELDS[fi] in ("state", "next_state"):
                off = 0.5 if FIELDS[fi] == "next_state" else 0.0
                if kind == "image":
                    v = np.broadcast_to((a + off)[:, None, None, None], (len(ids), 1, 2, 2)).copy()
                elif kind == "dict":
                    v = {"p": np.repeat((a + off)[:, None], 2, axis=1), "q": np.repeat((a + off)[:, None], 3, axis=1)}
                elif kind == "tuple":
                    v = (np.repeat((a + off)[:, None], 2, axis=1), np.repeat((a + off)[:, None], 3, axis=1),
                         np.repeat((a + off)[:, None], 1, axis=1))
                else:
                    v = np.repeat((a + off)[:, None], 2 + ai, axis=1)
            elif FIELDS[fi] == "action":
                v = np.repeat(a[:, None], 2, axis=1)
            else:
                v = a.copy()
            if not vect:
                if isinstance(v, dict):
                    v = {k: x[0] for k, x in v.items()}
                elif isinstance(v, tuple):
                    v = tuple(x[0] for x in v)
                else:
                    v = v[0]
            d[ag] = v
        return d
    return [field(i) for i in range(len(FIELDS))]


def _ma_id(values, dones) -> str:
    """values: {(agent index, decoded number)}, dones: {(agent index, flag)} -> the common id or MIXED"""
    ids = set()
    for ai, v in values:
        if v != int(v) or int(v) % 4 != ai:
            return "MIXED"                      # not an integer code, or another agent's data
        ids.add(int(v) // 4)
    if len(ids) != 1:
        return "MIXED"
    tid = ids.pop()
    if any(flag != (tid + ai) % 2 for ai, flag in dones):
        return "MIXED"
    return str(tid)


def ma_decode_experience(e) -> str:
    values, dones = set(), set()
    for f in FIELDS:
        for ai, ag in enumerate(AGENTS):
            x = getattr(e, f)[ag]
            xs = list(x.values()) if isinstance(x, dict) else (list(x) if isinstance(x, tuple) else [x])
            for y in xs:
                y = np.asarray(y, dtype=np.float64).reshape(-1)
                if f == "done":
                    dones.add((ai, float(y[0])))
                else:
                    off = 0.5 if f == "next_state" else 0.0
                    for v in np.unique(y):
                        values.add((ai, float(v) - off))
    return _ma_id(values, dones)


def ma_decode_batch(batch, k: int) -> list[str]:
    """sampled batch: tuple(field -> {agent: tensor[k,...]})"""
    rows = []
    for j in range(k):
        values, dones = set(), set()
        for fi, f in enumerate(FIELDS):
            for ai, ag in enumerate(AGENTS):
                x = batch[fi][ag]
                xs = list(x.values()) if isinstance(x, dict) else (list(x) if isinstance(x, tuple) else [x])
                for y in xs:
                    y = y[j].reshape(-1).to(torch.float64)
                    if f == "done":
                        dones.add((ai, float(y[0])))
                    else:
                        off = 0.5 if f == "next_state" else 0.0
                        for v in torch.unique(y).tolist():
                            values.add((ai, v - off))
        rows.append(_ma_id(values, dones))
    return rows


def run_impl_ma(cap: int, kind: str, ops, case_seed: int):
    from agilerl.components.multi_agent_replay_buffer import MultiAgentReplayBuffer
    random.seed(case_seed)
    order_rng = random.Random(case_seed ^ 0x5EED) if case_seed % 3 else None   # 2/3 of the cases shuffle key order
    buf = MultiAgentReplayBuffer(memory_size=cap, field_names=FIELDS, agent_ids=AGENTS)
    obs_lines, model_lines, problems, tags = ["ok"], [f"ring dnew {cap}"], [], []
    hist: list[int] = []
    for op in ops:
        if op[0] == "add":
            ids = op[1:]
            vect = len(ids) > 1 or (ids[0] % 3 == 0)
            buf.save_to_memory(*ma_args(ids, vect, kind, order_rng), is_vectorised=vect)
            hist += ids
            model_lines.append("ring dadd " + " ".join(map(str, ids)))
            obs_lines.append("ok")
            tags.append("ma-vect" if vect else "ma-single")
            if len(hist) > cap:
                tags.append("ma-evict")
        elif op[0] == "sample":
            k = min(op[1], len(buf))
            if k == 0:
                continue
            rows = ma_decode_batch(buf.sample(k), k)
            expect = set(map(str, hist[-cap:]))
            if len(rows) != k or len(set(rows)) != k or not set(rows) <= expect:
                problems.append(f"MA sample({k}) -> {rows}; stored {sorted(expect)}")
            tags.append("ma-sample")
        elif op[0] == "len":
            model_lines.append("ring dlen")
            obs_lines.append(str(len(buf)))
            if len(buf) != min(cap, len(hist)):
                problems.append(f"MA len={len(buf)} expected {min(cap, len(hist))}")
        elif op[0] == "dump":
            model_lines.append("ring ddump")
            rows = [ma_decode_experience(e) for e in buf.memory]
            obs_lines.append(" ".join(rows))
            if rows != list(map(str, hist[-cap:])):
                problems.append(f"MA contents {rows} != last-N {hist[-cap:]}")
    model_lines.append("ring dcounter")
    obs_lines.append(str(buf.counter))
    return obs_lines, model_lines, problems, tags


# ----------------------------------------------------------------------------- check
def pre_gate(chk: Check) -> None:
    """Regenerate lean/Gen/RingGen.lean from the source text of the tree under test and re-check
    `generated = model` (Proofs/RingGenEq.lean) and the theorems over the generated definitions."""
    import common
    import py2lean_ring
    common.translation_gate(chk, py2lean_ring, "Gen/RingGen.lean", ["Gen.RingGen", "Proofs.RingGenEq", "Props.C09"],
                            "ReplayBuffer circular storage / sample / clear, MultiAgentReplayBuffer bounded deque")


def one_case(chk: Check, which: str, cap: int, kind: str, ops, case_seed: int):
    """returns (diff index or None, problems, tags, impl_lines, model_out)"""
    runner = run_impl_single if which == "single" else run_impl_ma
    try:
        impl, model_ops, problems, tags = runner(cap, kind, ops, case_seed)
    except Exception as e:  # the implementation raised on a legal op sequence
        return None, [f"implementation raised {type(e).__name__}: {e}"], [], [], []
    model_out = chk.driver.run(["reset"] + model_ops)[1:]
    diff = next((i for i, (a, b) in enumerate(zip(impl, model_out)) if a != b), None)
    return diff, problems, tags, impl, model_out


def run(chk: Check) -> None:
    rng = chk.rng
    n_cases = 300 if chk.tier == "quick" else 2500
    chk.rule = ("random op sequences (add with widths biased to end exactly at / run across the end of the "
                "storage, sample, len, dump, clear) on ReplayBuffer and MultiAgentReplayBuffer, capacities 1..17, "
                "five observation kinds; distinct = distinct (buffer, capacity, kind, op list); non-trivial = at "
                "least one wrap-around or eviction happened")
    chk.assumptions = ["tensordict slice assignment and indexing behave as documented",
                       "ids are encoded in every field, so equality of decoded ids stands for 'fields belong together'"]
    # corpus first
    corpus = sorted((ROOT / "corpus" / "C09").glob("*.json"))
    cases = []
    for f in corpus:
        c = json.loads(f.read_text())
        cases.append((c["which"], c["cap"], c["kind"], c["ops"], c.get("seed", 0), f.name))
    for i in range(n_cases):
        which = "single" if rng.random() < 0.6 else "ma"
        cap = rng.choice([1, 2, 3, 4, 5, 7, 8, 11, 16, 17]) if rng.random() < 0.8 else rng.randint(1, 17)
        kind = rng.choice(OBS_KINDS if which == "single" else ["vector", "image", "dict", "tuple"])
        ops = gen_ops(rng, cap, rng.randint(4, 14 if chk.tier == "quick" else 40))
        cases.append((which, cap, kind, ops, rng.randrange(1 << 30), None))
    ndiff = 0
    for which, cap, kind, ops, cs, origin in cases:
        diff, problems, tags, impl, model_out = one_case(chk, which, cap, kind, ops, cs)
        wrapped = any(t in ("wrap-across", "wrap-exact", "ma-evict") for t in tags)
        chk.case([which, cap, kind, ops], nontrivial=wrapped,
                 sample={"buffer": which, "cap": cap, "obs": kind, "ops": ops[:8]}, tags=tags + [f"buf-{which}", f"obs-{kind}"])
        if diff is None and not problems:
            continue
        ndiff += diff is not None

        def still_fails(sub):
            d, p, *_ = one_case(chk, which, cap, kind, renumber(sub), cs)
            return bool(p) if problems else d is not None
        small = renumber(ddmin(ops, still_fails))
        d2, p2, _, impl2, model2 = one_case(chk, which, cap, kind, small, cs)
        replay = {"which": which, "cap": cap, "kind": kind, "ops": small, "seed": cs,
                  "impl": impl2, "model": model2, "oracle_problems": p2 or problems,
                  "correspondence": "harness/c09.py vs Model/Ring.lean", "theorems": chk.gate["theorems"]}
        if problems:
            chk.violation((p2 or problems)[0], replay)
        else:
            chk.violation(f"implementation and Ring model disagree at line {diff}: impl={impl[diff]!r} "
                          f"model={model_out[diff]!r}; property oracle holds on this case and its shrinks",
                          replay, no_input=True)
    chk.suite("ring-ops", len(cases), ndiff)
    sample_stress(chk)
    if chk.tier == "thorough":
        selftest(chk)


def stress_one(cls_name: str, cap: int, fill: int, batch: int, seed: int, w: int, n_draws: int):
    try:
        return _stress_one(cls_name, cap, fill, batch, seed, w, n_draws)
    except Exception as e:  # the implementation raised on a legal sequence of additions / draws
        return f"{cls_name}(max_size={cap}): implementation raised {type(e).__name__}: {str(e)[:200]}"


def _stress_one(cls_name: str, cap: int, fill: int, batch: int, seed: int, w: int, n_draws: int):
    from agilerl.components.replay_buffer import MultiStepReplayBuffer, ReplayBuffer
    cls = ReplayBuffer if cls_name == "ReplayBuffer" else MultiStepReplayBuffer
    torch.manual_seed(seed)
    buf = cls(max_size=cap) if cls is ReplayBuffer else cls(max_size=cap, n_step=1, gamma=0.5)
    nid = 1
    while nid <= fill:
        ids = list(range(nid, min(nid + w, fill + 1)))
        buf.add(make_transition("vector", ids))
        nid += len(ids)
    stored = set(map(str, range(max(1, fill - cap + 1), fill + 1)))
    for d in range(n_draws):
        sb = buf.sample(batch, return_idx=True) if cls is ReplayBuffer else buf.sample(batch)
        rows = decode_rows(sb, sb.shape[0])
        if len(rows) != batch or len(set(rows)) != len(rows) or not set(rows) <= stored:
            return (f"{cls.__name__}(max_size={cap}) holding {min(fill, cap)} rows: sample({batch}) draw {d} returned "
                    f"{'a repeated row' if len(set(rows)) != len(rows) else 'rows ' + str(sorted(set(rows) - stored)[:3])}: {rows[:12]}")
    return None


def sample_stress(chk: Check) -> None:
    """large buffers, batches much smaller than the buffer, many draws: every uniform batch must consist of
    distinct stored rows (sampling code paths may depend on the size / batch-size ratio)"""
    from agilerl.components.replay_buffer import MultiStepReplayBuffer, ReplayBuffer
    rng = chk.rng
    n_cfg = 14 if chk.tier == "quick" else 60
    n_draws = 300 if chk.tier == "quick" else 600
    bad = 0
    for _ in range(n_cfg):
        cap = rng.choice([64, 100, 257, 600, 1000])
        fill = rng.choice([cap, cap, rng.randint(cap // 2, cap), cap + rng.randint(1, cap // 2)])
        batch = rng.choice([1, 2, 3, 8, 16, 32, 64])
        batch = min(batch, max(1, min(fill, cap) // rng.choice([1, 2, 9, 12, 20])))
        seed = rng.randrange(1 << 30)
        cls = rng.choice([ReplayBuffer, ReplayBuffer, MultiStepReplayBuffer])
        w = rng.choice([1, 4, 7])
        problem = stress_one(cls.__name__, cap, fill, batch, seed, w, n_draws)
        chk.case(["stress", cls.__name__, cap, fill, batch, seed], nontrivial=True,
                 sample={"suite": "sample-stress", "buffer": cls.__name__, "cap": cap, "added": fill, "batch": batch},
                 tags=["sample-stress", f"ratio-{min(fill, cap) // max(batch, 1) > 8}"])
        if problem:
            bad += 1
            chk.violation(problem, {"suite": "sample-stress", "buffer": cls.__name__, "cap": cap, "added": fill,
                                    "batch": batch, "torch_seed": seed, "add_width": w, "draws": n_draws})
    chk.suite("sample-stress", n_cfg, bad)


def renumber(ops):
    """after shrinking, ids must still be 1,2,3,… in order of addition"""
    out, nid = [], 1
    for op in ops:
        if op[0] == "add":
            w = len(op) - 1
            out.append(["add"] + list(range(nid, nid + w)))
            nid += w
        else:
            out.append(list(op))
    return out


def selftest(chk: Check) -> None:
    """seeded faults: the suite must notice an implementation that drops the wrap-around slice"""
    from agilerl.components import replay_buffer as rb
    orig = rb.ReplayBuffer.add

    def broken(self, data):
        n = data.shape[0]
        if self._storage is not None and self._cursor + n > self.max_size:
            data = data[: self.max_size - self._cursor]          # loses data[n:]
            orig(self, data)
            self._cursor = (self._cursor + (n - data.shape[0])) % self.max_size
            return
        return orig(self, data)
    rb.ReplayBuffer.add = broken
    try:
        ops = [["add", 1, 2], ["add", 3, 4], ["dump"]]
        diff, problems, *_ = one_case(chk, "single", 3, "vector", ops, 1)
    finally:
        rb.ReplayBuffer.add = orig
    if diff is None and not problems:
        from common import InfraError
        raise InfraError("C09 self-test: seeded wrap-around fault was not noticed")
    chk.notes.append("self-test: dropped wrap-around slice detected")


def replay(chk: Check, path: str) -> int:
    c = json.loads(open(path).read())
    c = c.get("replay", c)
    if c.get("suite") == "sample-stress":
        problem = stress_one(c["buffer"], c["cap"], c["added"], c["batch"], c["torch_seed"], c["add_width"], c["draws"])
        print(json.dumps({"problem": problem}))
        if problem:
            print(f"VIOLATION property=C09 replay={path}")
        return 1 if problem else 0
    diff, problems, _, impl, model = one_case(chk, c["which"], c["cap"], c["kind"], c["ops"], c.get("seed", 0))
    print(json.dumps({"diff_at": diff, "oracle_problems": problems, "impl": impl, "model": model}, indent=1))
    if problems:
        print(f"VIOLATION property=C09 replay={path}")
        return 1
    if diff is not None:
        print(f"VIOLATION property=C09 replay={path} no-failing-input-found")
        return 1
    return 0
