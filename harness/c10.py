"""
C10 — n-step returns never cross an episode boundary and stay aligned with 1-step data.

Correspondence: streams of vectorised transitions are pushed through the real
`MultiStepReplayBuffer` + `ReplayBuffer` / `PrioritizedReplayBuffer` exactly as `train_off_policy`
does (`Transition(...).to_tensordict()`, `batch_size=[num_envs]`, `one = n_step_memory.add(t)`,
`if one is not None: memory.add(one)`) and through `Model/NStep.lean` (repaired variant).  obs /
action / next_obs encode (environment, step), rewards and discounts are dyadic, so every stored
number is compared exactly.  Compared: what every `add` returned and stored, the decoded contents
of both storages (as slot-aligned pairs), the fill levels.

Oracle (the property statement itself, independent of the Lean model, exact `Fraction`s): every
stored n-step record starts from an observed (obs, action), carries the discounted reward sum of
k following steps of the same environment for a *legal* k (1 <= k <= n; no terminal step of that
environment before the last summed step; k < n only if some environment ends at the last summed
step), together with next_obs / done of the last summed step; the 1-step record in the same slot
is the raw transition of the same (environment, step); both storages hold exactly the most recent
records; sampling both with the same indices (through `Sampler`, as the training loop does)
returns pairs that describe the same (obs, action).

Train-loop suite: the REAL `train_off_policy` is run with a tiny RainbowDQN (population 1-2) on a
scripted vector environment whose observation is (env id, call counter), with small n-step and
main (uniform / prioritised) buffers that wrap early.  `n_step_memory.add` is recorded (the stream)
and every `agent.learn(experiences, n_experiences)` call is inspected row by row: same (obs, action)
in row i of both batches, 1-step row = raw stream transition, n-step row = legal fusion from its
start; the final storages are compared with the Lean model fed with the recorded stream.

Sampler suite: the real `Sampler` objects in every flag combination (standard, per, n_step, per + n_step; for
`__init__` every memory class x dataset x dataloader combination) on provenance-encoded buffers that are
filled and sampled by the statements of `train_off_policy`; each returned batch is diffed with `sampleBlock true`
/ `samplerMode` of Model/NStep.lean (`nstep sample`, `nstep mode`) fed with the indices the implementation drew:
rows of both batches, extra axes (PER's (batch, 1) index column), the `idxs` entry.  Oracle: one record per row
in both batches, same number of rows, row i of either describes the same (obs, action), the 1-step rows are the
records stored at the indices handed on.  The train-loop suite additionally checks that
`memory.update_priorities` receives the indices sampled for that learn() call.  The source of this path
(`ReplayBuffer.sample`, `PrioritizedReplayBuffer.sample`, `sample_from_indices`, `Sampler`, the sampling / storing
statements of `train_off_policy`) is translated by harness/py2lean_sampler.py into Gen/SamplerGen.lean (pre_gate).

Consumer suite: the real 1-step (uniform / prioritised) and n-step buffers are filled from scripted
streams with episode ends in every slot, sampled through `Sampler` as the loop does, and handed to
the REAL `RainbowDQN.learn` (per on/off, combined_reward on/off, n >= 2) of identically seeded
agents.  Metamorphic relations on what learn() returns and does (priorities = per-sample losses,
loss, updated weights): streams that differ only in what FOLLOWS a terminal step give identical
results; a changed pre-terminal reward / a changed next_obs of a non-terminal last step changes
exactly the samples whose summed steps contain it (sensitivity + locality).
"""
from __future__ import annotations

import atexit
import json
import os
import random
import shutil
import tempfile
import time
from fractions import Fraction
from pathlib import Path

import numpy as np
import torch

from common import ROOT, Check, InfraError, ddmin, frac

GAMMAS = [(1, 2), (1, 2), (1, 2), (1, 4), (3, 4), (1, 1)]      # 1/2 most of the time; all exact in float32
STRIDE = 16                                                     # code(t, e) = 16 t + e + 1, e < 8
NXT = 8                                                         # next_obs code = code + 8
ACT = 1000                                                      # action code = code + 1000


def code(t: int, e: int) -> int:
    return STRIDE * t + e + 1


# ----------------------------------------------------------------------------- episode-end keys
# A transition may carry several of the keys the n-step buffer recognises as episode end
# (`done`, `termination`, `terminated`; first present one in that order is used) plus `truncated`.
# A cell of the stream is [reward, done] or [reward, done, truncation_only]; with
# case["keys"] = list of keys present in every transition:  done = terminated | truncated,
# termination = terminated = done & ~truncation_only,  truncated = done & truncation_only.
END_PRIORITY = ("done", "termination", "terminated")


def end_key(case) -> str:
    keys = case.get("keys") or ["done"]
    return next(k for k in END_PRIORITY if k in keys)


def cell_flags(case, cell) -> dict:
    d = bool(cell[1])
    tr = d and len(cell) > 2 and bool(cell[2])
    return {"done": d, "termination": d and not tr, "terminated": d and not tr, "truncated": tr}


def eff_steps(case):
    """the stream as [reward, episode end] with the episode end the buffer has to follow"""
    k = end_key(case)
    if k == "done":
        return [[[c[0], int(bool(c[1]))] for c in row] for row in case["steps"]]
    return [[[c[0], int(cell_flags(case, c)[k])] for c in row] for row in case["steps"]]


# ----------------------------------------------------------------------------- the real code
def make_transition(t: int, row, unvec: bool, case=None):
    """row = [[reward, done], ...] per environment — built the way train_off_policy builds it"""
    from agilerl.components.data import Transition
    row_full, row = row, [c[:2] for c in row]
    m = len(row)
    obs = np.array([[code(t, e)] * 2 for e in range(m)], dtype=np.float32)
    nxt = obs + NXT
    act = np.array([ACT + code(t, e) for e in range(m)], dtype=np.int64)
    rew = np.array([float(Fraction(*r)) for r, _ in row], dtype=np.float64)
    done = np.array([bool(d) for _, d in row])
    if unvec:
        # un-vectorised environment: no batch axis, scalar action / reward, `done = np.array([done])`
        tr = Transition(obs=obs[0], action=act[0], reward=float(rew[0]), next_obs=nxt[0], done=done[:1])
        tr = tr.unsqueeze(0)
    else:
        tr = Transition(obs=obs, action=act, reward=rew, next_obs=nxt, done=done)
    td = tr.to_tensordict()
    td.batch_size = [m]
    keys = (case or {}).get("keys")
    if keys:                                   # further episode-end keys, same shape / dtype as `done`
        shape, dtype = td["done"].shape, td["done"].dtype
        flags = [cell_flags(case, c) for c in row_full]
        for k in keys:
            if k != "done":
                td[k] = torch.tensor([float(f[k]) for f in flags], dtype=dtype).reshape(shape)
        if "done" not in keys:
            del td["done"]
    return td


def decode_cell(row, dkey: str = "done") -> str:
    """one stored record -> 'obs,act,rew,nxt,done' (the model's wire format) or MIXED"""
    def uniq(x):
        v = torch.unique(x.reshape(-1).to(torch.float64)).tolist()
        return v[0] if len(v) == 1 else None
    o, a, r, x, d = (uniq(row[k]) for k in ("obs", "action", "reward", "next_obs", dkey))
    if None in (o, a, r, x, d) or o != int(o) or a != int(a) or x != int(x) or d not in (0.0, 1.0):
        return "MIXED"
    return f"{int(o)},{int(a)},{frac(r)},{int(x)},{int(d)}"


def decode_storage(buf, dkey: str = "done") -> list[str]:
    n = len(buf)
    return [decode_cell(buf.storage[j], dkey) for j in range(n)]


def pairs_line(ncells: list[str], ocells: list[str]) -> str:
    """slot-aligned pairs, sorted (independent of where the ring puts a record)"""
    if len(ncells) != len(ocells):
        return f"LEN {len(ncells)} {len(ocells)}"
    def key(p):
        h = p[0].split(",")[0]
        return (int(h) if h.isdigit() else -1, p)
    return " ".join(f"{a}|{b}" for a, b in sorted(zip(ncells, ocells), key=key))


def run_impl(case, case_seed: int):
    """drive the real buffers; returns (observable lines, oracle problems)"""
    from agilerl.components.replay_buffer import (MultiStepReplayBuffer, PrioritizedReplayBuffer,
                                                  ReplayBuffer)
    from agilerl.components.sampler import Sampler
    torch.manual_seed(case_seed)
    np.random.seed(case_seed % (1 << 31))
    random.seed(case_seed)
    n, m, cap = case["n"], case["m"], case["cap"]
    g = Fraction(*case["gamma"])
    steps = case["steps"]
    dkey = end_key(case)
    unvec = bool(case.get("unvec")) and m == 1
    nb = MultiStepReplayBuffer(max_size=cap, n_step=n, gamma=float(g))
    mb = PrioritizedReplayBuffer(max_size=cap, alpha=0.6) if case.get("mem") == "per" else ReplayBuffer(max_size=cap)
    lines, problems = ["ok"], []
    dumps = set(case.get("dumps", []))
    for t, row in enumerate(steps):
        one = nb.add(make_transition(t, row, unvec, case))
        if one is not None:
            mb.add(one)
        ncells, ocells = decode_storage(nb, dkey), decode_storage(mb, dkey)
        if one is None:
            lines.append("-")
        else:
            # the record just stored for each environment = the one whose obs is (t-n+1, e)
            by_obs = {c.split(",")[0]: c for c in ncells}
            fused = [by_obs.get(str(code(t - n + 1, e)), "MISSING") for e in range(m)]
            ret = [decode_cell(one[e], dkey) for e in range(m)]
            lines.append(" ".join(fused) + " | " + " ".join(ret))
        # the property is evaluated after every call (a bad record may be overwritten later)
        for msg in oracle(case, t + 1, ncells, ocells):
            if msg not in problems:
                problems.append(msg)
        if t in dumps or t == len(steps) - 1:
            lines.append(pairs_line(ncells, ocells))
            lines.append(f"{len(nb)} {len(mb)} {len(nb.n_step_buffer)}")
    # sampling both buffers with the same indices, as the training loop does
    if len(mb) >= 1 and len(nb) == len(mb):
        k = min(len(mb), 4)
        sampler, n_sampler = Sampler(memory=mb), Sampler(memory=nb)
        exp = sampler.sample(k, 0.4) if case.get("mem") == "per" else sampler.sample(k, return_idx=True)
        nexp = n_sampler.sample(exp["idxs"])
        fields = ("obs", "action", "reward", "next_obs", dkey)
        for j in range(k):
            a = decode_cell({f: exp[f].reshape(k, -1)[j] for f in fields}, dkey)
            b = decode_cell({f: nexp[f].reshape(k, -1)[j] for f in fields}, dkey)
            if a == "MIXED" or b == "MIXED" or a.split(",")[:2] != b.split(",")[:2]:
                problems.append(f"sampling both buffers with the same indices gave 1-step {a} but n-step {b}")
    return lines, problems


# ----------------------------------------------------------------------------- property oracle
def oracle(case, seen: int, ncells: list[str], ocells: list[str]) -> list[str]:
    """the statement of C10 on the decoded storages after `seen` steps of the stream"""
    n, m, cap = case["n"], case["m"], case["cap"]
    g = Fraction(*case["gamma"])
    steps = eff_steps(case)[:seen]
    R = lambda t, e: Fraction(*steps[t][e][0])
    D = lambda t, e: int(bool(steps[t][e][1]))
    out = []
    if len(ncells) != len(ocells):
        out.append(f"n-step buffer holds {len(ncells)} records, 1-step buffer {len(ocells)}")
    K = max(0, seen - n + 1)                      # start positions whose window is complete
    starts = [(t, e) for t in range(K) for e in range(m)][-cap:]
    expect_codes = sorted(code(t, e) for t, e in starts)
    got_codes = []
    for j, nc in enumerate(ncells):
        if nc in ("MIXED", "MISSING"):
            out.append(f"slot {j}: n-step record does not decode ({nc})")
            continue
        o, a, r, x, d = nc.split(",")
        o, a, x, d, r = int(o), int(a), int(x), int(d), Fraction(r)
        t, e = (o - 1) // STRIDE, (o - 1) % STRIDE
        got_codes.append(o)
        if o < 1 or e >= m or t >= seen or a != ACT + o:
            out.append(f"slot {j}: n-step record {nc} does not start from an observed (obs, action) pair")
            continue
        # aligned 1-step record: the raw transition (t, e)
        if j < len(ocells):
            want = f"{o},{ACT + o},{frac_str(R(t, e))},{o + NXT},{D(t, e)}"
            if ocells[j] != want:
                out.append(f"slot {j}: n-step record starts at (step {t}, env {e}) but the 1-step record in the "
                           f"same slot is {ocells[j]} (expected {want})")
        # a legal number k of summed steps must explain reward, next_obs and done
        legal = []
        for k in range(1, n + 1):
            if t + k - 1 >= seen:
                break
            if any(D(t + i, e) for i in range(k - 1)):
                break                              # would sum past this environment's terminal step
            if k < n and not any(D(t + k - 1, e2) for e2 in range(m)):
                continue                           # nothing ends here: no reason to stop early
            legal.append(k)
        ok = False
        for k in legal:
            s = sum(g ** i * R(t + i, e) for i in range(k))
            if r == s and x == code(t + k - 1, e) + NXT and d == D(t + k - 1, e):
                ok = True
        if not ok:
            show = {k: (frac_str(sum(g ** i * R(t + i, e) for i in range(k))), code(t + k - 1, e) + NXT,
                        D(t + k - 1, e)) for k in legal}
            out.append(f"slot {j}: n-step record {nc} of (step {t}, env {e}) is not the discounted return of its "
                       f"own episode segment; legal (k: reward,next_obs,done) = {show}; "
                       f"dones of env {e} from step {t}: {[D(t + i, e) for i in range(min(n, seen - t))]}")
    if sorted(got_codes) != expect_codes:
        out.append(f"stored start pairs {sorted(got_codes)} != most recent complete windows {expect_codes}")
    return out


def frac_str(q: Fraction) -> str:
    return str(q.numerator) if q.denominator == 1 else f"{q.numerator}/{q.denominator}"


# ----------------------------------------------------------------------------- the model
def model_lines(case) -> list[str]:
    n, m, cap = case["n"], case["m"], case["cap"]
    g = Fraction(*case["gamma"])
    out = [f"nstep new {n} {frac_str(g)} {m} {cap} {cap} 1"]
    dumps = set(case.get("dumps", []))
    for t, row in enumerate(eff_steps(case)):
        cells = []
        for e, (r, d) in enumerate(row):
            c = code(t, e)
            cells += [str(c), str(ACT + c), frac_str(Fraction(*r)), str(c + NXT), "1" if d else "0"]
        out.append("nstep add " + " ".join(cells))
        if t in dumps or t == len(case["steps"]) - 1:
            out += ["nstep dump", "nstep len"]
    return out


def canon_model(lines: list[str], ops: list[str]) -> list[str]:
    out = []
    for op, ln in zip(ops, lines):
        if op == "nstep dump" and " | " in ln:
            a, b = ln.split(" | ", 1)
            out.append(pairs_line(a.split(), b.split()))
        else:
            out.append(ln)
    return out


def private_driver(chk: Check) -> None:
    """other checks rebuild `driver` in the shared lake workspace while this one runs (the executable
    disappears for a moment while it is relinked): work on a private copy taken once"""
    if getattr(chk.driver, "_c10_private", False):
        return
    shared = chk.driver.exe
    for _ in range(30):
        fd, tmp = tempfile.mkstemp(prefix="c10_driver_")
        os.close(fd)
        try:
            shutil.copy2(shared, tmp)
            os.chmod(tmp, 0o755)
            chk.driver.exe = Path(tmp)
            if chk.driver.run(["reset", "nstep len"]) == ["ok", "bad-op"]:
                chk.driver._c10_private = True
                atexit.register(lambda: os.path.exists(tmp) and os.unlink(tmp))
                return
        except (OSError, InfraError):
            pass
        chk.driver.exe = shared
        if os.path.exists(tmp):
            os.unlink(tmp)
        time.sleep(2)
    raise InfraError("C10: could not take a private copy of the driver executable")


def compare(case, impl, raw, ops):
    if any(x in ("bad-op", "reject") for x in raw):
        raise InfraError(f"C10: model refused a generated op: {[o for o, x in zip(ops, raw) if x in ('bad-op', 'reject')][:2]}")
    model = canon_model(raw, ops)
    if len(impl) != len(model):
        raise InfraError(f"C10: {len(impl)} implementation lines vs {len(model)} model lines")
    diff = next((i for i, (a, b) in enumerate(zip(impl, model)) if a != b), None)
    return diff, model


def one_case(chk: Check, case, case_seed: int):
    """returns (index of first differing line or None, oracle problems, impl lines, model lines)"""
    private_driver(chk)
    try:
        impl, problems = run_impl(case, case_seed)
    except Exception as e:   # the implementation raised on a legal stream
        return None, [f"implementation raised {type(e).__name__}: {e}"], [], []
    ops = model_lines(case)
    raw = chk.driver.run(["reset"] + ops)[1:]
    diff, model = compare(case, impl, raw, ops)
    return diff, problems, impl, model


def many_cases(chk: Check, cases):
    """same as one_case for a list of (case, seed), with a single driver process per 200 cases"""
    private_driver(chk)
    out = []
    for lo in range(0, len(cases), 200):
        chunk, impls, all_ops, spans = cases[lo:lo + 200], [], [], []
        for case, cs in chunk:
            try:
                impls.append(run_impl(case, cs))
            except Exception as e:
                impls.append(([], [f"implementation raised {type(e).__name__}: {e}"]))
            ops = model_lines(case)
            spans.append((len(all_ops) + 1, ops))
            all_ops += ["reset"] + ops
        raw_all = chk.driver.run(all_ops)
        for (impl, problems), (start, ops) in zip(impls, spans):
            if not impl:
                out.append((None, problems, [], []))
                continue
            diff, model = compare(None, impl, raw_all[start:start + len(ops)], ops)
            out.append((diff, problems, impl, model))
    return out


# ----------------------------------------------------------------------------- generation
def gen_reward(rng: random.Random):
    r = rng.random()
    if r < 0.08:
        return [0, 1]
    num = rng.choice([-1, 1]) * rng.randint(1, 8)
    return [num, rng.choice([1, 1, 1, 2, 4])]


def gen_case(rng: random.Random, tier: str):
    n = rng.choice([1, 2, 3, 3, 4, 5])
    m = rng.choice([1, 1, 2, 3, 4])
    cap = rng.choice([m, m + 1, 2 * m, 2 * m + 1, 3 * m + 2, rng.randint(m, 4 * m + 3)])
    emissions = rng.randint(1, (3 * cap) // m + 3)          # enough records for both buffers to wrap
    T = n - 1 + emissions
    if rng.random() < 0.07:
        T = rng.randint(1, n)                               # window (almost) never fills
    mode = rng.choice(["random", "random", "every-pos", "consecutive", "staggered", "all-together", "never", "dense"])
    done = [[0] * m for _ in range(T)]
    if mode == "random":
        p = rng.choice([0.1, 0.25, 0.4])
        for t in range(T):
            for e in range(m):
                done[t][e] = int(rng.random() < p)
    elif mode == "dense":
        for t in range(T):
            for e in range(m):
                done[t][e] = int(rng.random() < 0.7)
    elif mode == "every-pos":
        # one end every n+1 steps: it lands on every position of some window, including position 0
        off = rng.randrange(n + 1)
        for t in range(T):
            if (t + off) % (n + 1) == 0:
                done[t][rng.randrange(m)] = 1
    elif mode == "consecutive":
        t = rng.randrange(max(1, T))
        while t < T:
            e = rng.randrange(m)
            for i in range(rng.randint(2, 3)):
                if t + i < T:
                    done[t + i][e if rng.random() < 0.6 else rng.randrange(m)] = 1
            t += rng.randint(3, n + 4)
    elif mode == "staggered":
        for e in range(m):
            period = rng.randint(2, n + 2)
            off = rng.randrange(period)
            for t in range(T):
                if (t + off) % period == 0:
                    done[t][e] = 1
    elif mode == "all-together":
        period = rng.randint(1, n + 2)
        for t in range(T):
            if t % period == period - 1:
                done[t] = [1] * m
    steps = [[[gen_reward(rng), done[t][e]] for e in range(m)] for t in range(T)]
    case = {"n": n, "m": m, "cap": cap, "gamma": list(rng.choice(GAMMAS)), "steps": steps,
            "unvec": m == 1 and rng.random() < 0.5, "mem": "per" if rng.random() < 0.25 else "uniform",
            "dumps": sorted({rng.randrange(T) for _ in range(2)}) if T > 2 else [], "mode": mode}
    return case


KEY_SETS = [["done", "terminated"], ["done", "termination"], ["done", "truncated"],
            ["done", "terminated", "truncated"], ["done", "termination", "terminated", "truncated"],
            ["termination", "terminated"], ["termination", "truncated"], ["terminated", "truncated"],
            ["terminated"], ["termination"]]


def add_keys(case, krng: random.Random):
    """in a third of the cases the transitions carry several episode-end keys with different values
    (done = terminated | truncated; about half of the ends are truncation-only)"""
    if krng.random() >= 0.34:
        return case
    case = dict(case, keys=list(krng.choice(KEY_SETS)))
    ends = [c for row in case["steps"] for c in row if c[1]]
    for c in ends:
        if krng.random() < 0.5:
            c.append(1)
    if ends and not any(len(c) > 2 for c in ends):
        krng.choice(ends).append(1)
    return case


def tags_of(case) -> tuple[list[str], bool]:
    n, m, cap, steps = case["n"], case["m"], case["cap"], case["steps"]
    T = len(steps)
    steps = eff_steps(case)
    anyd = [any(d for _, d in row) for row in steps]
    tags = [f"n={n}", f"envs={m}", f"mode-{case.get('mode', 'corpus')}", f"mem-{case.get('mem', 'uniform')}",
            "unvectorised" if case.get("unvec") and m == 1 else "vectorised"]
    K = max(0, T - n + 1)
    cut = False
    for t in range(K):
        pos = next((i for i in range(n) if anyd[t + i]), None)
        tags.append("cut-none" if pos is None else f"done-at-window-pos-{pos}")
        cut |= pos is not None and pos < n - 1
        if pos == 0 and n > 1:
            tags.append("window-starts-on-terminal-row")
    if any(anyd[t] and anyd[t + 1] for t in range(T - 1)):
        tags.append("consecutive-ends")
    if m > 1 and any(0 < sum(1 for _, d in row if d) < m for row in steps):
        tags.append("envs-end-at-different-times")
    if K * m > cap:
        tags.append("both-buffers-wrapped")
        if cap % m:
            tags.append("wrap-splits-a-batch")
    if K == 0:
        tags.append("window-never-full")
    if case.get("keys"):
        tags.append("end-keys-" + "+".join(case["keys"]))
        if any(len(c) > 2 and c[1] and c[2] for row in case["steps"] for c in row):
            tags.append("truncation-only-end")
    return tags, cut or K * m > cap


# ----------------------------------------------------------------------------- shrinking
def shrink(chk: Check, case, case_seed: int, by_oracle: bool):
    def fails(c):
        d, p, *_ = one_case(chk, c, case_seed)
        return bool(p) if by_oracle else d is not None

    def with_steps(steps):
        c = dict(case, steps=steps, dumps=[])
        return c
    small = with_steps(ddmin(case["steps"], lambda s: fails(with_steps(s))))
    # fewer environments
    e = small["m"] - 1
    while e >= 0 and small["m"] > 1:
        cand = dict(small, m=small["m"] - 1, steps=[row[:e] + row[e + 1:] for row in small["steps"]])
        if fails(cand):
            small = cand
        e -= 1
    # plainer numbers
    for t in range(len(small["steps"])):
        for e in range(small["m"]):
            for simple in ([1, 1], [10 ** min(t, 3), 1]):
                if small["steps"][t][e][0] != simple:
                    cand = json.loads(json.dumps(small))
                    cand["steps"][t][e][0] = simple
                    if fails(cand):
                        small = cand
            if small["steps"][t][e][1]:
                cand = json.loads(json.dumps(small))
                cand["steps"][t][e][1] = 0
                if fails(cand):
                    small = cand
    for n2 in range(1, small["n"]):            # the smallest n that still shows it
        cand = dict(small, n=n2)
        if fails(cand):
            cand = dict(cand, steps=ddmin(cand["steps"], lambda st: fails(dict(cand, steps=st))))
            small = cand
            break
    for cap2 in (small["m"], small["m"] + 1):
        if cap2 < small["cap"] and fails(dict(small, cap=cap2)):
            small = dict(small, cap=cap2)
            break
    if small.get("keys"):
        cand = {k: v for k, v in small.items() if k != "keys"}
        if fails(cand):
            small = cand
    for key, val in (("mem", "uniform"), ("unvec", False), ("gamma", [1, 2])):
        cand = dict(small, **{key: val})
        if cand != small and fails(cand):
            small = cand
    return small


def report(chk: Check, case, case_seed: int, diff, problems, impl, model) -> None:
    small = shrink(chk, case, case_seed, by_oracle=bool(problems))
    d2, p2, impl2, model2 = one_case(chk, small, case_seed)
    replay = {"case": small, "seed": case_seed, "impl": impl2, "model": model2,
              "oracle_problems": p2 or problems, "diff_at": d2,
              "how": "steps[t][env] = [[reward numerator, denominator], done(, truncation-only)]; with case.keys every "
                     "transition carries those episode-end keys (done = terminated|truncated, termination = terminated = "
                     "done & not truncation-only) and the buffer has to follow the first of done/termination/terminated "
                     "that is present; obs code = 16*t + env + 1, "
                     "action = obs + 1000, next_obs = obs + 8; cells are obs,action,reward,next_obs,done",
              "correspondence": "harness/c10.py vs Model/NStep.lean (fixed = true)",
              "theorems": chk.gate["theorems"]}
    seen = chk.__dict__.setdefault("_c10_reported", [])
    if small in seen:                       # shrinks to a failure that is already reported
        chk.notes.append("another failing case shrinks to the replay already reported")
        return
    seen.append(small)
    if problems:
        chk.violation((p2 or problems)[0], replay)
    else:
        chk.violation(f"implementation and NStep model disagree at line {diff}: impl={impl[diff]!r} "
                      f"model={model[diff]!r}; property oracle holds on this case and its shrinks",
                      replay, no_input=True)


# ----------------------------------------------------------------------------- train-loop suite
# The suites above drive the two buffers themselves.  This one runs the REAL `train_off_policy`
# with a tiny RainbowDQN on a scripted vector environment whose observation is (env id, call
# counter) and looks at what the learner is handed: for every `agent.learn(experiences,
# n_experiences)` call, row i of both batches must describe the same (obs, action), the 1-step row
# must be the raw transition and the n-step row a legal fusion of what followed it in the stream
# that `n_step_memory.add` received.

_LOOP_ENV = {}


def _loop_env_class():
    if "cls" not in _LOOP_ENV:
        import gymnasium as gym
        from gymnasium import spaces

        class ProvenanceEnv(gym.Env):
            """every reset/step call produces a fresh observation [env id, call counter];
            rewards are small integers, episodes have a fixed length"""

            def __init__(self, env_id: int, ep_len: int):
                self.observation_space = spaces.Box(-1e6, 1e6, (2,), np.float32)
                self.action_space = spaces.Discrete(2)
                self.env_id, self.ep_len, self.c, self.t = env_id, ep_len, 0, 0

            def _obs(self):
                return np.array([self.env_id, self.c], dtype=np.float32)

            def reset(self, seed=None, options=None):
                self.c += 1
                self.t = 0
                return self._obs(), {}

            def step(self, action):
                self.c += 1
                self.t += 1
                return self._obs(), float((self.c * 5 + self.env_id) % 7 - 3), self.t >= self.ep_len, False, {}

        _LOOP_ENV["cls"] = ProvenanceEnv
    return _LOOP_ENV["cls"]


def _obs_code(x) -> int | None:
    """[env id, counter] -> 4 * counter + env id + 1 (a Nat for the model's wire format)"""
    v = x.reshape(-1).to(torch.float64).tolist()
    if len(v) != 2 or v[0] != int(v[0]) or v[1] != int(v[1]) or not (0 <= v[0] < 4) or v[1] < 0:
        return None
    return 4 * int(v[1]) + int(v[0]) + 1


def _loop_cell(row):
    """(obs code, action, reward, next_obs code, done) of one transition, or None"""
    try:
        o, x = _obs_code(row["obs"]), _obs_code(row["next_obs"])
        a = row["action"].reshape(-1).to(torch.float64).tolist()
        r = row["reward"].reshape(-1).to(torch.float64).tolist()
        d = row["done"].reshape(-1).to(torch.float64).tolist()
    except Exception:
        return None
    if o is None or x is None or len(a) != 1 or len(r) != 1 or len(d) != 1 or a[0] != int(a[0]) or d[0] not in (0.0, 1.0):
        return None
    return (o, int(a[0]), Fraction(r[0]), x, int(d[0]))


def _cell_str(c) -> str:
    return "MIXED" if c is None else f"{c[0]},{c[1]},{frac_str(c[2])},{c[3]},{c[4]}"


def _legal_fusion(stream, t: int, e: int, n: int, g: Fraction, rec) -> bool:
    """is `rec` the discounted return of k steps from stream position (t, e) for a legal k?"""
    seen, m = len(stream), len(stream[t])
    for k in range(1, n + 1):
        if t + k - 1 >= seen:
            break
        if any(stream[t + i][e][4] for i in range(k - 1)):
            break
        last = stream[t + k - 1]
        if k < n and not any(c[4] for c in last):
            continue
        s = sum(g ** i * stream[t + i][e][2] for i in range(k))
        if rec[2] == s and rec[3] == last[e][3] and rec[4] == last[e][4]:
            return True
    return False


class _LoopTimeout(Exception):
    pass


def loop_config(rng: random.Random, per: bool, tier: str) -> dict:
    m = 2 if tier == "quick" or rng.random() < 0.7 else 3
    batch = rng.choice([3, 4])
    return {"kind": "train-loop", "per": per, "envs": m, "n": rng.choice([2, 3, 3, 4]),
            "cap": rng.choice([c for c in (6, 7, 8, 9, 10) if c >= max(batch, m)]), "batch": batch,
            "learn_step": rng.choice([1, 1, 2, 4]), "pop": rng.choice([1, 1, 2]),
            "max_steps": rng.choice([120, 160, 200]), "evo_steps": rng.choice([40, 60]),
            "ep_lens": [rng.randint(2, 9) for _ in range(m)], "seed": rng.randrange(1 << 30)}


def run_loop(cfg: dict, fault: str | None = None, guard_s: float = 90.0) -> dict:
    """run the real train_off_policy; returns stream, learn-call statistics, problems, final storages"""
    import contextlib
    import io
    import signal

    import gymnasium as gym
    from agilerl.algorithms.dqn_rainbow import RainbowDQN
    from agilerl.components.replay_buffer import (MultiStepReplayBuffer, PrioritizedReplayBuffer,
                                                  ReplayBuffer)
    from agilerl.training.train_off_policy import train_off_policy

    seed, m, n, cap, per = cfg["seed"], cfg["envs"], cfg["n"], cfg["cap"], cfg["per"]
    g = Fraction(1, 2)
    torch.manual_seed(seed)
    np.random.seed(seed % (1 << 31))
    random.seed(seed)
    Env = _loop_env_class()
    env = gym.vector.SyncVectorEnv([(lambda i=i: Env(i, cfg["ep_lens"][i])) for i in range(m)])
    pop = [RainbowDQN(env.single_observation_space, env.single_action_space, index=i,
                      net_config={"encoder_config": {"hidden_size": [16]}, "head_config": {"hidden_size": [16]}},
                      batch_size=cfg["batch"], learn_step=cfg["learn_step"], n_step=n, gamma=0.5, num_atoms=5,
                      v_min=-6.0, v_max=6.0, combined_reward=True) for i in range(cfg["pop"])]
    mb = PrioritizedReplayBuffer(cap, alpha=0.6) if per else ReplayBuffer(cap)
    nb = MultiStepReplayBuffer(cap, n_step=n, gamma=float(g))

    stream, where = [], {}                 # rows handed to n_step_memory.add; obs code -> (t, e)
    res = {"learn_calls": 0, "calls_after_wrap": 0, "bad_calls": 0, "problems": [], "first_bad": []}

    nb_add = nb.add

    def recording_add(data):
        row = [_loop_cell(data[e]) for e in range(data.shape[0])]
        t = len(stream)
        stream.append(row)
        for e, c in enumerate(row):
            if c is not None:
                where[c[0]] = (t, e)
        return nb_add(data)
    nb.add = recording_add

    if fault == "lagging-main-buffer":      # seeded fault: the main buffer is one write behind
        mb_add, pending = mb.add, []

        def lagging_add(data):
            pending.append(data.clone())
            if len(pending) > 1:
                mb_add(pending.pop(0))
        mb.add = lagging_add

    fields = ("obs", "action", "reward", "next_obs", "done")

    def note(call: int, msg: str, detail: dict):
        if msg not in res["problems"]:
            res["problems"].append(msg)
        if len(res["first_bad"]) < 6:
            res["first_bad"].append(dict(detail, learn_call=call, what=msg))

    def check_batches(experiences, n_experiences):
        res["learn_calls"] += 1
        call = res["learn_calls"]
        wrapped = nb.counter > cap
        res["calls_after_wrap"] += wrapped
        if n_experiences is None:
            note(call, "agent.learn was called without an n-step batch although n_step=True", {})
            res["bad_calls"] += 1
            return
        k = experiences["obs"].shape[0]
        idxs = experiences["idxs"].reshape(-1).tolist() if "idxs" in experiences.keys() else [None] * k
        bad = False
        for i in range(k):
            try:
                one = _loop_cell({f: experiences[f].reshape(k, -1)[i] for f in fields})
                nst = _loop_cell({f: n_experiences[f].reshape(k, -1)[i] for f in fields})
            except Exception as ex:
                one = nst = None
                note(call, f"batches handed to learn() cannot be read row by row ({type(ex).__name__})", {})
            ctx = {"row": i, "buffer_index": idxs[i] if i < len(idxs) else None, "one_step": _cell_str(one),
                   "n_step": _cell_str(nst), "main_buffer_counter": mb.counter, "n_step_buffer_counter": nb.counter,
                   "after_wrap": bool(wrapped)}
            if one is None or nst is None:
                note(call, "a row handed to learn() does not decode to one transition", ctx)
                bad = True
                continue
            if one[0] not in where or stream[where[one[0]][0]][where[one[0]][1]] != one:
                note(call, "the 1-step row handed to learn() is not a transition of the stream", ctx)
                bad = True
            if (nst[0], nst[1]) != (one[0], one[1]):
                note(call, "learn() received a 1-step row and an n-step row with different (obs, action) at the "
                           "same batch position", ctx)
                bad = True
            if nst[0] not in where or not _legal_fusion(stream, *where[nst[0]], n, g, nst):
                note(call, "the n-step row handed to learn() is not the discounted return of its own episode "
                           "segment", ctx)
                bad = True
        res["bad_calls"] += bad

    last_idxs = {"sampled": None, "updates": 0}

    for agent in pop:
        def wrapped_learn(experiences, n_experiences=None, per=False, _orig=agent.learn, **kw):
            check_batches(experiences, n_experiences)
            last_idxs["sampled"] = (experiences["idxs"].reshape(-1).tolist()
                                    if "idxs" in experiences.keys() else None)
            return _orig(experiences, n_experiences=n_experiences, per=per, **kw)
        agent.learn = wrapped_learn          # instance attribute: the class is left untouched

    if per:                                  # the priorities must go to the indices that were sampled
        mb_update = mb.update_priorities

        def recording_update(indices, priorities):
            last_idxs["updates"] += 1
            got = torch.as_tensor(indices).reshape(-1).tolist()
            if got != last_idxs["sampled"]:
                note(res["learn_calls"], "memory.update_priorities received other indices than the ones sampled for "
                                         "this learn() call", {"updated": got, "sampled": last_idxs["sampled"]})
                res["bad_calls"] += 1
            return mb_update(indices, priorities)
        mb.update_priorities = recording_update

    def on_alarm(signum, frame):
        raise _LoopTimeout()
    threads = torch.get_num_threads()
    torch.set_num_threads(1)                 # tiny networks: more threads only cost time
    old = signal.signal(signal.SIGALRM, on_alarm)
    signal.setitimer(signal.ITIMER_REAL, guard_s)
    try:
        with contextlib.redirect_stdout(io.StringIO()), contextlib.redirect_stderr(io.StringIO()):
            train_off_policy(env, "ProvenanceEnv", "Rainbow DQN", pop, mb, max_steps=cfg["max_steps"],
                             evo_steps=cfg["evo_steps"], eval_steps=3, eval_loop=1, n_step=True, per=per,
                             n_step_memory=nb, tournament=None, mutation=None, wb=False, verbose=False)
    except _LoopTimeout:
        raise InfraError(f"C10 train-loop suite: train_off_policy did not finish within {guard_s:.0f} s")
    except Exception as ex:
        note(res["learn_calls"], f"train_off_policy raised {type(ex).__name__}: {ex}"[:300], {})
    finally:
        signal.setitimer(signal.ITIMER_REAL, 0)
        signal.signal(signal.SIGALRM, old)
        torch.set_num_threads(threads)
        for agent in pop:
            agent.__dict__.pop("learn", None)
        try:
            env.close()
        except Exception:
            pass
    if per and not res["problems"] and last_idxs["updates"] != res["learn_calls"]:
        note(res["learn_calls"], f"{res['learn_calls']} learn() calls with PER but {last_idxs['updates']} "
                                 f"memory.update_priorities calls", {})
    res["stream"] = stream
    res["ncells"] = [_cell_str(_loop_cell(nb.storage[j])) for j in range(len(nb))] if nb.storage is not None else []
    res["ocells"] = [_cell_str(_loop_cell(mb.storage[j])) for j in range(len(mb))] if mb.storage is not None else []
    res["sizes"] = f"{len(nb)} {len(mb)} {len(nb.n_step_buffer)}"
    return res


def loop_model_ops(cfg: dict, stream) -> list[str] | None:
    if any(c is None for row in stream for c in row):
        return None
    ops = [f"nstep new {cfg['n']} 1/2 {cfg['envs']} {cfg['cap']} {cfg['cap']} 1"]
    for row in stream:
        ops.append("nstep add " + " ".join(f"{c[0]} {c[1]} {frac_str(c[2])} {c[3]} {c[4]}" for c in row))
    return ops + ["nstep dump", "nstep len"]


def loop_case(chk: Check, cfg: dict, fault: str | None = None):
    """returns (result dict, differs-from-model: bool)"""
    private_driver(chk)
    res = run_loop(cfg, fault)
    ops = loop_model_ops(cfg, res["stream"])
    if ops is None:
        res["problems"].append("a transition handed to n_step_memory.add does not decode")
        return res, False
    raw = chk.driver.run(["reset"] + ops)[1:]
    if any(x in ("bad-op", "reject") for x in raw):
        raise InfraError("C10 train-loop suite: model refused the recorded stream")
    model = canon_model(raw, ops)[-2:]
    impl = [pairs_line(res["ncells"], res["ocells"]), res["sizes"]]
    res["impl_final"], res["model_final"] = impl, model
    return res, impl != model


def loop_replay_obj(cfg, res) -> dict:
    return {"case": cfg, "seed": cfg["seed"], "learn_calls": res["learn_calls"],
            "learn_calls_after_wrap": res["calls_after_wrap"], "bad_learn_calls": res["bad_calls"],
            "first_bad": res["first_bad"], "oracle_problems": res["problems"],
            "final_storages_impl": res.get("impl_final"), "final_storages_model": res.get("model_final"),
            "how": "real train_off_policy + RainbowDQN on a scripted vector env; obs code = 4*counter + env + 1; "
                   "cells are obs,action,reward,next_obs,done; one_step / n_step are row i of the two batches "
                   "handed to agent.learn",
            "correspondence": "harness/c10.py (train-loop suite) vs Model/NStep.lean (fixed = true)"}


def loop_suite(chk: Check) -> None:
    rng = chk.rng
    runs = 4 if chk.tier == "quick" else 16
    ndiff = 0
    for i in range(runs):
        cfg = loop_config(rng, per=bool(i % 2), tier=chk.tier)
        res, differs = loop_case(chk, cfg)
        if (res["learn_calls"] < 10 or res["calls_after_wrap"] < 5) and chk.violations:
            # e.g. a buffer that never stores anything: already reported with a replay by the stream suite
            chk.notes.append(f"train-loop suite skipped: {res['learn_calls']} learn calls on a tree that already "
                             f"violates the property in the stream suite")
            break
        if res["learn_calls"] < 10 or res["calls_after_wrap"] < 5:
            raise InfraError(f"C10 train-loop suite is blind: {res['learn_calls']} learn calls, "
                             f"{res['calls_after_wrap']} after wrap-around for {cfg}")
        chk.case(cfg, nontrivial=True,
                 sample={"train_loop": {k: cfg[k] for k in ("per", "envs", "n", "cap", "batch", "learn_step", "pop")},
                         "learn_calls": res["learn_calls"], "after_wrap": res["calls_after_wrap"],
                         "stream_rows": len(res["stream"])},
                 tags=["loop-per" if cfg["per"] else "loop-uniform", f"loop-learn-step-{cfg['learn_step']}",
                       f"loop-pop-{cfg['pop']}"])
        chk.dist["loop-learn-calls"] += res["learn_calls"]
        chk.dist["loop-learn-calls-after-wrap"] += res["calls_after_wrap"]
        if not res["problems"] and not differs:
            continue
        ndiff += differs
        # smaller run that still shows it
        small, sres = cfg, res
        for cand in (dict(cfg, pop=1), dict(cfg, pop=1, max_steps=80, evo_steps=40),
                     dict(cfg, pop=1, max_steps=40, evo_steps=40)):
            try:
                r2, d2 = loop_case(chk, cand)
            except InfraError:
                continue
            if bool(r2["problems"]) == bool(res["problems"]) and (r2["problems"] or d2):
                small, sres = cand, r2
        if res["problems"]:
            fb = (sres["first_bad"] or [{}])[0]
            chk.violation(f"train_off_policy: {sres['problems'][0]} — {sres['bad_calls']} of {sres['learn_calls']} "
                          f"learn() calls; first: call {fb.get('learn_call')} row {fb.get('row')} buffer index "
                          f"{fb.get('buffer_index')}: 1-step {fb.get('one_step')} vs n-step {fb.get('n_step')}",
                          loop_replay_obj(small, sres))
        else:
            chk.violation(f"train_off_policy: final storages differ from the NStep model fed with the same stream: "
                          f"impl={sres['impl_final']} model={sres['model_final']}; every batch handed to learn() "
                          f"was aligned and legal", loop_replay_obj(small, sres), no_input=True)
        break                                # one replay is enough
    chk.suite("train-loop", runs, ndiff)


# ----------------------------------------------------------------------------- consumer suite
# The n-step record is only as good as its consumer.  This suite fills the real 1-step (uniform / prioritised)
# and n-step buffers from a scripted stream, samples them the way train_off_policy does and calls the REAL
# `RainbowDQN.learn` (per on/off, combined_reward on/off, n >= 2) on identically seeded agents for variants
# of the stream, and checks black-box (metamorphic) relations on what learn() returns and does:
#   A vs B  B differs from A ONLY in what follows a terminal step: the observation returned after every
#           terminal step (next_obs of a done cell) and every row behind the last terminal row of the
#           stream.  Per-sample losses / priorities, the loss and the updated weights must be identical.
#   A vs C  C differs in one PRE-terminal reward inside a window: exactly the samples whose summed rows
#           contain that step must change (sensitivity + locality: no other sample may change).
#   A vs D  D differs in the next_obs of the last summed step of a window that did NOT end: the samples
#           that bootstrap from it must change, no other.
# Stream layout: rows 0..t* (episode ends anywhere, row t*-1 free of ends, row t* terminal in >= 1 env),
# then n-1 rows that belong to the next episode(s); so every stored record starts at or before t*.

CONS_TOL = 5e-5        # float32 noise (the masked bootstrap sums a distribution to 1 +- 1e-7)
CONS_MIN = 2e-4        # a change that counts as "the output depends on it"
CONS_SAME = 2e-6       # outputs of identical computations are bitwise equal; anything above this is a dependence
CONS_PERTURB = 0.15    # seeded perturbation of the freshly initialised networks (see make_agent)
CONS_CLAMP = 1e-3      # DuelingDistributionalMLP clamps the softmax output at 1e-3: where that is active the
                       # target distribution no longer sums to exactly 1 and even a masked bootstrap leaks up to
                       # num_atoms * 1e-3 (relative) of the post-terminal observation into the loss


def consumer_config(rng: random.Random, per: bool, combined: bool) -> dict:
    n = rng.choice([2, 3, 3, 4])
    m = rng.choice([1, 2, 2, 3])
    tstar = rng.randint(max(2, n - 1), n + 5)
    p = rng.choice([0.15, 0.3, 0.5])
    vals = [[-1, 1], [-1, 2], [0, 1], [1, 2], [1, 1], [3, 4]]
    steps = [[[rng.choice(vals), int(rng.random() < p)] for _ in range(m)] for _ in range(tstar + n)]
    for e in range(m):
        steps[tstar - 1][e][1] = 0                     # the step before t* ends nothing …
        steps[tstar][e][1] = int(rng.random() < 0.5)
    steps[tstar][0][1] = 1                             # … and env 0 ends at t*
    return {"kind": "consumer", "per": per, "combined": combined, "n": n, "m": m, "tstar": tstar,
            "steps": steps, "cap_extra": rng.choice([0, 0, 1, 5]), "seed": rng.randrange(1 << 30)}


def _cons_tables(cfg, variant: str):
    """observations / actions / rewards / dones of the stream for one variant (arrays [T, m, …])"""
    m, tstar, steps = cfg["m"], cfg["tstar"], cfg["steps"]
    T = len(steps)
    g = np.random.default_rng(cfg["seed"])
    q = lambda a: np.round(a * 8) / 8
    obs = q(g.normal(size=(T, m, 3))).astype(np.float32)
    nxt = q(g.normal(size=(T, m, 3))).astype(np.float32)
    for t in range(T):
        for e in range(m):
            obs[t, e, 0] = (t * m + e) / 8.0            # provenance: start position of the record
    act = g.integers(0, 2, size=(T, m))
    rew = np.array([[float(Fraction(*steps[t][e][0])) for e in range(m)] for t in range(T)])
    done = np.array([[bool(steps[t][e][1]) for e in range(m)] for t in range(T)])
    note = {}
    if variant == "B":
        h = np.random.default_rng(cfg["seed"] + 1)
        alt = q(3.0 * h.normal(size=(T, m, 3))).astype(np.float32)
        for t in range(tstar + 1):
            for e in range(m):
                if done[t, e]:
                    nxt[t, e] = alt[t, e]               # the observation that follows a terminal step
        for t in range(tstar + 1, T):                   # the next episode(s)
            obs[t] = q(3.0 * h.normal(size=(m, 3)))
            nxt[t] = alt[t]
            act[t] = h.integers(0, 2, size=m)
            rew[t] = h.integers(-8, 9, size=m) / 4.0
            done[t] = h.random(m) < 0.5
    elif variant == "C":
        rew[tstar, 0] += 1.0                            # pre-terminal: the terminal step's own reward
        note = {"changed": [tstar, 0]}
    elif variant == "D":
        cell = _cons_boot_cell(cfg)
        if cell is None:
            return None
        nxt[cell[0], cell[1]] = -3.0 * nxt[cell[0], cell[1]] + 1.0
        note = {"changed": list(cell)}
    return obs, nxt, act, rew, done, note


def _cons_cut(cfg, s: int) -> int:
    """number of summed rows of the window starting at row s"""
    steps, n = cfg["steps"], cfg["n"]
    for k in range(1, n + 1):
        if any(d for _, d in steps[s + k - 1]):
            return k
    return n


def _cons_boot_cell(cfg):
    """(t, e): last summed step of some stored window that did not end there"""
    for s in range(cfg["tstar"] + 1):
        last = s + _cons_cut(cfg, s) - 1
        for e in range(cfg["m"]):
            if not cfg["steps"][last][e][1] and last <= cfg["tstar"]:
                return (last, e)
    return None


def _cons_run(cfg, variant: str, flatten: bool, single_rows: bool = False, learn_patch=None):
    """fill both real buffers with the variant's stream, sample like train_off_policy, call the real learn()"""
    from agilerl.algorithms.dqn_rainbow import RainbowDQN
    from agilerl.components.data import Transition
    from agilerl.components.replay_buffer import (MultiStepReplayBuffer, PrioritizedReplayBuffer,
                                                  ReplayBuffer)
    from agilerl.components.sampler import Sampler
    from gymnasium import spaces
    tab = _cons_tables(cfg, variant)
    if tab is None:
        return None
    obs, nxt, act, rew, done, note = tab
    n, m, per = cfg["n"], cfg["m"], cfg["per"]
    K = cfg["tstar"] + 1
    cap = K * m + cfg["cap_extra"]
    gamma = 0.9
    nb = MultiStepReplayBuffer(max_size=cap, n_step=n, gamma=gamma)
    mb = PrioritizedReplayBuffer(max_size=cap, alpha=0.6) if per else ReplayBuffer(max_size=cap)
    for t in range(len(cfg["steps"])):
        td = Transition(obs=obs[t], action=act[t].astype(np.int64), reward=rew[t].astype(np.float64),
                        next_obs=nxt[t], done=done[t]).to_tensordict()
        td.batch_size = [m]
        one = nb.add(td)
        if one is not None:
            mb.add(one)
    B = len(mb)

    def make_agent():
        torch.manual_seed(cfg["seed"] % (1 << 31))
        np.random.seed(cfg["seed"] % (1 << 31))
        random.seed(cfg["seed"])
        agent = RainbowDQN(spaces.Box(-20, 20, (3,), np.float32), spaces.Discrete(2),
                           net_config={"encoder_config": {"hidden_size": [16]}, "head_config": {"hidden_size": [16]}},
                           batch_size=B, lr=1e-2, learn_step=1, gamma=gamma, n_step=n, num_atoms=9, v_min=-6.0,
                           v_max=6.0, combined_reward=cfg["combined"])
        # Adam's step g/(|g|+eps) is not continuous at g = 0 for the default eps = 1e-8: rounding noise in a
        # vanishing gradient could flip a whole step.  A larger eps makes the update Lipschitz in the gradient.
        opt = agent.optimizer
        for inner in (opt, getattr(opt, "optimizer", None)):
            for grp in getattr(inner, "param_groups", []) or []:
                grp["eps"] = 1e-3
        # a freshly initialised Rainbow head is (almost) the uniform distribution whatever the observation; the
        # relations need networks whose output depends on their input, as after some training: seeded perturbation
        gen = torch.Generator().manual_seed(cfg["seed"] % (1 << 31) + 13)
        with torch.no_grad():
            for net in (agent.actor, agent.actor_target):
                for prm in net.parameters():
                    prm.add_(CONS_PERTURB * torch.randn(prm.shape, generator=gen))
        if learn_patch is not None:
            agent.learn = learn_patch(agent)
        torch.manual_seed(cfg["seed"] % (1 << 31) + 5)
        return agent
    sampler, n_sampler = Sampler(memory=mb), Sampler(memory=nb)
    torch.manual_seed(cfg["seed"] % (1 << 31) + 7)
    exp = sampler.sample(B, 0.4) if per else sampler.sample(B, return_idx=True)
    nexp = n_sampler.sample(exp["idxs"])
    shape_as_sampled = list(nexp["reward"].shape)
    if flatten:
        nexp = nexp.reshape(exp["obs"].shape[0])
    starts = [int(round(float(v) * 8)) for v in exp["obs"][:, 0].tolist()]
    out = {"starts": starts, "idxs": [int(i) for i in exp["idxs"].reshape(-1).tolist()], "note": note,
           "n_batch_shape": shape_as_sampled, "len": [len(nb), len(mb)]}
    if single_rows:               # per-sample losses where learn() returns only the mean: one fresh agent per row
        losses = []
        for i in range(B):
            l, *_ = make_agent().learn(exp[i:i + 1], n_experiences=nexp[i:i + 1], per=per)
            losses.append(float(l))
        out["row_losses"] = losses
        return out
    agent = make_agent()
    with torch.no_grad():
        nx = torch.cat([exp["next_obs"].reshape(-1, 3), nexp["next_obs"].reshape(-1, 3)])
        dist = agent.actor_target(agent.preprocess_observation(nx), q=False)
        out["clamp_active"] = bool((dist <= CONS_CLAMP * 1.001).any())
    loss, idxs, prios = agent.learn(exp, n_experiences=nexp, per=per)
    out["loss"] = float(loss)
    out["prios"] = None if prios is None else [float(x) for x in np.asarray(prios).reshape(-1)]
    out["weights"] = torch.cat([v.detach().reshape(-1).to(torch.float64) for net in (agent.actor, agent.actor_target)
                                for v in net.state_dict().values()]).numpy()
    return out


def _close(a, b, rel: float = 1e-4) -> bool:
    return abs(a - b) <= CONS_TOL + rel * max(abs(a), abs(b))


def consumer_case(cfg, flatten: bool = False, learn_patch=None):
    """returns (problems, facts)"""
    problems, facts = [], {}
    m, n, tstar, per = cfg["m"], cfg["n"], cfg["tstar"], cfg["per"]
    A = _cons_run(cfg, "A", flatten, learn_patch=learn_patch)
    B = _cons_run(cfg, "B", flatten, learn_patch=learn_patch)
    C = _cons_run(cfg, "C", flatten, learn_patch=learn_patch)
    D = _cons_run(cfg, "D", flatten, learn_patch=learn_patch)
    facts.update(batch=len(A["starts"]), starts=A["starts"], n_batch_shape=A["n_batch_shape"],
                 loss={k: v["loss"] for k, v in (("A", A), ("B", B), ("C", C)) if v},
                 prios={k: v["prios"] for k, v in (("A", A), ("B", B), ("C", C), ("D", D)) if v and v["prios"]})
    for name, V in (("B", B), ("C", C), ("D", D)):
        if V is not None and (V["starts"] != A["starts"] or V["idxs"] != A["idxs"]):
            problems.append(f"variant {name}: the sampled batch differs from variant A's although only rewards / "
                            f"observations were varied ({V['idxs']} vs {A['idxs']})")
            return problems, facts
    where = lambda i: (A["starts"][i] // m, A["starts"][i] % m)      # (row, env) the sample starts from

    def summed(i):
        s, e = where(i)
        return [(s + j, e) for j in range(_cons_cut(cfg, s))]

    def wdiff(X):
        return float(np.max(np.abs(X["weights"] - A["weights"])))
    clamp = A["clamp_active"] or B["clamp_active"]
    rel = 1.5 * 9 * CONS_CLAMP if clamp else 1e-4          # 9 atoms
    wtol = 40 * CONS_TOL if clamp else CONS_TOL
    facts["softmax_clamp_active"] = clamp
    # --- A vs B: nothing that follows a terminal step may matter
    what_b = ("two streams that differ only in what follows a terminal step (the observation returned after it, and "
              "the next episode's transitions)")
    if per:
        bad = [i for i in range(len(A["prios"])) if not _close(A["prios"][i], B["prios"][i], rel)]
        if bad:
            i = bad[0]
            s, e = where(i)
            k = _cons_cut(cfg, s)
            problems.append(
                f"RainbowDQN.learn(per=True, combined_reward={cfg['combined']}, n_step={n}): {what_b} give different "
                f"priorities for {len(bad)} of {len(A['prios'])} samples; first: the sample starting at (step {s}, env "
                f"{e}) [1-step done={cfg['steps'][s][e][1]}, window ends after {k} steps with done="
                f"{cfg['steps'][s + k - 1][e][1]}] has priority {A['prios'][i]:.6f} vs {B['prios'][i]:.6f}")
    if not _close(A["loss"], B["loss"], rel) or wdiff(B) > wtol:
        problems.append(f"RainbowDQN.learn(per={per}, combined_reward={cfg['combined']}, n_step={n}): {what_b} give loss "
                        f"{A['loss']:.6f} vs {B['loss']:.6f} and updated weights that differ by {wdiff(B):.2e}")
    if not per and not problems:
        ra, rb = (_cons_run(cfg, v, flatten, single_rows=True, learn_patch=learn_patch) for v in ("A", "B"))
        bad = [i for i in range(len(ra["row_losses"])) if not _close(ra["row_losses"][i], rb["row_losses"][i], rel)]
        facts["row_losses"] = {"A": ra["row_losses"], "B": rb["row_losses"]}
        if bad:
            s, e = where(bad[0])
            problems.append(f"RainbowDQN.learn(per=False, combined_reward={cfg['combined']}, n_step={n}) on single rows: "
                            f"{what_b} give loss {ra['row_losses'][bad[0]]:.6f} vs {rb['row_losses'][bad[0]]:.6f} for "
                            f"the sample starting at (step {s}, env {e})")
    # --- A vs C / A vs D: sensitivity and locality
    for name, V, what in (("C", C, "a reward"), ("D", D, "the next observation of a step that ends nothing")):
        if V is None:
            continue
        cell = tuple(V["note"]["changed"])
        if per:
            if name == "C":
                hit = [i for i in range(len(A["starts"])) if cell in summed(i)]
            else:
                hit = [i for i in range(len(A["starts"]))
                       if summed(i)[-1] == cell or (cfg["combined"] and where(i) == cell)]
            moved = [i for i in range(len(A["prios"])) if abs(A["prios"][i] - V["prios"][i]) > CONS_MIN]
            still = [i for i in hit if abs(A["prios"][i] - V["prios"][i]) <= CONS_SAME]
            stray = [i for i in range(len(A["prios"])) if i not in hit and not _close(A["prios"][i], V["prios"][i])]
            facts[f"hit_{name}"] = {"cell": list(cell), "samples": hit, "moved": moved}
            if stray:
                s, e = where(stray[0])
                problems.append(f"RainbowDQN.learn(per=True, combined_reward={cfg['combined']}, n_step={n}): changing "
                                f"{what} at (step {cell[0]}, env {cell[1]}) changes the priority of {len(stray)} samples "
                                f"whose own transitions do not contain that step; first: sample starting at (step {s}, "
                                f"env {e}): {A['prios'][stray[0]]:.6f} -> {V['prios'][stray[0]]:.6f}")
            if hit and still:
                s, e = where(still[0])
                problems.append(f"RainbowDQN.learn(per=True, combined_reward={cfg['combined']}, n_step={n}): changing "
                                f"{what} at (step {cell[0]}, env {cell[1]}) inside the window of the sample starting at "
                                f"(step {s}, env {e}) leaves its priority unchanged ({A['prios'][still[0]]:.6f}): the "
                                f"n-step record is not what the loss is computed from")
        elif abs(A["loss"] - V["loss"]) <= CONS_SAME and wdiff(V) <= CONS_SAME:
            problems.append(f"RainbowDQN.learn(per=False, combined_reward={cfg['combined']}, n_step={n}): changing {what} "
                            f"at (step {cell[0]}, env {cell[1]}) inside stored windows changes neither the loss nor the "
                            f"update")
    return problems, facts


def consumer_probe_shape(cfg) -> tuple[bool, dict]:
    """does learn(per=True) give the same priorities when the n-step batch is given the 1-step batch's shape?"""
    raw = _cons_run(cfg, "A", flatten=False)
    flat = _cons_run(cfg, "A", flatten=True)
    same = all(_close(a, b) for a, b in zip(raw["prios"], flat["prios"]))
    return same, {"n_step_batch_shape_as_sampled": raw["n_batch_shape"], "priorities_as_sampled": raw["prios"],
                  "priorities_with_matching_batch_shape": flat["prios"], "case": cfg}


def consumer_suite(chk: Check, learn_patch=None, runs: int | None = None, rng: random.Random | None = None) -> int:
    """returns the number of cases with problems (also used by the self-test)"""
    rng = rng or chk.rng
    runs = runs or (24 if chk.tier == "quick" else 160)
    threads = torch.get_num_threads()
    torch.set_num_threads(1)
    flatten, failing, reported = False, 0, False
    try:
        for i in range(runs):
            per, combined = bool(i % 2), bool((i // 2) % 2)
            cfg = consumer_config(rng, per, combined)
            if per and not flatten and learn_patch is None:
                same, detail = consumer_probe_shape(cfg)
                if not same:
                    flatten = True
                    chk.finding("C10-per-nstep-index-shape",
                                "with per=True the n-step batch comes back with an extra axis (indices of shape [B, 1] "
                                f"-> n-step reward of shape {detail['n_step_batch_shape_as_sampled']}) and RainbowDQN."
                                "_dqn_loss broadcasts it against the batch: every sample's n-step loss sums the n-step "
                                "returns of ALL samples (priorities "
                                f"{[round(x, 3) for x in detail['priorities_as_sampled'][:4]]} vs "
                                f"{[round(x, 3) for x in detail['priorities_with_matching_batch_shape'][:4]]} with "
                                "matching shapes); the remaining consumer checks run with matching shapes",
                                {"case": cfg, "seed": cfg["seed"], "probe": "per-nstep-index-shape", **detail})
                    chk.notes.append("consumer suite: per=True n-step batches reshaped to the 1-step batch shape "
                                     "(finding C10-per-nstep-index-shape)")
            try:
                problems, facts = consumer_case(cfg, flatten=flatten and per, learn_patch=learn_patch)
            except InfraError:
                raise
            except Exception as ex:
                problems, facts = [f"RainbowDQN.learn raised {type(ex).__name__}: {ex}"[:300]], {}
            if learn_patch is None:
                chk.case(cfg, nontrivial=True,
                         sample={"consumer": {k: cfg[k] for k in ("per", "combined", "n", "m", "tstar")},
                                 "batch": facts.get("batch"), "loss": facts.get("loss")},
                         tags=["consumer-per" if per else "consumer-uniform",
                               "consumer-combined" if combined else "consumer-nstep-only", f"consumer-n={cfg['n']}"])
            if problems:
                failing += 1
                if learn_patch is None and not reported:
                    reported = True
                    small = consumer_shrink(cfg, flatten and per)
                    p2, f2 = consumer_case(small, flatten=flatten and per)
                    chk.violation((p2 or problems)[0], consumer_replay_obj(small, p2 or problems, f2 or facts,
                                                                           flatten and per))
    finally:
        torch.set_num_threads(threads)
    if learn_patch is None:
        chk.suite("rainbow-consumer", runs, 0)
    return failing


def consumer_shrink(cfg, flatten: bool):
    def fails(c):
        try:
            return bool(consumer_case(c, flatten=flatten)[0])
        except Exception:
            return False
    small = cfg
    # fewer environments (env 0 carries the terminal step at t*)
    while small["m"] > 1:
        cand = dict(small, m=small["m"] - 1, steps=[row[:-1] for row in small["steps"]])
        if not fails(cand):
            break
        small = cand
    # shorter prefix
    while small["tstar"] > max(2, small["n"] - 1):
        cand = dict(small, tstar=small["tstar"] - 1, steps=small["steps"][1:])
        if not fails(cand):
            break
        small = cand
    # no other episode ends than the one at t*
    cand = json.loads(json.dumps(small))
    for t in range(cand["tstar"]):
        for c in cand["steps"][t]:
            c[1] = 0
    if fails(cand):
        small = cand
    if small["cap_extra"] and fails(dict(small, cap_extra=0)):
        small = dict(small, cap_extra=0)
    return small


def consumer_replay_obj(cfg, problems, facts, flatten: bool) -> dict:
    return {"case": cfg, "seed": cfg["seed"], "oracle_problems": problems, "observed": facts,
            "n_step_batch_reshaped": flatten,
            "how": "steps[t][env] = [[reward numerator, denominator], done]; rows 0..tstar are stored as record starts, "
                   "the n-1 rows behind tstar belong to the next episode; variants: A = as is, B = next_obs of every "
                   "done cell and all rows behind tstar replaced, C = reward of (tstar, env 0) + 1, D = next_obs of a "
                   "non-terminal last summed step replaced; real buffers + Sampler + RainbowDQN.learn on identically "
                   "seeded agents (gamma 0.9, 9 atoms on [-6, 6], lr 1e-2, Adam eps 1e-3); prios = what learn() returns",
            "suite": "harness/c10.py consumer suite (metamorphic, no model involved)"}


# ----------------------------------------------------------------------------- sampler suite
# The real `Sampler` objects in every flag combination (standard, per, n_step, per + n_step) on provenance-encoded
# transitions.  The buffers are filled by the storing statements of train_off_policy, the samplers are created and
# called by its sampling statements (`sampler.sample(batch, beta)` / `sampler.sample(batch, return_idx=…)`,
# `n_step_sampler.sample(experiences["idxs"])`), and every returned batch is diffed with `sampleBlock true` of
# Model/NStep.lean (`nstep sample`) fed with the indices the implementation drew: rows of both batches, extra axes,
# the index entry and its shape.  `Sampler.__init__`'s choice of method is diffed with `samplerMode` (`nstep mode`).
# Oracle (independent of the model): both batches have one record per row and the same number of rows, row i of
# either describes the same (obs, action), the 1-step row is the record stored at the index handed on, PER hands
# out weights for the same rows.
SAMPLER_MODES = {"sample_standard": "standard", "sample_per": "per", "sample_n_step": "nstep",
                 "sample_distributed": "distributed"}


def sampler_mode_cases():
    """(model class token, dataset given, dataloader given, dataloader is a torch DataLoader)"""
    out = []
    for cls in ("none", "replay", "multistep", "prioritized", "multiagent", "other"):
        for ds, lg, lt in ((0, 0, 0), (1, 0, 0), (0, 1, 1), (1, 1, 1), (1, 1, 0)):
            out.append((cls, ds, lg, lt))
    return out


def sampler_mode_impl(cls: str, ds: int, lg: int, lt: int) -> str:
    import types
    import warnings

    from torch.utils.data import DataLoader

    from agilerl.components.multi_agent_replay_buffer import MultiAgentReplayBuffer
    from agilerl.components.replay_buffer import (MultiStepReplayBuffer, PrioritizedReplayBuffer,
                                                  ReplayBuffer)
    from agilerl.components.sampler import Sampler
    mem = {"none": lambda: None, "replay": lambda: ReplayBuffer(4), "multistep": lambda: MultiStepReplayBuffer(4, 2, 0.5),
           "prioritized": lambda: PrioritizedReplayBuffer(4, 0.6),
           "multiagent": lambda: MultiAgentReplayBuffer(4, ["obs"], ["a"]), "other": lambda: object()}[cls]()
    dataset = types.SimpleNamespace(buffer=None, batch_size=1) if ds else None
    loader = None if not lg else (DataLoader([0]) if lt else [0])
    with warnings.catch_warnings():
        warnings.simplefilter("ignore")
        try:
            smp = Sampler(memory=mem, dataset=dataset, dataloader=loader)
        except AssertionError:
            return "reject"
    name = getattr(getattr(smp.sample, "__func__", smp.sample), "__name__", "?")
    return SAMPLER_MODES.get(name, name)


def sampler_run(cfg: dict):
    """fill the buffers and run the sampling statements as train_off_policy does; returns (lines, ops, problems, facts)"""
    from agilerl.components.replay_buffer import (MultiStepReplayBuffer, PrioritizedReplayBuffer,
                                                  ReplayBuffer)
    from agilerl.components.sampler import Sampler
    seed = cfg["seed"]
    torch.manual_seed(seed)
    np.random.seed(seed % (1 << 31))
    random.seed(seed)
    n, m, cap, per, has_n, B = cfg["n"], cfg["m"], cfg["cap"], cfg["per"], cfg["has_n"], cfg["batch"]
    g = Fraction(*cfg["gamma"])
    memory = PrioritizedReplayBuffer(max_size=cap, alpha=0.6) if per else ReplayBuffer(max_size=cap)
    n_step_memory = MultiStepReplayBuffer(max_size=cap, n_step=n, gamma=float(g)) if has_n else None
    # the model: an n-step run; without an n-step memory the 1-step buffer holds the raw stream = a run with n = 1
    ops = [f"nstep new {n if has_n else 1} {frac_str(g)} {m} {cap} {cap} 1"]
    for t, row in enumerate(cfg["steps"]):
        transition = make_transition(t, row, False)
        if n_step_memory is not None:                       # the storing statements of train_off_policy
            one_step_transition = n_step_memory.add(transition)
            if one_step_transition is not None:
                memory.add(one_step_transition)
        else:
            memory.add(transition)
        cells = []
        for e, (r, d) in enumerate(row):
            c = code(t, e)
            cells += [str(c), str(ACT + c), frac_str(Fraction(*r)), str(c + NXT), "1" if d else "0"]
        ops.append("nstep add " + " ".join(cells))
    lines = ["ok"] + ["*"] * len(cfg["steps"])             # the adds are the business of the stream suite
    problems, facts = [], {}
    if len(memory) < B:
        return None
    sampler = Sampler(memory=memory)
    n_step_sampler = Sampler(memory=n_step_memory) if n_step_memory is not None else None
    mode = lambda s: SAMPLER_MODES.get(getattr(getattr(s.sample, "__func__", s.sample), "__name__", "?"), "?")
    facts["sampler_mode"] = mode(sampler)
    facts["n_step_sampler_mode"] = mode(n_step_sampler) if n_step_sampler is not None else None
    ops.append(f"nstep mode {'prioritized' if per else 'replay'} 0 0 0")
    lines.append(facts["sampler_mode"])
    if has_n:
        ops.append("nstep mode multistep 0 0 0")
        lines.append(facts["n_step_sampler_mode"])
    fields = ("obs", "action", "reward", "next_obs", "done")
    slot_of = {}
    for j, c in enumerate(decode_storage(memory)):
        slot_of.setdefault(c, j)
    for rep in range(cfg.get("samples", 3)):
        # the sampling statements of train_off_policy
        if per:
            experiences = sampler.sample(B, 0.4)
            n_step_experiences = n_step_sampler.sample(experiences["idxs"]) if n_step_memory is not None else None
        else:
            experiences = sampler.sample(B, return_idx=True if n_step_memory is not None else False)
            n_step_experiences = n_step_sampler.sample(experiences["idxs"]) if n_step_memory is not None else None
        k = int(experiences.batch_size[0]) if len(experiences.batch_size) else -1
        one_extra = len(experiences.batch_size) - 1
        one_rows, n_rows = [], []
        try:
            one_rows = [decode_cell({f: experiences[f].reshape(k, -1)[i] for f in fields}) for i in range(k)]
        except Exception as ex:
            problems.append(f"the 1-step batch cannot be read row by row ({type(ex).__name__}: {ex})"[:200])
        drawn = [slot_of.get(c) for c in one_rows]
        idx_txt, idx_vals = "-", None
        if "idxs" in experiences.keys():
            it = experiences["idxs"]
            idx_vals = it.reshape(-1).tolist()
            idx_txt = f"{it.dim() - 1}:" + ",".join(str(v) for v in idx_vals)
            if len(idx_vals) == len(drawn) and drawn != idx_vals:
                problems.append(f"1-step rows {one_rows} are not the records stored at the indices handed on {idx_vals}")
            drawn = idx_vals
        if k != B:
            problems.append(f"sampler.sample({B}, …) returned a batch of {k} rows")
        if one_extra != 0:
            problems.append(f"the 1-step batch has batch_size {list(experiences.batch_size)}")
        if per and ("weights" not in experiences.keys() or experiences["weights"].reshape(-1).shape[0] != k):
            problems.append("the prioritised batch carries no weights for its rows")
        n_extra = 0
        if n_step_experiences is not None:
            nbs = list(n_step_experiences.batch_size)
            n_extra = len(nbs) - 1
            if nbs != [k]:
                problems.append(f"n-step batch has batch_size {nbs} but the 1-step batch has {k} rows: row i of one is "
                                f"no longer paired with row i of the other (index tensor of shape "
                                f"{list(experiences['idxs'].shape)})")
            kn = int(np.prod(nbs)) if nbs else 0
            try:
                n_rows = [decode_cell({f: n_step_experiences[f].reshape(kn, -1)[i] for f in fields}) for i in range(kn)]
            except Exception as ex:
                problems.append(f"the n-step batch cannot be read row by row ({type(ex).__name__}: {ex})"[:200])
            for i in range(min(len(one_rows), len(n_rows))):
                a, b = one_rows[i], n_rows[i]
                if a == "MIXED" or b == "MIXED" or a.split(",")[:2] != b.split(",")[:2]:
                    problems.append(f"row {i}: 1-step batch has {a} but n-step batch has {b} — different (obs, action) at "
                                    f"the same batch position (index {drawn[i] if i < len(drawn) else None})")
                    break
        if None in drawn:
            problems.append(f"a sampled 1-step row is not a stored record: {one_rows}")
            drawn = [d if d is not None else 0 for d in drawn]
        ops.append(f"nstep sample {int(per)} {int(has_n)} " + " ".join(str(d) for d in drawn))
        lines.append(" ".join(one_rows) + " | " + (" ".join(n_rows) if n_step_experiences is not None else "-") +
                     f" | {one_extra} {n_extra} {idx_txt}")
        if rep == 0:
            facts.update({"drawn": drawn, "one_step_rows": one_rows, "n_step_rows": n_rows, "idxs": idx_txt})
    return lines, ops, problems, facts


def sampler_config(rng: random.Random, per: bool, has_n: bool) -> dict:
    m = rng.choice([1, 2, 2, 3])
    n = rng.choice([1, 2, 3, 3, 4])
    batch = rng.choice([2, 3, 4, 5])
    cap = rng.choice([c for c in range(max(batch, m), 4 * m + 6)])
    L = rng.randint(n + (batch + m - 1) // m, n + 3 * cap // m + 3)
    steps = [[[gen_reward(rng), int(rng.random() < 0.25)] for _ in range(m)] for _ in range(L)]
    return {"kind": "sampler", "per": per, "has_n": has_n, "n": n, "m": m, "cap": cap, "batch": batch,
            "gamma": list(rng.choice(GAMMAS)), "steps": steps, "samples": 3, "seed": rng.randrange(1 << 30)}


def sampler_case(chk: Check, cfg: dict):
    """returns (diff index | None, problems, impl lines, model lines, facts) or None when the buffer is too empty"""
    private_driver(chk)
    try:
        r = sampler_run(cfg)
    except Exception as ex:
        return None, [f"the sampling statements raised {type(ex).__name__}: {ex}"[:300]], [], [], {}
    if r is None:
        return None
    impl, ops, problems, facts = r
    raw = chk.driver.run(["reset"] + ops)[1:]
    if any(x == "bad-op" for x in raw):
        raise InfraError(f"C10 sampler suite: model refused {[o for o, x in zip(ops, raw) if x == 'bad-op'][:2]}")
    model = [("*" if op.startswith("nstep add") else x) for op, x in zip(ops, raw)]
    diff = next((i for i, (a, b) in enumerate(zip(impl, model)) if a != b), None)
    return diff, problems, impl, model, facts


def sampler_replay_obj(cfg, problems, impl, model, diff, facts) -> dict:
    return {"case": cfg, "seed": cfg["seed"], "oracle_problems": problems, "observed": facts,
            "impl": [x for x in impl if x != "*"], "model": [x for x in model if x != "*"], "diff_at": diff,
            "how": "real ReplayBuffer / PrioritizedReplayBuffer (+ MultiStepReplayBuffer) filled and sampled through "
                   "real Sampler objects by the statements of train_off_policy; a sample line is `1-step rows | n-step "
                   "rows | extra axes of the two batches, extra axes:values of the idxs entry`",
            "correspondence": "harness/c10.py (sampler suite) vs sampleBlock / samplerMode of Model/NStep.lean"}


def sampler_suite(chk: Check, runs: int | None = None, rng: random.Random | None = None) -> int:
    """returns the number of cases flagged (oracle or model)"""
    rng = rng or chk.rng
    selftesting = runs is not None
    runs = runs if runs is not None else (60 if chk.tier == "quick" else 400)
    flagged = ndiff = done = 0
    # Sampler.__init__: every class x dataset / dataloader combination
    if not selftesting:
        cases = sampler_mode_cases()
        private_driver(chk)
        raw = chk.driver.run(["reset"] + [f"nstep mode {c} {ds} {lg} {lt}" for c, ds, lg, lt in cases])[1:]
        for (c, ds, lg, lt), want in zip(cases, raw):
            try:
                got = sampler_mode_impl(c, ds, lg, lt)
            except Exception as ex:
                got = f"raised {type(ex).__name__}: {ex}"[:200]
            chk.case({"sampler-init": [c, ds, lg, lt]}, nontrivial=True, tags=["sampler-init"])
            done += 1
            if got != want:
                ndiff += 1
                flagged += 1
                standard_ok = (c in ("prioritized", "multistep", "replay") and (ds, lg, lt) == (0, 0, 0))
                chk.violation(f"Sampler(memory={c}, dataset={'given' if ds else None}, dataloader="
                              f"{'DataLoader' if lt else ('object' if lg else None)}) installs `{got}` but the model "
                              f"(samplerMode) says `{want}`",
                              {"case": {"kind": "sampler-init", "cls": c, "dataset": ds, "loader": lg, "torch_loader": lt},
                               "impl": got, "model": want}, no_input=not standard_ok)
    cfgs = []
    if not selftesting:
        for f in sorted((ROOT / "corpus" / "C10").glob("*.json")):
            c = json.loads(f.read_text())
            c = c.get("replay", c)
            if c.get("case", c).get("kind") == "sampler":
                cfgs.append(c.get("case", c))
    for i in range(runs):
        cfgs.append(sampler_config(rng, bool(i % 2), bool((i // 2) % 2)))
    for cfg in cfgs:
        per, has_n = cfg["per"], cfg["has_n"]
        r = sampler_case(chk, cfg)
        if r is None:
            continue
        diff, problems, impl, model, facts = r
        done += 1
        if not selftesting:
            chk.case({k: v for k, v in cfg.items() if k != "seed"}, nontrivial=True,
                     sample={"sampler": {k: cfg[k] for k in ("per", "has_n", "n", "m", "cap", "batch")},
                             "drawn": facts.get("drawn"), "idxs": facts.get("idxs")},
                     tags=[f"sampler-{'per' if per else 'uniform'}{'+nstep' if has_n else ''}"])
        if diff is None and not problems:
            continue
        flagged += 1
        ndiff += diff is not None
        if selftesting or flagged > 1:
            continue
        # smaller case that still shows it
        small, sr = cfg, (diff, problems, impl, model, facts)
        for cand in (dict(cfg, samples=1), dict(cfg, samples=1, steps=cfg["steps"][:cfg["n"] + cfg["batch"]]),
                     dict(cfg, samples=1, batch=2), dict(cfg, samples=1, batch=2, steps=cfg["steps"][:cfg["n"] + 2])):
            try:
                r2 = sampler_case(chk, cand)
            except InfraError:
                continue
            if r2 is not None and bool(r2[1]) == bool(problems) and (r2[1] or r2[0] is not None):
                small, sr = cand, r2
        diff, problems, impl, model, facts = sr
        if problems:
            chk.violation(f"sampling path ({'per' if per else 'uniform'}{' + n-step' if has_n else ''}): {problems[0]}",
                          sampler_replay_obj(small, problems, impl, model, diff, facts))
        else:
            chk.violation(f"sampling path ({'per' if per else 'uniform'}{' + n-step' if has_n else ''}): batch differs from "
                          f"the model: impl `{impl[diff]}` model `{model[diff]}`; row i of both batches still describes the "
                          f"same (obs, action)", sampler_replay_obj(small, problems, impl, model, diff, facts), no_input=True)
    if not selftesting:
        chk.suite("sampler", done, ndiff)
        chk.corr["model_lines"] += done * 4
    return flagged



# ----------------------------------------------------------------------------- source translation
def pre_gate(chk: Check) -> None:
    """regenerate lean/Gen/NStepGen.lean from the source text of the tree under test and re-check
    `generated = model` and the theorems over the generated definitions"""
    import common
    import py2lean_nstep
    what = "MultiStepReplayBuffer.add / _get_n_step_info"
    # first the equalities alone, so that a broken equality is named (Props.C10 also imports Props.C09 and
    # with it the translation of ReplayBuffer.add, whose errors would otherwise come first in the log) …
    common.translation_gate(chk, py2lean_nstep, "Gen/NStepGen.lean", ["Gen.NStepGen", "Proofs.NStepGenEq"], what)
    # the sampling path: replay_buffer.py (sample / sample_from_indices / class statements), sampler.py, the sampler
    # set-up + storing statements + learn blocks of train_off_policy
    import py2lean_sampler
    what2 = "ReplayBuffer/PrioritizedReplayBuffer.sample, sample_from_indices, Sampler, sampling block of train_off_policy"
    common.translation_gate(chk, py2lean_sampler, "Gen/SamplerGen.lean", ["Gen.SamplerGen", "Proofs.SamplerGenEq"], what2)
    info = chk.corr.get("source_translation", {}).get("Gen/NStepGen.lean", {})
    info2 = chk.corr.get("source_translation", {}).get("Gen/SamplerGen.lean", {})
    if info.get("status") == "equal-to-model" and info2.get("status") == "equal-to-model":
        # … then the theorems restated over the generated definitions
        all_targets = ["Gen.NStepGen", "Proofs.NStepGenEq", "Gen.SamplerGen", "Proofs.SamplerGenEq", "Props.C10"]
        common.translation_gate(chk, py2lean_nstep, "Gen/NStepGen.lean", all_targets, what)
        if chk.corr["source_translation"]["Gen/NStepGen.lean"].get("status") == "equal-to-model":
            common.translation_gate(chk, py2lean_sampler, "Gen/SamplerGen.lean", all_targets, what2)


# ----------------------------------------------------------------------------- check
def run(chk: Check) -> None:
    rng = chk.rng
    n_cases = 600 if chk.tier == "quick" else 5000
    chk.rule = ("streams of vectorised transitions with episode ends placed at random / at every window position / "
                "consecutively / staggered per environment / in all environments at once / never; n in 1..5, "
                "gamma in {1/2 (mostly), 1/4, 3/4, 1}, 1..4 environments (vectorised and un-vectorised call path), "
                "capacities m..4m+3 so that both storages wrap (also in the middle of a batch), uniform or prioritised "
                "1-step buffer; distinct = distinct case description; non-trivial = some window was cut by an "
                "episode end or the storages wrapped; plus real train_off_policy runs (RainbowDQN, scripted provenance "
                "env, capacity 6..10, batch 3..4, uniform and PER) whose every learn() call is inspected; plus the consumer "
                "suite: real buffers + Sampler + RainbowDQN.learn (per x combined_reward, n 2..4, 1..3 envs) under "
                "metamorphic stream variants (post-terminal content must not matter, pre-terminal content must)")
    chk.assumptions = [
        "an episode end is what the buffer is told through `done`; train_off_policy passes only `terminated`, so "
        "time-limit truncations and the `env.reset()` between two agents of the population are invisible to the "
        "buffer (the window is never cleared) — reported separately, not part of this check",
        "both buffers are created with the same capacity (index alignment is false otherwise: "
        "C10_unequal_capacities_witness)",
        "rewards and discounts are dyadic, so float32 arithmetic is exact and compared with exact rationals",
        "consumer suite: networks are seeded-perturbed initialisations on which the softmax clamp (min 1e-3) of the "
        "distributional head is inactive; where it is active a masked bootstrap still leaks up to num_atoms*1e-3 "
        "(relative) of the post-terminal observation into the loss and the tolerance is widened accordingly; Adam eps "
        "is set to 1e-3 so that the weight update is a continuous function of the gradient",
    ]
    chk.trusted_extra.append("harness/py2lean_nstep.py (translator of MultiStepReplayBuffer.add / _get_n_step_info; its "
                             "output is proved equal to the model in Proofs/NStepGenEq.lean) and its fixed prelude: "
                             "TensorDict as five per-environment vectors, element-wise tensor arithmetic, "
                             "deque(maxlen).append, .clone()/.to(device) as identity")
    chk.rule += ("; plus the sampler suite: real Sampler objects in all flag combinations (standard, per, n_step, per + "
                 "n_step; every class x dataset x dataloader combination for __init__) on provenance-encoded buffers "
                 "filled and sampled by the statements of train_off_policy, every batch diffed row by row with sampleBlock")
    chk.trusted_extra.append("harness/py2lean_sampler.py (translator of the sampling path: ReplayBuffer.sample, "
                             "PrioritizedReplayBuffer.sample, sample_from_indices, Sampler, the sampling / storing "
                             "statements of train_off_policy; output proved equal to the model in Proofs/SamplerGenEq.lean) "
                             "and its fixed prelude: a buffer as class + index->record storage, an index tensor as values + "
                             "number of extra axes, random draws / segment-tree code / the learner as explicit parameters")
    cases = []
    for f in sorted((ROOT / "corpus" / "C10").glob("*.json")):
        c = json.loads(f.read_text())
        if c.get("case", c).get("kind") == "sampler":
            continue                              # replayed by the sampler suite below
        cases.append((c.get("case", c), c.get("seed", 0)))
    for _ in range(n_cases):
        case, cs = gen_case(rng, chk.tier), rng.randrange(1 << 30)
        cases.append((add_keys(case, random.Random(cs)), cs))
    ndiff = nviol = 0
    for (case, cs), (diff, problems, impl, model) in zip(cases, many_cases(chk, cases)):
        tags, nontrivial = tags_of(case)
        chk.case(case, nontrivial=nontrivial,
                 sample={"n": case["n"], "envs": case["m"], "cap": case["cap"], "gamma": case["gamma"],
                         "steps": case["steps"][:4], "stored": impl[-2] if impl else None}, tags=tags)
        if diff is None and not problems:
            continue
        ndiff += diff is not None
        nviol += 1
        if nviol <= 2:                      # one shrunk replay per failure is enough; count the rest
            report(chk, case, cs, diff, problems, impl, model)
    if nviol > 2:
        chk.notes.append(f"{nviol} failing cases in total; the first 2 were shrunk and reported")
    chk.suite("nstep-streams", len(cases), ndiff)
    chk.corr["model_lines"] += sum(len(c["steps"]) + 3 for c, _ in cases)
    loop_suite(chk)
    sampler_suite(chk)
    consumer_suite(chk)
    if chk.tier == "thorough":
        selftest(chk)


# ----------------------------------------------------------------------------- seeded faults
def faulty_info(variant: str):
    """a re-implementation of `_get_n_step_info` with one seeded fault"""
    def info(self):
        win = list(self.n_step_buffer)
        present = [k for k in END_PRIORITY if k in win[0].keys()]
        dk = present[-1] if variant == "last-matching-end-key" else present[0]
        first = win[0].clone()
        reward = first["reward"].clone()
        if variant != "first-row-unchecked" and first[dk].bool().any():
            self.done_key = dk
            return first
        for i, tr in enumerate(win[1:]):
            exp = i if variant == "gamma-exponent-off-by-one" else i + 1
            reward += tr["reward"] * (self.gamma ** exp)
            if variant != "stale-next-obs":
                first["next_obs"] = tr["next_obs"].clone()
            first[dk] = tr[dk].clone()
            if variant != "no-break-at-done" and tr[dk].bool().any():
                break
        first["reward"] = reward
        self.done_key = dk
        return first
    return info


def selftest(chk: Check) -> None:
    """each seeded fault must be noticed by the property oracle on the fixed self-test suite"""
    from agilerl.components import replay_buffer as rb
    rng = random.Random(12345)
    suite = [(gen_case(rng, "quick"), rng.randrange(1 << 30)) for _ in range(120)]
    suite = [(add_keys(c, random.Random(cs)), cs) for c, cs in suite]
    orig_info = rb.MultiStepReplayBuffer._get_n_step_info
    orig_add = rb.MultiStepReplayBuffer.add

    def newest_add(self, data):
        r = orig_add(self, data)
        return None if r is None else self.n_step_buffer[-1]

    def count():
        return sum(bool(p) for _, p, *_ in many_cases(chk, suite))

    caught = {}
    for variant in ("gamma-exponent-off-by-one", "no-break-at-done", "first-row-unchecked", "stale-next-obs",
                    "last-matching-end-key"):
        rb.MultiStepReplayBuffer._get_n_step_info = faulty_info(variant)
        try:
            caught[variant] = count()
        finally:
            rb.MultiStepReplayBuffer._get_n_step_info = orig_info
    rb.MultiStepReplayBuffer.add = newest_add
    try:
        caught["returns-newest-transition"] = count()
    finally:
        rb.MultiStepReplayBuffer.add = orig_add
    # loop level: a main buffer that is one write behind while learn() runs must be noticed
    lrng = random.Random(777)
    caught["train-loop:lagging-main-buffer"] = 0
    for per in (False, True):
        res, _ = loop_case(chk, loop_config(lrng, per=per, tier="quick"), fault="lagging-main-buffer")
        caught["train-loop:lagging-main-buffer"] += res["bad_calls"] if any(
            "different (obs, action)" in p for p in res["problems"]) else 0
    # consumer level: a learn() that masks the n-step target with the 1-step done flag, or that takes the n-step
    # reward / next_obs from the 1-step batch, must be noticed by the metamorphic relations
    def swapped(field):
        def patch(agent):
            orig = agent.learn

            def learn(experiences, n_experiences=None, per=False):
                if n_experiences is not None:
                    n_experiences = n_experiences.clone()
                    n_experiences[field] = experiences[field].reshape(n_experiences[field].shape).clone()
                return orig(experiences, n_experiences=n_experiences, per=per)
            return learn
        return patch
    for field in ("done", "reward", "next_obs"):
        caught[f"consumer:n-step-{field}-from-1-step-batch"] = consumer_suite(
            chk, learn_patch=swapped(field), runs=16, rng=random.Random(4242))
    # sampling path: an n-step sampler that keeps the (batch, 1) index column, a 1-step buffer that hands on other
    # indices than the ones it used, a sampler that reads the n-step storage one slot off
    from agilerl.components import sampler as smp_mod

    def with_patch(obj, name, fn, label):
        orig = getattr(obj, name)
        setattr(obj, name, fn)
        try:
            caught[label] = sampler_suite(chk, runs=24, rng=random.Random(99))
        finally:
            setattr(obj, name, orig)
    with_patch(smp_mod.Sampler, "sample_n_step", lambda self, idxs: self.memory.sample_from_indices(idxs),
               "sampler:index-column-not-flattened")

    def stale_idx_sample(self, batch_size, return_idx=False):
        indices = torch.randperm(self.size)[:batch_size]
        samples = self._storage[indices]
        if return_idx:
            samples["idxs"] = torch.randperm(self.size)[:batch_size]
        return samples
    with_patch(rb.ReplayBuffer, "sample", stale_idx_sample, "sampler:idxs-of-another-draw")
    with_patch(rb.MultiStepReplayBuffer, "sample_from_indices",
               lambda self, idxs: self.storage[(idxs + 1) % len(self)], "sampler:n-step-read-one-slot-off")
    blind = [v for v, c in caught.items() if c == 0]
    if blind:
        raise InfraError(f"C10 self-test: seeded faults not noticed: {blind}")
    chk.notes.append("self-test (cases flagged by the oracle out of 120; train-loop: misaligned learn() calls): " +
                     ", ".join(f"{v}={c}" for v, c in caught.items()))


# ----------------------------------------------------------------------------- replay
def replay(chk: Check, path: str) -> int:
    c = json.loads(open(path).read())
    c = c.get("replay", c)
    case, seed = c.get("case", c), c.get("seed", 0)
    if case.get("kind") == "consumer":
        threads = torch.get_num_threads()
        torch.set_num_threads(1)
        try:
            if c.get("probe") == "per-nstep-index-shape":
                same, detail = consumer_probe_shape(case)
                print(json.dumps({k: v for k, v in detail.items() if k != "case"}, indent=1))
                if not same:
                    print(f"VIOLATION property=C10 replay={path}")
                    print("  -> learn(per=True) mixes the n-step returns of all samples (n-step batch has an extra axis)")
                return 0 if same else 1
            problems, facts = consumer_case(case, flatten=bool(c.get("n_step_batch_reshaped")))
        finally:
            torch.set_num_threads(threads)
        print(json.dumps({"case": case, "observed": facts, "oracle_problems": problems}, indent=1, default=str))
        if problems:
            print(f"VIOLATION property=C10 replay={path}")
            print(f"  -> {problems[0]}"[:700])
            return 1
        return 0
    if case.get("kind") == "sampler-init":
        want = chk.driver.run(["reset", f"nstep mode {case['cls']} {case['dataset']} {case['loader']} {case['torch_loader']}"])[1]
        got = sampler_mode_impl(case["cls"], case["dataset"], case["loader"], case["torch_loader"])
        print(json.dumps({"case": case, "impl": got, "model": want}))
        if got != want:
            print(f"VIOLATION property=C10 replay={path}")
            print(f"  -> Sampler.__init__ installs `{got}`, the model says `{want}`")
            return 1
        return 0
    if case.get("kind") == "sampler":
        r = sampler_case(chk, case)
        if r is None:
            print("buffer holds fewer records than one batch")
            return 0
        diff, problems, impl, model, facts = r
        print(json.dumps({k: v for k, v in sampler_replay_obj(case, problems, impl, model, diff, facts).items()
                          if k not in ("how", "correspondence")}, indent=1, default=str))
        if problems:
            print(f"VIOLATION property=C10 replay={path}")
            print(f"  -> {problems[0]}"[:600])
            return 1
        if diff is not None:
            print(f"VIOLATION property=C10 replay={path} no-failing-input-found")
            return 1
        return 0
    if case.get("kind") == "train-loop":
        res, differs = loop_case(chk, case)
        print(json.dumps({k: v for k, v in loop_replay_obj(case, res).items() if k not in ("how", "correspondence")},
                         indent=1, default=str))
        if res["problems"]:
            print(f"VIOLATION property=C10 replay={path}")
            print(f"  -> {res['problems'][0]} ({res['bad_calls']} of {res['learn_calls']} learn() calls)"[:600])
            return 1
        if differs:
            print(f"VIOLATION property=C10 replay={path} no-failing-input-found")
            return 1
        return 0
    diff, problems, impl, model = one_case(chk, case, seed)
    print(json.dumps({"case": case, "impl": impl, "model": model, "diff_at": diff,
                      "oracle_problems": problems}, indent=1))
    if problems:
        print(f"VIOLATION property=C10 replay={path}")
        print(f"  -> {problems[0]}"[:600])
        return 1
    if diff is not None:
        print(f"VIOLATION property=C10 replay={path} no-failing-input-found")
        return 1
    return 0
