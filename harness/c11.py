"""
C11 — prioritised replay samples stored items with consistent priorities and weights.

Correspondence: op sequences (add n | update | sample B beta | retrieve u | sum/min s e) on the
real `PrioritizedReplayBuffer` (+ its `SumSegmentTree` / `MinSegmentTree`) against
`Model/SegTree.lean`.  Priorities are dyadic and alpha in {0, 1, 2}, so every float operation of
the implementation is exact and indices / leaves / roots are compared exactly; the harness checks
that exactness itself (Fraction mirror of every float step) and falls back to a stated tolerance
where it does not hold (values below the 1e-5 clamp, very wide dynamic ranges).  The draws of
`torch.rand` are recorded while `sample` runs and handed to the model as exact rationals.

Source translation (`pre_gate`, before the Lean gate): `py2lean_segtree.py` translates the source text
of `agilerl/components/segment_tree.py` of the tree under test into `lean/Gen/SegTreeGen.lean`, and
`py2lean_per.py` the class `PrioritizedReplayBuffer` of `agilerl/components/replay_buffer.py` into
`lean/Gen/PerGen.lean` (calling the generated tree functions); `Proofs/SegTreeGenEq.lean` /
`Proofs/PerGenEq.lean` prove every generated definition equal to the model function and
`Props/C11.lean` restates the tree and buffer theorems over the generated definitions
(`C11_source_translation_*`).  If the translator rejects the source or those proofs stop checking,
that is a gate problem naming the broken equality; the correspondence / oracle below then supply the
failing input if there is one (else the VIOLATION line ends with no-failing-input-found).

Oracle (independent of Lean): a Python reference of the priorities (new -> running max, update ->
the given priority; below the clamp only "positive, same in both trees" is required, the clamp
constant itself is left to the model comparison), leaves == priority ** alpha, unstored leaves
0 / inf, max_priority == highest priority seen, tree_ptr == cursor, roots and
range queries vs direct computation over the leaves, sampled indices < len(buffer) and equal to
the index whose prefix interval contains the query mass, sampled rows are the stored rows, weights
== (N P(i))^-beta / max_j (N P(j))^-beta within 1e-6 and in (0, 1].
"""
from __future__ import annotations

import json
import math
import random
from fractions import Fraction

import numpy as np
import torch

import common
import py2lean_per
import py2lean_segtree
from common import ROOT, Check, InfraError, ddmin, frac

FINDING_ID = "C11-retrieve-float-edge"
EDGE_LEAVES = [0.2054852577007612, 0.11135532569665556, 0.5699993338763802]
TOL_W = 1e-6
TOL_SUM = 1e-9
RMAX = float(np.float32(1.0) - np.float32(2.0 ** -24))       # largest value torch.rand can return


# ----------------------------------------------------------------------------- helpers
def F(x) -> Fraction:
    return Fraction(x)


def den_exp(x: Fraction) -> int:
    """q with x a multiple of 2**-q (floats only: denominators are powers of two)"""
    return x.denominator.bit_length() - 1


def grid_exact(values: list[Fraction], bound: Fraction) -> bool:
    """every sum / difference of `values` that stays within [0, bound] is a float"""
    q = max([den_exp(v) for v in values if v != 0] + [0])
    return bound * (1 << q) < (1 << 53)


def pfrac(v: float) -> str:
    return "inf" if v == math.inf else frac(v)


def make_td(ids: list[int]):
    from tensordict import TensorDict
    return TensorDict({"obs": torch.tensor(ids, dtype=torch.float32).reshape(-1, 1)}, batch_size=[len(ids)])


class RandRecorder:
    """records every value `torch.rand` hands out while active (optionally forces them)"""

    def __init__(self, forced=None):
        self.values: list[float] = []
        self.forced = forced
        self.k = 0

    def __enter__(self):
        self.orig = torch.rand
        rec = self

        def rand(*a, **kw):
            out = rec.orig(*a, **kw)
            if rec.forced is not None:
                flat = out.reshape(-1)
                for j in range(flat.numel()):
                    flat[j] = rec.forced[rec.k % len(rec.forced)]
                    rec.k += 1
            rec.values.extend(float(v) for v in out.reshape(-1).tolist())
            return out
        torch.rand = rand
        return self

    def __exit__(self, *exc):
        torch.rand = self.orig
        return False


# ----------------------------------------------------------------------------- one case
def run_case(case: dict):
    """Runs the real implementation.  Returns (obs, model_lines, problems, tags) where obs[i] is a
    (kind, payload) observation that `same()` compares with the model's answer to model_lines[i]."""
    from agilerl.components.replay_buffer import PrioritizedReplayBuffer
    m, alpha, seed = case["max_size"], case["alpha"], case.get("seed", 0)
    torch.manual_seed(seed)
    np.random.seed(seed % (2 ** 32))
    random.seed(seed)
    kw = {}
    if case.get("dtype"):                      # documented constructor option: must not change indices or weights
        kw["dtype"] = getattr(torch, case["dtype"])
    buf = PrioritizedReplayBuffer(max_size=m, alpha=float(alpha), **kw)
    obs: list = [("lit", "ok")]
    lines = [f"seg new {m} {alpha}"]
    problems: list[str] = []
    tags: list[str] = []
    # python reference
    ref_prio: dict[int, float] = {}
    ref_ids: dict[int, int] = {}
    ref_clamped: set[int] = set()      # slots whose last update was below the clamp (value = implementation detail)
    ref_max = buf.max_priority          # the initial value is an implementation constant (model: 1)
    count = 0
    nid = 1

    def leaves():
        cap = buf.sum_tree.capacity
        return [buf.sum_tree[i] for i in range(cap)], [buf.min_tree[i] for i in range(cap)]

    def tree_exact():
        sl, _ = leaves()
        fl = [F(v) for v in sl]
        return grid_exact(fl, sum(fl))

    def check_state(where: str):
        """oracle on the implementation's own state + the model comparison lines"""
        n = len(buf)
        sl, ml = leaves()
        cap = len(sl)
        exact = tree_exact()
        if n != min(count, m):
            problems.append(f"{where}: len(buffer)={n}, expected {min(count, m)}")
        if buf.tree_ptr != buf._cursor or buf.tree_ptr != count % m:
            problems.append(f"{where}: tree_ptr={buf.tree_ptr} cursor={buf._cursor} count%max_size={count % m}")
        if buf.max_priority != ref_max:
            problems.append(f"{where}: max_priority={buf.max_priority!r}, highest priority seen so far is {ref_max!r}")
        for i in range(cap):
            if i < n and i in ref_clamped:
                if not (sl[i] == ml[i] and 0.0 < sl[i] < math.inf):
                    problems.append(f"{where}: leaf {i}: sum={sl[i]!r} min={ml[i]!r} after a tiny priority")
                    break
            elif i < n:
                want = ref_prio[i] ** float(alpha)
                if sl[i] != want or ml[i] != want:
                    problems.append(f"{where}: leaf {i}: sum={sl[i]!r} min={ml[i]!r}, expected priority**alpha={want!r}")
                    break
            elif sl[i] != 0.0 or ml[i] != math.inf:
                problems.append(f"{where}: unstored leaf {i} holds sum={sl[i]!r} min={ml[i]!r}")
                break
        tot, mn = buf.sum_tree.sum(), buf.min_tree.min()
        direct = math.fsum(sl)
        if (tot != direct) if exact else (abs(tot - direct) > TOL_SUM * max(abs(direct), 1e-300)):
            problems.append(f"{where}: running total {tot!r} != direct sum of priorities {direct!r}")
        if mn != min(ml):
            problems.append(f"{where}: running minimum {mn!r} != direct minimum {min(ml)!r}")
        lines.append("seg leaves")
        obs.append(("leaves", (tot, mn, sl, ml, exact)))
        lines.append("seg state")
        obs.append(("lit", f"{n} {buf._cursor} {buf.tree_ptr} {frac(buf.max_priority)} {cap}"))

    for op in case["ops"]:
        kind = op[0]
        if kind == "add":
            n = op[1]
            ids = list(range(nid, nid + n))
            try:
                buf.add(make_td(ids))
                ok = True
            except Exception as e:  # noqa: BLE001
                ok = False
                if 1 <= n <= m:
                    problems.append(f"add({n}) raised {type(e).__name__}: {e}")
            lines.append(f"seg add {n}")
            obs.append(("lit", "ok" if ok else "reject"))
            if not ok and 1 <= n <= m:
                return obs, lines, problems, tags          # state undefined after a failed legal add
            if ok:
                for j in range(n):
                    slot = (count + j) % m
                    ref_prio[slot] = ref_max
                    ref_ids[slot] = ids[j]
                    ref_clamped.discard(slot)
                if count % m + n > m:
                    tags.append("wrap-across")
                elif count % m + n == m:
                    tags.append("wrap-exact")
                count += n
                nid += n
                tags.append("add-batch" if n > 1 else "add-single")
            check_state(f"after add({n})")
        elif kind == "update":
            form = op[2] if len(op) > 2 else "t64"
            pairs = [(int(i), float(p)) for i, p in op[1]]
            # shrinking may leave updates of slots that hold nothing yet: not a legal call, drop them
            pairs = [(i, p) for i, p in pairs if not (len(buf) <= i < m)]
            if not pairs:
                continue
            if form == "t32":
                pairs = [(i, float(np.float32(p))) for i, p in pairs]
            idx_t = torch.tensor([i for i, _ in pairs], dtype=torch.int64)
            if form == "col":
                idx_t = idx_t.unsqueeze(1)                     # shape (k, 1) as returned by sample()
            if form == "np":
                pr = np.array([p for _, p in pairs], dtype=np.float64)
            elif form == "t32":
                pr = torch.tensor([p for _, p in pairs], dtype=torch.float32)
            else:
                pr = torch.tensor([p for _, p in pairs], dtype=torch.float64)
            legal = all(0 <= i < m for i, _ in pairs)
            try:
                buf.update_priorities(idx_t, pr)
                ok = True
            except AssertionError:
                ok = False
                if legal:
                    problems.append("update_priorities raised AssertionError on stored indices")
            except Exception as e:  # noqa: BLE001
                ok = False
                problems.append(f"update_priorities raised {type(e).__name__}: {e}")
            if ok and not legal:
                problems.append("update_priorities accepted an index outside [0, max_size)")
            for i, p in pairs:                                  # reference: sequential, stops at a bad index
                if not 0 <= i < m:
                    break
                pc = max(p, 1e-5)
                ref_prio[i] = pc
                ref_max = max(ref_max, pc)
                ref_clamped.discard(i)
                if p < 1e-5:
                    ref_clamped.add(i)
                    tags.append("upd-below-eps")
                elif p < 2.0 ** -8:
                    tags.append("upd-tiny")
                elif p >= 2.0 ** 12:
                    tags.append("upd-huge")
            if len({i for i, _ in pairs}) < len(pairs):
                tags.append("upd-repeated-index")
            if not legal:
                tags.append("upd-bad-index")
            lines.append("seg update " + " ".join(f"{i} {frac(p)}" for i, p in pairs))
            obs.append(("lit", "ok" if ok else "reject"))
            check_state("after update_priorities")
        elif kind == "sample":
            B, beta = op[1], op[2]
            forced = op[3] if len(op) > 3 else None
            if len(buf) == 0:
                continue
            sl, ml = leaves()
            n = len(buf)
            tot = buf.sum_tree.sum()
            with RandRecorder(forced) as rec:
                try:
                    s = buf.sample(B, float(beta))
                except Exception as e:  # noqa: BLE001
                    problems.append(f"sample({B}, {beta}) raised {type(e).__name__}: {e}")
                    lines.append("seg sample " + " ".join(frac(r) for r in rec.values))
                    obs.append(("lit", "reject"))
                    continue
            rs = rec.values
            idxs = [int(i) for i in s["idxs"].reshape(-1).tolist()]
            ws = [float(w) for w in s["weights"].reshape(-1).tolist()]
            rows = [int(v) for v in s["obs"].reshape(-1).tolist()]
            # ---- exactness mirror of _sample_proportional
            fl = [F(v) for v in sl]
            T = sum(fl)
            exact = grid_exact(fl, T) and F(tot) == T and len(rs) == B
            us = []
            if len(rs) == B:
                seg = tot / B
                exact = exact and F(seg) == T / B
                for j, r in enumerate(rs):
                    a, b = seg * j, seg * (j + 1)
                    d = b - a
                    mm = r * d
                    u = mm + a
                    exact = exact and F(a) == F(seg) * j and F(b) == F(seg) * (j + 1) and F(d) == F(b) - F(a) \
                        and F(mm) == F(r) * F(d) and F(u) == F(mm) + F(a)
                    us.append(F(r) * (T / B) + (T / B) * j)       # the exact mass the model uses
                exact = exact and grid_exact(fl + [F(x) for x in us], T)
            tags.append("sample-exact" if exact else "sample-toleranced")
            if case.get("dtype"):
                tags.append("dtype-" + case["dtype"])
            # ---- oracle
            if len(rs) != B and len(idxs) == B and all(0 <= i < n for i in idxs) and T > 0:
                # The indices were not selected by B recorded stratified draws (a different source of randomness,
                # or none at all), so "index i owns [prefix(i), prefix(i+1))" cannot be checked draw by draw:
                # test P(i) ~ p_i^alpha by frequencies instead (stratified sampling has LOWER variance than the
                # multinomial the statistic assumes, so this never alarms on proportional sampling).
                tags.append("sample-frequency-probe")
                K = 300
                cnt: dict[int, int] = {}
                for i in idxs:
                    cnt[i] = cnt.get(i, 0) + 1
                try:
                    for _ in range(K - 1):
                        for i in buf.sample(B, float(beta))["idxs"].reshape(-1).tolist():
                            cnt[int(i)] = cnt.get(int(i), 0) + 1
                except Exception as e:  # noqa: BLE001
                    problems.append(f"repeated sample({B}, {beta}) raised {type(e).__name__}: {e}")
                expd = [float(v / T) * B * K for v in fl[:n]]
                big = [(cnt.get(i, 0), e) for i, e in enumerate(expd) if e >= 5]
                small = [(cnt.get(i, 0), e) for i, e in enumerate(expd) if e < 5]
                if small:
                    big.append((sum(c for c, _ in small), sum(e for _, e in small)))
                stat = sum((c - e) ** 2 / e for c, e in big if e > 0)
                stat += sum(1e9 for c, e in big if e == 0 and c > 0)
                if stat > 20 * max(1, len(big) - 1) + 200:
                    problems.append(
                        f"sample({B}) on masses {[float(v) for v in fl[:n]]} used {len(rs)} uniform draws; over {K} calls "
                        f"index counts {[cnt.get(i, 0) for i in range(n)]} vs proportional expectation "
                        f"{[round(e, 1) for e in expd]} (chi-square {stat:.1f}): P(i) is not proportional to p_i^alpha")
            if len(idxs) != B or len(ws) != B:
                problems.append(f"sample({B}) returned {len(idxs)} indices / {len(ws)} weights")
            bad = [i for i in idxs if not 0 <= i < n]
            if bad:
                problems.append(f"sample({B}) returned indices {bad} that hold no transition (len(buffer)={n})")
            else:
                if rows != [ref_ids[i] for i in idxs]:
                    problems.append(f"sampled rows {rows} are not the rows stored at indices {idxs}")
                pref = [Fraction(0)]
                for v in fl:
                    pref.append(pref[-1] + v)
                for j, (i, u) in enumerate(zip(idxs, us)):
                    inside = pref[i] <= u < pref[i + 1]
                    slack = TOL_SUM * T
                    near = pref[i] - slack <= u < pref[i + 1] + slack
                    if not (inside if exact else near):
                        problems.append(f"sample({B}): draw {j} has mass {float(u)!r}, index {i} covers "
                                        f"[{float(pref[i])!r}, {float(pref[i + 1])!r})")
                        break
                # weights: (N P(i))^-beta / max_j (N P(j))^-beta, direct computation
                wmax = max((sl[j] / tot * n) ** -float(beta) for j in range(n))
                for i, w in zip(idxs, ws):
                    want = (sl[i] / tot * n) ** -float(beta) / wmax
                    if not (0.0 < w <= 1.0) or not math.isfinite(w):
                        problems.append(f"importance weight {w!r} of index {i} outside (0, 1]")
                        break
                    if abs(w - want) > TOL_W * max(1.0, abs(want)):
                        problems.append(f"importance weight {w!r} of index {i} != (N P(i))^-beta / max weight = {want!r}")
                        break
            if any(r == 0.0 for r in rs):
                tags.append("draw-stratum-start")
            if any(r == RMAX for r in rs):
                tags.append("draw-stratum-end")
            tags.append(f"beta-{beta}")
            lines.append("seg sample " + " ".join(frac(r) for r in rs))
            obs.append(("idxs", (idxs, us, fl, exact)))
            if not bad and idxs:
                if beta in (0, 1, 2):
                    lines.append(f"seg weights {beta} " + " ".join(map(str, idxs)))
                    obs.append(("weights", ws))
                else:
                    lines.append("seg bases " + " ".join(map(str, idxs)))
                    obs.append(("bases", (ws, float(beta))))
        elif kind == "retrieve":
            u = op[1]
            if isinstance(u, list):                                 # symbolic: ["prefix", i, k] etc.
                u = resolve_mass(buf, u)
                if u is None:
                    continue
            sl, _ = leaves()
            fl = [F(v) for v in sl]
            T = sum(fl)
            tot = buf.sum_tree.sum()
            exact = grid_exact(fl + [F(u)], max(T, F(u))) and F(tot) == T
            try:
                i = buf.sum_tree.retrieve(u)
                res = str(i)
            except AssertionError:
                i, res = None, "reject"
            n = len(buf)
            if i is not None and 0 <= F(u) < T and exact:
                pref = [Fraction(0)]
                for v in fl:
                    pref.append(pref[-1] + v)
                if not (0 <= i < n) or not (pref[i] <= F(u) < pref[i + 1]):
                    problems.append(f"retrieve({u!r}) = {i}: not the stored index whose prefix interval contains the mass "
                                    f"(total {float(T)!r}, len {n})")
            if i is None and 0 <= F(u) < T:
                problems.append(f"retrieve({u!r}) rejected a mass inside [0, total)")
            tags.append("retrieve-exact" if exact else "retrieve-toleranced")
            if exact or res == "reject":
                lines.append(f"seg retrieve {frac(u)}")
                obs.append(("lit", res))
        elif kind in ("sum", "min"):
            s_, e_ = op[1], op[2]
            tree = buf.sum_tree if kind == "sum" else buf.min_tree
            cap = tree.capacity
            sl, ml = leaves()
            e2 = (e_ if e_ > 0 else cap) - 1
            feasible = s_ <= e2 < cap
            try:
                v = tree.sum(s_, e_) if kind == "sum" else tree.min(s_, e_)
                res = ("num", v)
            except (RecursionError, IndexError, AssertionError):
                res = ("lit", "reject")
                if feasible:
                    problems.append(f"{kind}({s_}, {e_}) raised on a feasible range")
            if feasible and res[0] == "num":
                direct = math.fsum(sl[s_:e2 + 1]) if kind == "sum" else min(ml[s_:e2 + 1])
                ex = tree_exact()
                if (v != direct) if (ex or kind == "min") else (abs(v - direct) > TOL_SUM * max(abs(direct), 1e-300)):
                    problems.append(f"{kind}({s_}, {e_}) = {v!r}, direct computation over the leaves gives {direct!r}")
            if not feasible and res[0] == "num":
                res = ("lit", f"value-on-infeasible-range {v!r}")
            lines.append(f"seg {kind} {s_} {e_}")
            obs.append(("num", (res[1], tree_exact())) if res[0] == "num" else res)
            tags.append(f"range-{kind}")
        else:
            raise InfraError(f"unknown op {op!r}")
    return obs, lines, problems, tags


def resolve_mass(buf, spec):
    """symbolic query masses for direct `retrieve` calls, computed from the live tree"""
    cap = buf.sum_tree.capacity
    sl = [buf.sum_tree[i] for i in range(cap)]
    n = len(buf)
    tot = buf.sum_tree.sum()
    if n == 0:
        return None
    kind = spec[0]
    if kind == "prefix":                          # exactly on the boundary in front of stored leaf i
        i = spec[1] % n
        return math.fsum(sl[:i])
    if kind == "below":                           # one grid step below that boundary
        i = spec[1] % n + 1
        p = math.fsum(sl[:i])
        q = max(den_exp(F(v)) for v in sl if v != 0)
        return p - 2.0 ** -(q + 2)
    if kind == "stratum":                         # left end of stratum j of a batch of B
        B, j = spec[1], spec[2] % spec[1]
        return tot / B * j
    if kind == "stratum-end":                     # largest mass a draw can produce in stratum j
        B, j = spec[1], spec[2] % spec[1]
        seg = tot / B
        return RMAX * (seg * (j + 1) - seg * j) + seg * j
    if kind == "total":
        return tot
    if kind == "beyond":
        return tot + 1.0
    if kind == "negative":
        return -1.0
    raise InfraError(f"unknown mass {spec!r}")


# ----------------------------------------------------------------------------- comparison
def same(ob, model: str) -> bool:
    kind, pay = ob
    if kind == "lit":
        return pay == model
    if model in ("reject", "bad-op"):
        return False
    try:
        if kind == "leaves":
            tot, mn, sl, ml, exact = pay
            head, a, b = [x.strip() for x in model.split("|")]
            mt, mm = head.split()
            if not num_same(tot, mt, exact):
                return False
            return mm == pfrac(mn) and a.split() == [frac(v) for v in sl] and b.split() == [pfrac(v) for v in ml]
        if kind == "num":
            v, exact = pay
            return num_same(v, model, exact)
        if kind == "idxs":
            idxs, us, fl, exact = pay
            mi = [int(x) for x in model.split()]
            if mi == idxs:
                return True
            if exact or len(mi) != len(idxs):
                return False
            T = sum(fl)
            pref = [Fraction(0)]
            for v in fl:
                pref.append(pref[-1] + v)
            for a, b, u in zip(idxs, mi, us):
                if a != b:
                    lo, hi = min(a, b), max(a, b)
                    if not any(abs(pref[k] - u) <= TOL_SUM * T for k in range(lo + 1, hi + 1)):
                        return False
            return True
        if kind == "weights":
            mw = [Fraction(x) for x in model.split()]
            return len(mw) == len(pay) and all(abs(float(a) - w) <= TOL_W * max(1.0, float(a)) for a, w in zip(mw, pay))
        if kind == "bases":
            ws, beta = pay
            xs = [float(Fraction(x)) for x in model.split()]
            want = [x ** -beta / xs[0] ** -beta for x in xs[1:]]
            return len(want) == len(ws) and all(abs(a - w) <= TOL_W * max(1.0, a) for a, w in zip(want, ws))
    except (ValueError, ZeroDivisionError, IndexError):
        return False
    raise InfraError(f"unknown observation kind {kind}")


def num_same(v: float, model: str, exact: bool) -> bool:
    if v == math.inf or model == "inf":
        return model == "inf" and v == math.inf
    mv = Fraction(model)
    if F(v) == mv:
        return True
    return (not exact) and abs(F(v) - mv) <= Fraction(TOL_SUM) * max(abs(mv), abs(F(v)))


def show(ob) -> str:
    kind, pay = ob
    if kind == "lit":
        return pay
    if kind == "leaves":
        return f"{pfrac(pay[0])} {pfrac(pay[1])} | {' '.join(frac(v) for v in pay[2])} | {' '.join(pfrac(v) for v in pay[3])}"
    if kind == "num":
        return pfrac(pay[0])
    if kind == "idxs":
        return " ".join(map(str, pay[0]))
    if kind == "weights":
        return " ".join(repr(w) for w in pay)
    return " ".join(repr(w) for w in pay[0])


def drive(chk: Check, lines: list[str]) -> list[str]:
    """the shared driver binary is briefly absent while somebody relinks it: wait instead of failing"""
    import time
    for attempt in range(40):
        try:
            return chk.driver.run(lines)
        except InfraError as e:
            if "missing" not in str(e) or attempt == 39:
                raise
            time.sleep(3)
    raise InfraError("driver executable missing")


def one_case(chk: Check, case: dict):
    """returns (diff index or None, problems, tags, impl lines, model lines)"""
    try:
        obs, lines, problems, tags = run_case(case)
    except InfraError:
        raise
    except Exception as e:  # noqa: BLE001  the implementation raised where the harness did not expect it
        return None, [f"implementation raised {type(e).__name__}: {e}"], [], [], []
    model = drive(chk, ["reset"] + lines)[1:]
    chk.corr["model_lines"] += len(lines)
    diff = next((i for i, (o, mline) in enumerate(zip(obs, model)) if not same(o, mline)), None)
    return diff, problems, tags, [show(o) for o in obs], model


# ----------------------------------------------------------------------------- generators
def dyadic(rng: random.Random, window: int, allow_below_eps: bool) -> float:
    """k * 2**e with a few mantissa bits, e inside the case's exponent window"""
    r = rng.random()
    if allow_below_eps and r < 0.10:
        return rng.choice([0.0, 2.0 ** -20, 2.0 ** -17, 3 * 2.0 ** -19, 1e-6, 9.9e-6])     # all < 1e-5: clamped
    if r < 0.22:
        return 2.0 ** rng.randint(window - 4, window)                                           # powers of two
    k = rng.randint(1, 255)
    return k * 2.0 ** rng.randint(window - 8, window - 4)


def gen_case(rng: random.Random, tier: str) -> dict:
    m = rng.choice([1, 2, 3, 5, 6, 7, 9, 10, 11, 12, 13, 15, 17, 19, 20]) if rng.random() < 0.75 else rng.randint(1, 20)
    alpha = rng.choice([1, 1, 1, 2, 0])
    profile = rng.choice(["mid", "mid", "tiny", "huge", "mixed"])
    window = {"mid": 3, "tiny": -8, "huge": 20, "mixed": rng.randint(-8, 16)}[profile]
    below = alpha != 2 and rng.random() < 0.35
    ops, size, count = [], 0, 0
    length = rng.randint(5, 14 if tier == "quick" else 30)
    for _ in range(length):
        r = rng.random()
        if size == 0 or r < 0.34:
            cur = count % m
            mode = rng.random()
            if mode < 0.3:
                n = max(1, m - cur)                                     # end exactly at the boundary
            elif mode < 0.55:
                n = min(m, m - cur + rng.randint(1, max(1, m // 2)))    # run across the end
            elif mode < 0.62:
                n = m
            else:
                n = rng.randint(1, m)
            n = max(1, min(n, m))
            ops.append(["add", n])
            count += n
            size = min(m, size + n)
        elif r < 0.62:
            k = rng.randint(1, min(6, 2 * size))
            pairs = []
            for _ in range(k):
                i = rng.randrange(size) if not pairs or rng.random() < 0.7 else pairs[-1][0]     # repeated indices
                pairs.append([i, dyadic(rng, window, below)])
            if rng.random() < 0.04:
                pairs.insert(rng.randrange(len(pairs) + 1), [rng.choice([m, m + 3, -1]), 1.0])    # rejected index
            ops.append(["update", pairs, rng.choice(["t64", "t64", "col", "np", "t32"])])
        elif r < 0.84:
            B = rng.choice([1, 2, 4, 8, 16, 32])
            beta = rng.choice([0, 1, 1, 2, 0.4, 0.4, 0.7, 1.0 / 3])
            op = ["sample", B, beta]
            f = rng.random()
            if f < 0.15:
                op.append([0.0])                                        # every draw at the start of its stratum
            elif f < 0.30:
                op.append([RMAX])                                       # every draw at the end of its stratum
            elif f < 0.40:
                op.append([0.0, RMAX, 0.5])
            ops.append(op)
        elif r < 0.93:
            ops.append(["retrieve", rng.choice([
                ["prefix", rng.randrange(64)], ["below", rng.randrange(64)],
                ["stratum", rng.choice([2, 4, 8, 16]), rng.randrange(16)],
                ["stratum-end", rng.choice([2, 4, 8, 16]), rng.randrange(16)],
                ["total"], ["beyond"], ["negative"]])])
        else:
            cap = 1
            while cap < m:
                cap *= 2
            s_ = rng.randrange(cap)
            e_ = rng.choice([0, rng.randint(s_ + 1, cap)])
            if rng.random() < 0.12:
                e_ = rng.choice([s_, max(0, s_ - 1), cap + 1]) or cap + 2   # infeasible
            ops.append([rng.choice(["sum", "min"]), s_, e_])
    if not any(o[0] == "sample" for o in ops):
        ops.append(["sample", rng.choice([1, 2, 4, 8]), rng.choice([0, 1, 0.4])])
    case = {"max_size": m, "alpha": alpha, "seed": rng.randrange(1 << 30), "ops": ops}
    r = rng.random()
    if r < 0.18:                               # the documented `dtype` constructor option, non-default
        case["dtype"] = "float16" if r < 0.07 else "bfloat16" if r < 0.12 else "float64"
    return case


def shrink(chk: Check, case: dict, by_oracle: bool) -> dict:
    def still_fails(sub):
        d, p, *_ = one_case(chk, dict(case, ops=sub))
        return bool(p) if by_oracle else d is not None
    return dict(case, ops=ddmin(case["ops"], still_fails))


# ----------------------------------------------------------------------------- float suites (oracle only)
def float_sample_suite(chk: Check, n_cases: int) -> int:
    """arbitrary (non-dyadic) priorities and alpha, adversarial draws at the ends of every stratum:
    whatever rounding does inside the tree, `sample` must hand out stored indices and weights in (0, 1]"""
    from agilerl.components.replay_buffer import PrioritizedReplayBuffer
    rng = chk.rng
    bad = 0
    for _ in range(n_cases):
        m = rng.randint(1, 40)
        alpha = rng.choice([0.6, 1.0, 0.3, 0.9])
        k = rng.randint(1, 2 * m)
        cs = rng.randrange(1 << 30)
        torch.manual_seed(cs)
        buf = PrioritizedReplayBuffer(max_size=m, alpha=alpha)
        try:
            for j in range(k):
                buf.add(make_td([j + 1]))
        except Exception as e:  # noqa: BLE001
            bad += 1
            chk.case(["float-sample-add", m, alpha, k], nontrivial=k > m, tags=["float-sample"])
            chk.violation(f"add of single transitions raised {type(e).__name__} after {j} additions (max_size {m})",
                          {"max_size": m, "alpha": 1, "seed": cs, "ops": [["add", 1]] * (j + 1)})
            continue
        n = len(buf)
        style = rng.choice(["uniform", "wide", "equal", "thirds"])
        pr = []
        for _j in range(n):
            if style == "uniform":
                pr.append(rng.random() + 1e-3)
            elif style == "wide":
                pr.append(10 ** rng.uniform(-5, 5))
            elif style == "equal":
                pr.append(0.1)
            else:
                pr.append(rng.choice([1 / 3, 2 / 3, 0.7, 1e-4]))
        buf.update_priorities(torch.arange(n), torch.tensor(pr, dtype=torch.float64))
        B = rng.choice([1, 2, 3, 5, 7, 32, 33, 100, 1000])
        forced = rng.choice([[RMAX], [0.0], [RMAX, 0.0], None])
        beta = rng.choice([0.0, 0.4, 1.0])
        problems = []
        try:
            with RandRecorder(forced):
                s = buf.sample(B, beta)
            idxs = s["idxs"].reshape(-1).tolist()
            ws = s["weights"].reshape(-1).tolist()
            if any(not 0 <= i < n for i in idxs):
                problems.append(f"sample({B}) returned indices {[i for i in idxs if not 0 <= i < n]} that hold no "
                                f"transition (len {n}, max_size {m})")
            if any(not (0.0 < w <= 1.0 + 1e-6) for w in ws):
                problems.append(f"importance weights outside (0, 1]: {[w for w in ws if not (0.0 < w <= 1.0 + 1e-6)][:3]}")
        except Exception as e:  # noqa: BLE001
            problems.append(f"sample({B}, {beta}) raised {type(e).__name__}: {e}")
        chk.case(["float-sample", m, alpha, k, pr, B, forced, beta], nontrivial=k > m or forced is not None,
                 sample=None, tags=["float-sample", f"float-{style}"] + (["float-forced-ends"] if forced else []))
        if problems:
            bad += 1
            chk.violation(problems[0], {"suite": "float-sample", "max_size": m, "alpha": alpha, "adds": k,
                                        "priorities": pr, "batch": B, "forced_draws": forced, "beta": beta,
                                        "seed": cs, "oracle_problems": problems})
    return bad


def probe_float_edge(chk: Check) -> None:
    """the analysed rounding edge of the raw prefix-sum walk (source TODO in `retrieve`): a direct call
    with the largest float below the total returns a leaf that holds nothing.  Exactly this input."""
    from agilerl.components.segment_tree import SumSegmentTree
    t = SumSegmentTree(4)
    for i, v in enumerate(EDGE_LEAVES):
        t[i] = v
    total = t.sum()
    u = math.nextafter(total, 0.0)
    i = t.retrieve(u)
    chk.case(["float-edge"], nontrivial=True, tags=["float-edge-probe"])
    if not (0 <= i < len(EDGE_LEAVES)) or t[i] <= 0.0:
        chk.finding(FINDING_ID,
                    f"SumSegmentTree(4) with leaves {EDGE_LEAVES}: retrieve(nextafter(total, 0) = {u!r}) = {i}, "
                    f"a leaf of mass {t[i]!r} (total {total!r})",
                    {"suite": "float-edge", "capacity": 4, "leaves": EDGE_LEAVES, "u": u, "returned": i})


# ----------------------------------------------------------------------------- source translation
def pre_gate(chk: Check) -> None:
    """Regenerate lean/Gen/SegTreeGen.lean (segment_tree.py) and lean/Gen/PerGen.lean (class
    PrioritizedReplayBuffer of replay_buffer.py; it calls the generated tree functions) from the source text of
    the tree under test, before the Lean gate, and re-check the equalities `generated definition = model function`
    (Proofs/SegTreeGenEq.lean, Proofs/PerGenEq.lean) and the theorems over the generated definitions
    (Props/C11.lean).  A failure is a gate problem naming the declaration; the correspondence and the oracle then
    look for the failing input."""
    common.translation_gate(chk, py2lean_segtree, "Gen/SegTreeGen.lean", ["Gen.SegTreeGen", "Proofs.SegTreeGenEq"],
                            "array segment trees")
    common.translation_gate(chk, py2lean_per, "Gen/PerGen.lean", ["Gen.PerGen", "Proofs.PerGenEq", "Props.C11"],
                            "PrioritizedReplayBuffer")


# ----------------------------------------------------------------------------- check
def run(chk: Check) -> None:
    rng = chk.rng
    quick = chk.tier == "quick"
    chk.rule = ("random interleavings of add (batch widths biased to end exactly at / run across the end of the ring), "
                "update_priorities (dyadic priorities in an exponent window per case: tiny, huge, repeated indices, values "
                "below the 1e-5 clamp, a few rejected indices; tensor/ndarray/column forms), sample (batch 1..32, beta in "
                "{0,1,2,0.4,0.7,1/3}, recorded or forced draws 0 and 1-2^-24), direct retrieve at prefix boundaries and "
                "stratum ends, range sum/min; max_size 1..20, alpha in {0,1,2}; plus an oracle-only float suite with "
                "arbitrary priorities; distinct = distinct (max_size, alpha, seed, op list); non-trivial = the ring wrapped "
                "or a priority was updated before a sample")
    chk.assumptions = [
        "update_priorities is called with indices of stored transitions (what sample returns); the code also accepts "
        "any index < max_size, and then samples it (theorem C11_update_unstored_witness)",
        "priorities stay in a range where x ** -beta neither overflows nor underflows float32",
        "exact comparison relies on IEEE-754 double arithmetic being exact on the dyadic inputs; the harness verifies "
        "this per sample with a Fraction mirror and otherwise compares with relative tolerance 1e-9 (sums) / 1e-6 (weights)",
        "x ** alpha and x ** -beta are Python float pow; the model treats them as a positive resp. positive antitone function",
    ]
    for rel, st in chk.corr.get("source_translation", {}).items():
        chk.notes.append(f"source translation {rel}: {st.get('status', 'not run')}; source sha256={st.get('source_sha256')}; "
                         f"translation sha256={st.get('translation_sha256')}")
    chk.trusted_extra.append("harness/py2lean_segtree.py, harness/py2lean_per.py (translators of segment_tree.py and of "
                             "PrioritizedReplayBuffer; their output is proved equal to the hand-written model, so an error "
                             "in them can only make the gate fail, unless it mistranslates towards the model)")
    if drive(chk, ["reset", "seg eps"])[1] != frac(1e-5):
        raise InfraError("model constant eps is not the float 1e-5")
    cases = []
    for f in sorted((ROOT / "corpus" / "C11").glob("*.json")):
        c = json.loads(f.read_text())
        cases.append(c.get("replay", c))
    n_cases = 500 if quick else 4000
    for _ in range(n_cases):
        cases.append(gen_case(rng, chk.tier))
    ndiff = 0
    for case in cases:
        if case.get("suite"):
            continue
        diff, problems, tags, impl, model = one_case(chk, case)
        nontrivial = any(t in ("wrap-across", "wrap-exact") for t in tags) or \
            (any(t.startswith("upd-") for t in tags) and any(t.startswith("sample-") for t in tags))
        chk.case([case["max_size"], case["alpha"], case["seed"], case["ops"]], nontrivial=nontrivial,
                 sample={"max_size": case["max_size"], "alpha": case["alpha"], "ops": case["ops"][:6]},
                 tags=tags + [f"alpha-{case['alpha']}", f"max_size-{'pow2' if case['max_size'] & (case['max_size'] - 1) == 0 else 'other'}"])
        if diff is None and not problems:
            continue
        ndiff += diff is not None
        small = shrink(chk, case, bool(problems))
        d2, p2, _, impl2, model2 = one_case(chk, small)
        replay_obj = dict(small, impl=impl2, model=model2, oracle_problems=p2 or problems,
                          correspondence="harness/c11.py vs Model/SegTree.lean", theorems=chk.gate["theorems"])
        if problems:
            chk.violation((p2 or problems)[0], replay_obj)
        else:
            at = d2 if d2 is not None else diff
            il, ml = (impl2, model2) if d2 is not None else (impl, model)
            chk.violation(f"implementation and SegTree model disagree at line {at}: impl={il[at]!r} model={ml[at]!r}; "
                          f"property oracle holds on this case and its shrinks", replay_obj, no_input=True)
    chk.suite("per-ops", len(cases), ndiff)
    nfloat = 600 if quick else 6000
    chk.suite("float-sample", nfloat, float_sample_suite(chk, nfloat))
    probe_float_edge(chk)
    if chk.tier == "thorough":
        selftest(chk)


# ----------------------------------------------------------------------------- self-test
def selftest(chk: Check) -> None:
    """seeded faults in the implementation must be noticed by the suite"""
    from agilerl.components import replay_buffer as rb
    from agilerl.components import segment_tree as st

    def detected(case) -> bool:
        diff, problems, *_ = one_case(chk, case)
        return diff is not None or bool(problems)

    # 1. tree_ptr wraps at the tree capacity instead of max_size
    orig_add = rb.PrioritizedReplayBuffer.add

    def add_wrong_wrap(self, data):
        rb.ReplayBuffer.add(self, data)
        for _ in range(data.shape[0]):
            p = self.max_priority ** self.alpha
            self.sum_tree[self.tree_ptr] = p
            self.min_tree[self.tree_ptr] = p
            self.tree_ptr = (self.tree_ptr + 1) % self.sum_tree.capacity
    rb.PrioritizedReplayBuffer.add = add_wrong_wrap
    try:
        ok1 = detected({"max_size": 3, "alpha": 1, "seed": 1,
                        "ops": [["add", 2], ["add", 2], ["update", [[0, 4.0]], "t64"], ["add", 1], ["sample", 4, 1]]})
    finally:
        rb.PrioritizedReplayBuffer.add = orig_add
    # 2. `>` -> `>=` in retrieve
    orig_retrieve = st.SumSegmentTree.retrieve

    def retrieve_ge(self, upperbound):
        assert 0 <= upperbound <= self.sum() + 1e-5
        idx = 1
        while idx < self.capacity:
            left = 2 * idx
            if self.tree[left] >= upperbound:
                idx = left
            else:
                upperbound -= self.tree[left]
                idx = left + 1
        return idx - self.capacity
    st.SumSegmentTree.retrieve = retrieve_ge
    try:
        ok2 = detected({"max_size": 5, "alpha": 1, "seed": 2,
                        "ops": [["add", 4], ["update", [[1, 2.0], [2, 0.5]], "t64"], ["sample", 4, 1, [0.0]],
                                ["retrieve", ["prefix", 2]]]})
    finally:
        st.SumSegmentTree.retrieve = orig_retrieve
    # 3. max_priority is not maintained
    orig_up = rb.PrioritizedReplayBuffer._update_priority

    def up_no_max(self, idx, priority):
        keep = self.max_priority
        orig_up(self, idx, priority)
        self.max_priority = keep
    rb.PrioritizedReplayBuffer._update_priority = up_no_max
    try:
        ok3 = detected({"max_size": 4, "alpha": 1, "seed": 3,
                        "ops": [["add", 2], ["update", [[0, 8.0]], "t64"], ["add", 1], ["sample", 2, 1]]})
    finally:
        rb.PrioritizedReplayBuffer._update_priority = orig_up
    # 4. the clamp of tiny priorities is dropped -> weights / leaves differ
    orig_upd = rb.PrioritizedReplayBuffer.update_priorities

    def upd_no_clamp(self, indices, priorities):
        for idx, priority in zip(indices, priorities):
            self._update_priority(idx.item(), priority.item())
    rb.PrioritizedReplayBuffer.update_priorities = upd_no_clamp
    try:
        ok4 = detected({"max_size": 4, "alpha": 1, "seed": 4,
                        "ops": [["add", 3], ["update", [[1, 2.0 ** -20]], "t64"], ["sample", 2, 1]]})
    finally:
        rb.PrioritizedReplayBuffer.update_priorities = orig_upd
    # 5. weights normalised by the sampled maximum instead of the global one
    orig_w = rb.PrioritizedReplayBuffer._calculate_weights

    def w_batch_max(self, indices, beta):
        w = torch.tensor([(self.sum_tree[int(i)] / self.sum_tree.sum() * self.size) ** -beta for i in indices])
        return (w / w.max()).to(torch.float32)
    rb.PrioritizedReplayBuffer._calculate_weights = w_batch_max
    try:
        ok5 = detected({"max_size": 4, "alpha": 1, "seed": 5,
                        "ops": [["add", 4], ["update", [[0, 0.25], [1, 8.0], [2, 8.0], [3, 8.0]], "t64"],
                                ["sample", 1, 1, [RMAX]]]})
    finally:
        rb.PrioritizedReplayBuffer._calculate_weights = orig_w
    res = {"tree_ptr wraps at tree capacity": ok1, "retrieve uses >=": ok2, "max_priority not updated": ok3,
           "clamp of tiny priorities dropped": ok4, "weights normalised by batch maximum": ok5}
    missed = [k for k, v in res.items() if not v]
    if missed:
        raise InfraError(f"C11 self-test: seeded faults not noticed: {missed}")
    chk.notes.append("self-test: detected seeded faults: " + "; ".join(res))


# ----------------------------------------------------------------------------- replay
def replay(chk: Check, path: str) -> int:
    c = json.loads(open(path).read())
    c = c.get("replay", c)
    if c.get("suite") == "float-edge":
        from agilerl.components.segment_tree import SumSegmentTree
        t = SumSegmentTree(c["capacity"])
        for i, v in enumerate(c["leaves"]):
            t[i] = v
        i = t.retrieve(c["u"])
        print(json.dumps({"retrieve": i, "leaf": t[i], "total": t.sum()}))
        if not (0 <= i < len(c["leaves"])) or t[i] <= 0.0:
            print(f"VIOLATION property=C11 replay={path}")
            return 1
        return 0
    if c.get("suite") == "float-sample":
        from agilerl.components.replay_buffer import PrioritizedReplayBuffer
        torch.manual_seed(c["seed"])
        buf = PrioritizedReplayBuffer(max_size=c["max_size"], alpha=c["alpha"])
        for j in range(c["adds"]):
            buf.add(make_td([j + 1]))
        n = len(buf)
        buf.update_priorities(torch.arange(n), torch.tensor(c["priorities"], dtype=torch.float64))
        try:
            with RandRecorder(c["forced_draws"]):
                s = buf.sample(c["batch"], c["beta"])
            idxs = s["idxs"].reshape(-1).tolist()
            ws = s["weights"].reshape(-1).tolist()
            bad = any(not 0 <= i < n for i in idxs) or any(not (0.0 < w <= 1.0 + 1e-6) for w in ws)
            print(json.dumps({"len": n, "idxs": idxs, "weights": ws}))
        except Exception as e:  # noqa: BLE001
            print(f"sample raised {type(e).__name__}: {e}")
            bad = True
        if bad:
            print(f"VIOLATION property=C11 replay={path}")
            return 1
        return 0
    diff, problems, _, impl, model = one_case(chk, c)
    print(json.dumps({"diff_at": diff, "oracle_problems": problems, "impl": impl, "model": model}, indent=1))
    if problems:
        print(f"VIOLATION property=C11 replay={path}")
        return 1
    if diff is not None:
        print(f"VIOLATION property=C11 replay={path} no-failing-input-found")
        return 1
    return 0
