"""
C12 — the vectorised multi-agent PettingZoo environment equals N independent environments.

Correspondence: the real `AsyncPettingZooVecEnv` (real worker processes, the start method the class
chooses) over the scripted counting environments of `harness/envs.py` — per-environment episode
lengths, so automatic resets interleave; termination-only / truncation-only / mixed endings; agents
leaving early (the same agents in every episode, or per-episode leave vectors: the ORDER in which the agents
finish differs from episode to episode); environments that prune and finally empty `env.agents`, environments that
keep the whole team listed until reset() and signal the end of an episode through the termination / truncation flags
only, environments that drop early leavers but keep the last finishers listed (`agents_attr`); explicit reset() calls
at arbitrary points INSIDE episodes (some agents of a sub-environment already finished, others not; every
sub-environment at another point of its episode); vector / image / dict / tuple observations with many dtypes; discrete and continuous
actions; copy and no-copy modes; seeds; action dicts whose keys are inserted in another order than
possible_agents (reversed, or re-shuffled at every step, with pairwise different per-agent actions);
per-environment step delays that script the completion order of the workers (lower indices slower,
higher indices slower, random: the implementation-side counterpart of C12_schedule_independent);
observations handed out as non-C-contiguous views (transposed, axis-moved, Fortran, strided, negative
strides) — is
driven by op sequences (reset(seed) | step(actions[, key order])).  Actions, the reference, the model
input and the environments' action logs are all keyed by agent id.

* reference (oracle 1): the same environment class stepped sequentially in this process with the same
  actions, the placeholder rule of `get_placeholder_value` and the same auto-reset rule; every field at
  every position must be equal exactly, with the declared dtype and shape;
* provenance (oracle 2, needs neither the reference nor the model): every number an environment hands
  out encodes (env, episode, step, agent, member, seed salt); position i must show env i, the step
  counter advances by one, and exactly when all agents of env i are done the episode counter advances
  and the step shown is 0 (first observation of the new episode); what each worker's environment
  logged as received actions must be column i of the actions sent;
* model: `Model/VecEnv.lean` is driven with the same scripts and action codes and its canonical output
  (provenance text of every field at every position) is diffed with the implementation's.

The single-environment `PettingZooAutoResetParallelWrapper` is checked the same way in-process, over the same
environment scripts (leave vectors, `agents_attr` conventions, explicit resets inside episodes): every dict it returns
is compared with what the same environment stepped alone under the auto-reset rule returns (same agents, observation
value / dtype / shape, reward, flags, info), plus the provenance oracle and the model's `w*` ops.

Source translation (`pre_gate`, before the Lean gate): `py2lean_vecenv.py` translates, from the source text of the tree
under test, the wrapper's `reset` / `step`, `PettingZooVecEnv.step` (de-batching, per-agent int conversion),
`AsyncPettingZooVecEnv.reset / reset_async / step_async` (seeds, messages), `get_placeholder_value`,
`process_transition` and the command dispatch + "reset" / "step" branches of `_async_worker` into
lean/Gen/VecEnvGen.lean; Proofs/VecEnvGenEq.lean proves the generated definitions equal to Model/VecEnv.lean and
Props/C12.lean restates the theorems over them (`C12_source_translation_*`).
A second translator, `py2lean_vecrecv.py`, translates the shared-memory layout and the parent's receive side
(`_create_memory_array`, `create_shared_memory`, `write_to_shared_memory` and the worker's calls of it,
`Observations.__init__ / __getitem__`, `step_wait`, `reset_wait`, `_add_info`) into lean/Gen/VecRecvGen.lean;
Proofs/VecRecvGenEq.lean proves the generated slices / buffer lengths / reader rows equal to Model/VecEnv.lean §1b
(`C12_source_translation_recv_*`).  Two direct suites (no worker processes) drive the real functions:
`shm-direct` (create_shared_memory / write_to_shared_memory / Observations over scalar, vector, image, Dict and Tuple
spaces with different shapes and dtypes per agent, 1-5 envs, writes of shuffled envs / agent subsets in several rounds;
after EVERY write every cell of every raw buffer is compared with the model's `offsetOf size env j = env*size + j`, then
every `Observations[agent][member][env]` with what env wrote, shape `(n, *viewShape)`), and `add-info-direct`
(`_add_info` histories with nested, sparse, out-of-order infos of int / float / bool / np.float32 / ndarray / None / str
values: env i's value under index i, `_key` masks true exactly for the reporting envs, nothing leaks to other indices).
Every vec env is closed in `finally`; no worker outlives a case.  The public blocking calls are used exactly
as a caller uses them (no timeouts: a timeout makes the parent poll every pipe in index order first, which
hides the order in which the workers really finish); a SIGALRM wall-clock guard per case bounds a hang.
"""
from __future__ import annotations

import functools
import json
import os
import signal
import time
from pathlib import Path

import numpy as np

import envs as scripted
from common import REPO, ROOT, Check, InfraError, ddmin, frac

# worker subprocesses must import agilerl from the tree under test and `envs` from here, whatever the
# multiprocessing start method: fork inherits sys.modules, spawn/forkserver get sys.path + PYTHONPATH
_PP = [str(REPO), str(Path(__file__).resolve().parent)]
os.environ["PYTHONPATH"] = os.pathsep.join(
    _PP + [p for p in os.environ.get("PYTHONPATH", "").split(os.pathsep) if p and p not in _PP])

CASE_S = 120
DTYPES = ["float32", "float64", "int8", "uint8", "int16", "uint16", "int32", "uint32", "int64", "uint64"]
AGENT_NAMES = ["agent_0", "agent_1", "other_agent_0"]
PART_KEYS = ["pos", "img", "aux"]


# ----------------------------------------------------------------------------- case generation
def gen_part(rng, key, image: bool, allow_unsigned=True):
    dts = DTYPES if allow_unsigned else [d for d in DTYPES if not d.startswith("u")]
    if image:
        shape = [rng.randint(1, 3), rng.randint(2, 4), rng.randint(2, 3)]
        dtype = rng.choice(["uint8", "uint8", "float32", "int16"]) if allow_unsigned else rng.choice(["float32", "int16"])
    else:
        shape = [rng.choice([1, 2, 3, 5, 6, 7, 9, 13])]
        dtype = rng.choice(dts)
    return [key, shape, dtype]


def gen_obs_spec(rng, kind):
    if kind == "vector":
        return {"kind": kind, "parts": [gen_part(rng, "o", False)]}
    if kind == "image":
        return {"kind": kind, "parts": [gen_part(rng, "o", True)]}
    n = rng.randint(2, 3)
    keys = rng.sample(PART_KEYS, n) if kind == "dict" else [str(i) for i in range(n)]
    return {"kind": kind, "parts": [gen_part(rng, k, rng.random() < 0.4) for k in keys]}


def gen_leaves(rng, n_agents: int) -> list:
    """2-3 per-episode leave vectors (cycled by episode) in which the agents finish in DIFFERENT orders: the
    agents that leave early in the first vector stay to the end in the second one and the other way round"""
    first = set(rng.sample(range(n_agents), rng.randint(1, n_agents - 1)))
    rest = [a for a in range(n_agents) if a not in first]
    second = set(rng.sample(rest, rng.randint(1, len(rest))))
    vecs = [[rng.randint(1, 3) if a in grp else 0 for a in range(n_agents)] for grp in (first, second)]
    if rng.random() < 0.4:
        vecs.append([rng.choice([0, 0, 1, 2, 3]) for _ in range(n_agents)])
        if all(vecs[-1]):
            vecs[-1][rng.randrange(n_agents)] = 0
    if rng.random() < 0.5:
        rng.shuffle(vecs)
    return vecs


def gen_env_script(rng, n_agents: int, max_len: int) -> dict:
    """one sub-environment's script: episode lengths and endings (cycled), who leaves when (the same in every
    episode, or per-episode vectors with different finishing orders), what it does with its `agents` attribute"""
    lens = [rng.randint(1, max_len) for _ in range(rng.randint(1, 3))]
    leave = [0] * n_agents
    e = {}
    r = rng.random()
    if n_agents > 1 and r < 0.3:
        for a in rng.sample(range(n_agents), rng.randint(1, n_agents - 1)):
            leave[a] = rng.randint(1, 3)
    elif n_agents > 1 and r < 0.6:
        e["leaves"] = gen_leaves(rng, n_agents)
        lens = [rng.randint(2, max(3, max_len)) for _ in lens]       # long enough for somebody to leave early
    e.update({"lens": lens, "leave": leave, "rev_dicts": rng.random() < 0.2,
              "agents_attr": rng.choice(scripted.AGENTS_ATTR)})
    return e


def gen_ops(rng, act, n_envs, key_order, n_seq, n_steps) -> list:
    """reset(seed) | step op sequences.  Besides the resets that open each of the `n_seq` sequences, explicit resets
    are inserted at arbitrary points INSIDE the sequences (per case rate 0 / 0.1 / 0.25 per step): the sub-environments
    are then in the middle of different episodes, some of their agents already finished, others not"""
    p_reset = rng.choice([0.0, 0.1, 0.1, 0.25])
    ops = []
    for _ in range(n_seq):
        ops.append(["reset", rng.choice([None, rng.randrange(0, 1000), rng.randrange(0, 50)])])
        for _ in range(n_steps()):
            if ops[-1][0] == "step" and rng.random() < p_reset:
                ops.append(["reset", rng.choice([None, None, rng.randrange(0, 1000)])])
            ops.append(gen_step(rng, act, n_envs, key_order))
    return ops


def gen_case(rng, tier: str) -> dict:
    n_envs = rng.choice([1, 2, 2, 3, 3, 4, 5])
    n_agents = rng.choice([1, 2, 2, 3])
    kind = rng.choice(["vector", "image", "dict", "tuple"])
    agents = AGENT_NAMES[:n_agents]
    obs = [gen_obs_spec(rng, kind) for _ in agents]
    act = [rng.choice([0, 0, 0, 1, 2, 3, -1]) for _ in agents]
    env_cfgs = []
    for _ in range(n_envs):
        e = gen_env_script(rng, n_agents, 5)
        e["kinds"] = [rng.choice(scripted.KINDS) for _ in range(rng.randint(1, 2))]
        env_cfgs.append(e)
    # memory layout of the observations the environments hand out (same values, non-contiguous views)
    if rng.random() < 0.55:
        lay = rng.choice(scripted.LAYOUTS[1:])
        for e in env_cfgs:
            e["layout"] = lay if rng.random() < 0.7 else rng.choice(scripted.LAYOUTS)
    # completion order of the workers: lower indices slower / higher indices slower / random
    share = 0.5 if tier == "quick" else 0.35
    mode = rng.choice(["reversed", "reversed", "forward", "random"]) if (n_envs > 1 and rng.random() < share) else "none"
    script_delays(rng, env_cfgs, mode, rng.choice([3, 5, 8, 12]))
    n_seq = rng.randint(1, 2) if tier == "quick" else rng.randint(2, 4)
    # the action dict is keyed by agent id: in a good share of the cases its keys are inserted in another
    # order than possible_agents (fixed reversed order, or re-shuffled at every step)
    key_order = rng.choice(["agents", "reversed", "shuffled", "shuffled"]) if n_agents > 1 else "agents"
    ops = gen_ops(rng, act, n_envs, key_order, n_seq,
                  (lambda: rng.randint(4, 12)) if tier == "quick" else (lambda: rng.randint(6, 30)))
    return {"n_envs": n_envs, "agents": agents, "obs": obs, "act": act, "envs": env_cfgs,
            "copy": rng.random() < 0.6, "container": rng.choice(["array", "array", "list"]),
            "context": None, "ops": ops, "case_seed": rng.randrange(1 << 30), "completion": mode}


def gen_actions(rng, act, n_envs):
    """[agent][env] -> int (Discrete) | list of dyadic floats (Box)"""
    out = []
    for k in act:
        if k == 0:
            out.append([rng.randrange(scripted.N_DISCRETE) for _ in range(n_envs)])
        elif k < 0:
            out.append([rng.randint(-8, 8) / 8.0 for _ in range(n_envs)])      # scalar continuous action
        else:
            out.append([[rng.randint(-8, 8) / 8.0 for _ in range(k)] for _ in range(n_envs)])
    return out


def gen_step(rng, act, n_envs, key_order="agents"):
    """["step", acts] or ["step", acts, order]; when the keys are not in agent order the agents' actions
    are made pairwise different in environment 0, so a mix-up of agents cannot go unnoticed"""
    n = len(act)
    if key_order == "agents" or n < 2:
        return ["step", gen_actions(rng, act, n_envs)]
    order = list(reversed(range(n))) if key_order == "reversed" else rng.sample(range(n), n)
    for _ in range(20):
        acts = gen_actions(rng, act, n_envs)
        codes = [code_of(k, col[0]) for k, col in zip(act, acts)]
        if len(set(codes)) == n:
            break
    return ["step", acts, order]


def env_cfgs(case, delays=True) -> list[dict]:
    """`delays=False`: the sequential reference does not need to sleep"""
    return [{"env_id": i, "agents": case["agents"], "lens": e["lens"], "kinds": e["kinds"], "leave": e["leave"],
             "leaves": e.get("leaves") or [], "agents_attr": e.get("agents_attr", "prune"),
             "obs": case["obs"], "act": case["act"], "rev_dicts": e.get("rev_dicts", False),
             "layout": e.get("layout", "c"), "delay_ms": e.get("delay_ms", 0) if delays else 0}
            for i, e in enumerate(case["envs"])]


def script_delays(rng, env_list, mode, d):
    """per-env step delays that script the order in which the workers complete a step"""
    n = len(env_list)
    for i, e in enumerate(env_list):
        e["delay_ms"] = {"none": 0, "reversed": (n - 1 - i) * d, "forward": i * d}.get(mode, None)
        if e["delay_ms"] is None:
            e["delay_ms"] = rng.choice([0, d, 2 * d, 3 * d])


def action_dict(case, acts, order=None):
    """what the caller hands to vec_env.step: a dict keyed by agent id.  `order` (a permutation of the
    agent indices) is the order in which the keys are inserted — it must not matter to the vec env."""
    d = {}
    idx = list(order) if order else list(range(len(case["agents"])))
    for a in idx:
        ag, k, col = case["agents"][a], case["act"][a], acts[a]
        if case["container"] == "array":
            d[ag] = (np.array(col, dtype=np.int64) if k == 0 else np.array(col, dtype=np.float32) if k < 0
                     else np.array(col, dtype=np.float32).reshape(len(col), k))
        else:
            d[ag] = ([int(x) for x in col] if k == 0 else [float(x) for x in col] if k < 0
                     else [np.array(x, dtype=np.float32) for x in col])
    return d


def code_of(k, x) -> float:
    return float(x) if k <= 0 else scripted.action_code(np.array(x, dtype=np.float32))


# ----------------------------------------------------------------------------- canonical records
def placeholder_part(shape, dtype):
    with np.errstate(all="ignore"):
        return np.asarray(-np.ones(tuple(shape)), dtype=np.dtype(dtype))


def obs_parts(case, a, agent_obs):
    """list over parts (cfg order) of arrays; raises on a wrong container"""
    spec = case["obs"][a]
    if spec["kind"] in ("vector", "image"):
        return [np.asarray(agent_obs)]
    if spec["kind"] == "dict":
        if not hasattr(agent_obs, "keys") or set(agent_obs.keys()) != {p[0] for p in spec["parts"]}:
            raise ValueError(f"dict observation with keys {list(getattr(agent_obs, 'keys', lambda: [])())}")
        return [np.asarray(agent_obs[p[0]]) for p in spec["parts"]]
    if not isinstance(agent_obs, tuple) or len(agent_obs) != len(spec["parts"]):
        raise ValueError("tuple observation with wrong arity")
    return [np.asarray(x) for x in agent_obs]


def snapshot_obs(case, ret_obs):
    return [[np.array(p, copy=True) for p in obs_parts(case, a, ret_obs[ag])] for a, ag in enumerate(case["agents"])]


def info_at(vinfo, agents, n):
    """vector info dict -> [env][agent] plain dict of the entries whose mask is set"""
    out = [[{} for _ in agents] for _ in range(n)]
    for a, ag in enumerate(agents):
        sub = vinfo.get(ag, {}) if isinstance(vinfo, dict) else {}
        if not isinstance(sub, dict):
            continue
        for key, val in sub.items():
            if key.startswith("_"):
                continue
            mask = sub.get("_" + key)
            for i in range(n):
                if mask is not None and bool(mask[i]):
                    out[i][a][key] = np.array(val[i], copy=True)
    return out


def same_value(x, y) -> bool:
    x, y = np.asarray(x), np.asarray(y)
    return x.shape == y.shape and x.dtype == y.dtype and bool(np.array_equal(x, y))


# ----------------------------------------------------------------------------- reference
class RefVec:
    """N scripted environments stepped one after the other: the specification"""

    def __init__(self, case):
        self.case = case
        self.envs = [scripted.ScriptedParallelEnv(c) for c in env_cfgs(case, delays=False)]

    def _batch_obs(self, per_env):
        out = []
        for a, ag in enumerate(self.case["agents"]):
            parts = []
            for k, (_, shape, dtype) in enumerate(self.case["obs"][a]["parts"]):
                rows = []
                for o in per_env:
                    if ag in o:
                        rows.append(np.asarray(obs_parts(self.case, a, o[ag])[k], dtype=np.dtype(dtype)))
                    else:
                        rows.append(placeholder_part(shape, dtype))
                parts.append(np.stack(rows).reshape((len(per_env),) + tuple(shape)))
            out.append(parts)
        return out

    def reset(self, seed):
        res = [e.reset(seed=None if seed is None else seed + i) for i, e in enumerate(self.envs)]
        return {"op": "reset", "obs": self._batch_obs([r[0] for r in res]),
                "info": [[dict(r[1].get(ag, {})) for ag in self.case["agents"]] for r in res]}

    def step(self, acts):
        ags = self.case["agents"]
        obs, rew, term, trunc, info = [], [], [], [], []
        for i, e in enumerate(self.envs):
            a_i = {ag: (int(col[i]) if k == 0 else np.array(col[i], dtype=np.float32))      # () or (k,)
                   for ag, k, col in zip(ags, self.case["act"], acts)}
            o, r, te, tr, inf = e.step(a_i)
            r = {ag: r.get(ag, 0) for ag in ags}
            te = {ag: te.get(ag, True) for ag in ags}
            tr = {ag: tr.get(ag, False) for ag in ags}
            inf = {ag: inf.get(ag, {}) for ag in ags}
            if all(te[ag] or tr[ag] for ag in ags):
                o, inf = e.reset()
            obs.append(o)
            rew.append(r)
            term.append(te)
            trunc.append(tr)
            info.append([dict(inf.get(ag, {})) for ag in ags])
        return {"op": "step", "obs": self._batch_obs(obs),
                "rew": [np.array([r[ag] for r in rew]) for ag in ags],
                "term": [np.array([t[ag] for t in term]) for ag in ags],
                "trunc": [np.array([t[ag] for t in trunc]) for ag in ags],
                "info": info}


# ----------------------------------------------------------------------------- implementation
class _Alarm(Exception):
    pass


def _on_alarm(signum, frame):
    raise _Alarm()


def make_vec(case):
    from agilerl.vector.pz_async_vec_env import AsyncPettingZooVecEnv
    fns = [functools.partial(scripted.make_env, c) for c in env_cfgs(case)]
    return AsyncPettingZooVecEnv(fns, copy=case["copy"], context=case.get("context"))


def reap(vec, failed: bool) -> list[str]:
    """close the vec env; make sure no worker survives; report what had to be forced"""
    notes = []
    try:
        vec.close(terminate=True) if failed else vec.close()
    except BaseException as e:  # noqa: BLE001  (close itself may re-raise a worker error)
        notes.append(f"close raised {type(e).__name__}")
    for p in getattr(vec, "processes", []):
        try:
            if p.is_alive():
                p.join(2.0)
            if p.is_alive():
                notes.append(f"worker {p.name} survived close")
                p.kill()
                p.join(5.0)
        except Exception:  # noqa: BLE001
            pass
    for pipe in getattr(vec, "parent_pipes", []):
        try:
            if pipe is not None:
                pipe.close()
        except Exception:  # noqa: BLE001
            pass
    return notes


def run_impl(case, ops):
    """-> (records, error text | None, logs | None, notes).  Real worker processes."""
    n, ags = case["n_envs"], case["agents"]
    np.random.seed(case.get("case_seed", 0) % (1 << 31))
    records, held, err, logs, failed = [], [], None, None, False
    old = signal.signal(signal.SIGALRM, _on_alarm)
    signal.alarm(CASE_S)
    vec = None
    try:
        vec = make_vec(case)
        for op in ops:
            if op[0] == "reset":
                ret_obs, vinfo = vec.reset(seed=op[1])
                rec = {"op": "reset", "obs": snapshot_obs(case, ret_obs), "info": info_at(vinfo, ags, n)}
            else:
                ret_obs, rew, term, trunc, vinfo = vec.step(action_dict(case, op[1], op[2] if len(op) > 2 else None))
                rec = {"op": "step", "obs": snapshot_obs(case, ret_obs),
                       "rew": [np.array(rew[ag]) for ag in ags], "term": [np.array(term[ag]) for ag in ags],
                       "trunc": [np.array(trunc[ag]) for ag in ags], "info": info_at(vinfo, ags, n)}
            rec["container"] = type(ret_obs).__name__
            records.append(rec)
            if case["copy"]:
                held.append((len(records) - 1, ret_obs))
        # copy mode: what was handed out earlier must not have been altered by later steps
        for idx, ret_obs in held:
            now = snapshot_obs(case, ret_obs)
            if not all(same_value(x, y) for pa, pb in zip(now, records[idx]["obs"]) for x, y in zip(pa, pb)):
                err = f"copy=True: the observation returned by op {idx} was altered by a later op"
                break
        logs = vec.call("get_log")
    except _Alarm:
        err, failed = f"no result within {CASE_S}s (hang)", True
    except BaseException as e:  # noqa: BLE001
        if isinstance(e, (KeyboardInterrupt, SystemExit)):
            raise
        err, failed = f"implementation raised {type(e).__name__}: {str(e)[:200]}", True
    finally:
        signal.alarm(0)
        signal.signal(signal.SIGALRM, old)
        notes = reap(vec, failed) if vec is not None else []
    if not failed and any("survived" in x for x in notes):
        err = err or "; ".join(notes)
    return records, err, logs, notes


# ----------------------------------------------------------------------------- canonical text (model diff)
def show_chunk(flat, shape, dtype) -> str:
    flat = np.asarray(flat).reshape(-1)
    if flat.size == 0:
        return "EMPTY"
    if np.array_equal(flat, placeholder_part(shape, dtype).reshape(-1)):
        return "PH"
    d = scripted.decode_chunk(flat.tolist())
    return "MIXED" if d is None else ".".join(str(x) for x in d)


def show_info(d) -> str:
    if not d:
        return "-"
    try:
        e, p, t, a = (int(x) for x in np.asarray(d["prov"]).reshape(-1))
        if "acode" in d:
            return f"s:{e}.{p}.{t}.{a}:{frac(float(d['acode']))}"
        if "seed" in d:
            return f"r:{e}.{p}.{t}.{a}:{int(d['seed'])}"
    except Exception:  # noqa: BLE001
        pass
    return "?"


def impl_line(case, rec) -> str:
    pos = []
    for i in range(case["n_envs"]):
        ag_txt = []
        for a in range(len(case["agents"])):
            parts = case["obs"][a]["parts"]
            o = ",".join(show_chunk(rec["obs"][a][k][i], parts[k][1], parts[k][2]) for k in range(len(parts)))
            if rec["op"] == "reset":
                ag_txt.append(f"o={o} n={show_info(rec['info'][i][a])}")
            else:
                ag_txt.append(f"o={o} r={frac(float(rec['rew'][a][i]))} t={int(bool(rec['term'][a][i]))} "
                              f"u={int(bool(rec['trunc'][a][i]))} n={show_info(rec['info'][i][a])}")
        pos.append(" ; ".join(ag_txt))
    return " | ".join(pos)


def script_words(case, e, env_id) -> str:
    """`leave_0 … leave_{A-1}`, or all per-episode leave vectors one after the other (Model/VecEnv.lean parseScript?)"""
    vecs = e.get("leaves") or [e["leave"]]
    return (f"{env_id} {len(e['lens'])} " + " ".join(map(str, e["lens"])) + f" {len(e['kinds'])} "
            + " ".join(e["kinds"]) + " " + " ".join(str(x) for v in vecs for x in v))


def sizes_lines(case) -> list[str]:
    out = []
    for a, spec in enumerate(case["obs"]):
        sz = [int(np.prod(p[1])) if len(p[1]) else 1 for p in spec["parts"]]
        out.append(f"vecenv sizes {a} " + " ".join(map(str, sz)))
    return out


def model_lines(case, ops) -> list[str]:
    lines = [f"vecenv new {case['n_envs']} repaired"] + sizes_lines(case)
    lines += [f"vecenv env {i} " + script_words(case, e, i) for i, e in enumerate(case["envs"])]
    lines.append("vecenv alloc")
    for op in ops:
        if op[0] == "reset":
            lines.append(f"vecenv reset {'none' if op[1] is None else op[1]}")
        else:
            codes = [frac(code_of(k, x)) for k, col in zip(case["act"], op[1]) for x in col]
            lines.append("vecenv step " + " ".join(codes))
    return lines


def n_setup(case) -> int:
    return 1 + len(case["obs"]) + len(case["envs"]) + 1


# ----------------------------------------------------------------------------- oracles
def compare_with_reference(case, ops, records) -> list[str]:
    ref = RefVec(case)
    probs = []
    n, ags = case["n_envs"], case["agents"]
    for j, (op, rec) in enumerate(zip(ops, records)):
        exp = ref.reset(op[1]) if op[0] == "reset" else ref.step(op[1])
        for a, ag in enumerate(ags):
            for k, (key, shape, dtype) in enumerate(case["obs"][a]["parts"]):
                got, want = rec["obs"][a][k], exp["obs"][a][k]
                if got.dtype != np.dtype(dtype) or got.shape != (n,) + tuple(shape):
                    probs.append(f"op {j} {op[0]}: observation {ag}/{key} has dtype {got.dtype} shape {got.shape}, "
                                 f"declared {dtype} {(n,) + tuple(shape)}")
                elif not np.array_equal(got, want):
                    bad = [i for i in range(n) if not np.array_equal(got[i], want[i])]
                    i = bad[0]
                    probs.append(f"op {j} {op[0]}: observation {ag}/{key} at position {i} is "
                                 f"{show_chunk(got[i], shape, dtype)}, environment {i} alone returns "
                                 f"{show_chunk(want[i], shape, dtype)} (e.p.t.a.k.salt)")
            if op[0] == "step":
                for name in ("rew", "term", "trunc"):
                    got, want = rec[name][a], exp[name][a]
                    if not same_value(got, want):
                        probs.append(f"op {j} step: {name}[{ag}] = {got.tolist()} ({got.dtype}), "
                                     f"sequential reference {want.tolist()} ({want.dtype})")
        for i in range(n):
            for a, ag in enumerate(ags):
                g, w = rec["info"][i][a], exp["info"][i][a]
                if set(g) != set(w) or any(not same_value(g[x], np.asarray(w[x])) for x in w):
                    probs.append(f"op {j} {op[0]}: info[{ag}] at position {i} is {show_info(g)} "
                                 f"{sorted(g)}, environment {i} alone returns {show_info(w)} {sorted(w)}")
        if len(probs) > 6:
            break
    return probs


def provenance_oracle(case, ops, records, logs) -> tuple[list[str], list[str]]:
    """the statement itself on the implementation's outputs; returns (problems, tags)"""
    n, ags = case["n_envs"], case["agents"]
    ep, st, salt = [0] * n, [0] * n, [0] * n
    gone = [[False] * len(ags) for _ in range(n)]
    probs, tags = [], []
    sent = [[] for _ in range(n)]            # per env: list of {agent: code} in the order sent
    for j, (op, rec) in enumerate(zip(ops, records)):
        for i in range(n):
            if op[0] == "reset":
                ep[i], st[i] = ep[i] + 1, 0
                if op[1] is not None:
                    salt[i] = (op[1] + i) % 50
                gone[i] = [False] * len(ags)
                resets = True
            else:
                sent[i].append({ag: code_of(k, col[i]) for ag, k, col in zip(ags, case["act"], op[1])})
                done = [bool(rec["term"][a][i]) or bool(rec["trunc"][a][i]) for a in range(len(ags))]
                resets = all(done)
                if resets:
                    ep[i], st[i] = ep[i] + 1, 0
                    tags.append("auto-reset")
                    if not any(bool(rec["term"][a][i]) and not gone[i][a] for a in range(len(ags))):
                        tags.append("reset-by-truncation-only")
                else:
                    st[i] += 1
            for a, ag in enumerate(ags):
                for k, (key, shape, dtype) in enumerate(case["obs"][a]["parts"]):
                    txt = show_chunk(rec["obs"][a][k][i], shape, dtype)
                    size = int(np.prod(shape)) if len(shape) else 1
                    full = (i, ep[i], st[i], a, k, salt[i])
                    want = ".".join(str(full[c] % 100) if c < size else "-1" for c in range(6))   # chunks are mod 100
                    if gone[i][a] and not resets:
                        want = "PH"
                    if txt != want:
                        what = ("the first observation of its new episode" if (resets and op[0] == "step")
                                else "the observation of its own current step")
                        probs.append(f"op {j} {op[0]}: position {i} {ag}/{key} shows {txt}; environment {i} "
                                     f"must show {want} ({what}; e.p.t.a.k.salt)")
                pv = rec["info"][i][a].get("prov")
                got = None if pv is None else tuple(int(x) for x in np.asarray(pv).reshape(-1))
                want_pv = None if (gone[i][a] and not resets) else (i, ep[i], st[i], a)
                if got != want_pv:
                    probs.append(f"op {j} {op[0]}: info of {ag} at position {i} carries provenance {got}; "
                                 f"environment {i} must report {want_pv} (env, episode, step, agent)")
            if op[0] == "step":
                if resets:
                    gone[i] = [False] * len(ags)
                else:
                    for a in range(len(ags)):
                        if gone[i][a]:
                            tags.append("placeholder-agent")
                        gone[i][a] = gone[i][a] or done[a]
        if len(probs) > 6:
            break
    if logs is not None and not probs:
        for i in range(n):
            got = [{ag: c for ag, c in entry[2].items()} for entry in logs[i]]
            for s, (g, w) in enumerate(zip(got, sent[i])):
                if any(g[ag] != w[ag] for ag in g):
                    probs.append(f"environment {i} received at its step {s} the action codes {g}, "
                                 f"column {i} of the actions sent is {w}")
                    break
            if len(got) != len(sent[i]):
                probs.append(f"environment {i} logged {len(got)} steps, {len(sent[i])} were sent")
    return probs, tags


# ----------------------------------------------------------------------------- one vec case
def eval_case(chk: Check, case, ops):
    """-> dict(problems, diff, impl_lines, model_out, tags, notes)"""
    records, err, logs, notes = run_impl(case, ops)
    problems, tags = [], []
    if err:
        problems.append(err)
    if records:
        try:
            problems += compare_with_reference(case, ops[:len(records)], records)
            p2, tags = provenance_oracle(case, ops[:len(records)], records, logs if not err else None)
            problems += p2
        except Exception as e:  # noqa: BLE001  (malformed return values are the implementation's problem)
            problems.append(f"returned values are malformed: {type(e).__name__}: {e}")
    impl = []
    try:
        impl = [impl_line(case, r) for r in records]
    except Exception as e:  # noqa: BLE001
        if not problems:
            problems.append(f"returned values are malformed: {type(e).__name__}: {e}")
    lines = model_lines(case, ops)
    out = chk.driver.run(["reset"] + lines)[1:]
    chk.corr["model_lines"] += len(lines)
    k = n_setup(case)
    if any(x != "ok" for x in out[:k]):
        raise InfraError(f"C12 model rejected the case set-up: {list(zip(lines[:k], out[:k]))}")
    model_out = out[k:]
    diff = next((i for i, (a, b) in enumerate(zip(impl, model_out)) if a != b), None)
    if diff is None and len(impl) != len(model_out) and not err:
        diff = min(len(impl), len(model_out))
    return {"problems": problems, "diff": diff, "impl": impl, "model": model_out, "tags": tags, "notes": notes}


def shrink_ops(chk, case, ops, pred, budget=30):
    """ddmin over the op list; the leading reset stays"""
    head, tail = ops[:1], ops[1:]
    count = [0]

    def fails(sub):
        if count[0] >= budget:
            return False
        count[0] += 1
        return pred(eval_case(chk, case, head + sub))
    small = ddmin(tail, fails) if len(tail) > 1 else tail
    return head + small


def report(chk: Check, case, ops, res, suite: str):
    has_problem = bool(res["problems"])
    pred = (lambda r: bool(r["problems"])) if has_problem else (lambda r: r["diff"] is not None)
    small = shrink_ops(chk, case, ops, pred)
    r2 = eval_case(chk, case, small)
    if not pred(r2):
        small, r2 = ops, res
    replay = {"suite": suite, "case": {**{k: v for k, v in case.items() if k != "ops"}, "ops": small},
              "impl": r2["impl"][-4:], "model": r2["model"][-4:], "oracle_problems": r2["problems"][:6],
              "correspondence": "harness/c12.py vs Model/VecEnv.lean (vecenv)", "theorems": chk.gate["theorems"]}
    if has_problem:
        chk.violation(r2["problems"][0], replay)
    else:
        d = r2["diff"]
        chk.violation(f"implementation and VecEnv model disagree at op {d}: impl={r2['impl'][d:d + 1]} "
                      f"model={r2['model'][d:d + 1]}; the sequential reference and the provenance oracle hold "
                      f"on this case and its shrinks", replay, no_input=True)


# ----------------------------------------------------------------------------- wrapper suite
def gen_wrapper_case(rng) -> dict:
    n_agents = rng.choice([1, 2, 3])
    agents = AGENT_NAMES[:n_agents]
    kind = rng.choice(["vector", "vector", "dict", "tuple", "image"])
    obs = [gen_obs_spec(rng, kind) for _ in agents]
    act = [rng.choice([0, 0, 1, 2]) for _ in agents]
    env = gen_env_script(rng, n_agents, 4)
    env["kinds"] = [rng.choice(scripted.KINDS) for _ in range(rng.randint(1, 3))]
    ops = gen_ops(rng, act, 1, "agents", rng.choice([1, 1, 2]), lambda: rng.randint(3, 14))
    return {"n_envs": 1, "agents": agents, "obs": obs, "act": act, "envs": [env], "ops": ops}


def wrap_line(case, obs, info, rew, term, trunc) -> str:
    out = []
    for a, ag in enumerate(case["agents"]):
        parts = case["obs"][a]["parts"]
        if ag in obs:
            arrs = obs_parts(case, a, obs[ag])
            o = ",".join(show_chunk(arrs[k], parts[k][1], parts[k][2]) for k in range(len(parts)))
            left = f"o={o} n={show_info(info.get(ag, {}))}"
        else:
            left = "o=- n=-"
        if rew is not None and ag in rew:
            right = f"r={frac(float(rew[ag]))} t={int(bool(term[ag]))} u={int(bool(trunc[ag]))}"
        else:
            right = "r=- t=- u=-"
        out.append(left + " " + right)
    return " ; ".join(out)


def wrapper_vs_reference(case, j, got, want) -> str | None:
    """the dicts the wrapper returned at op j against what the same environment, stepped alone under the auto-reset
    rule, returns: the same agents, the same observation (value, dtype, shape), reward, flags and info"""
    names = ("observation", "reward", "termination", "truncation", "info") if len(got) == 5 else ("observation", "info")
    for name, g, w in zip(names, got, want):
        if not isinstance(g, dict) or set(g) != set(w):
            return (f"wrapper op {j}: the {name} dict has the agents {sorted(g) if isinstance(g, dict) else type(g).__name__}, "
                    f"the environment alone (restarted iff every agent is terminated or truncated) returns {sorted(w)}")
        for a, ag in enumerate(case["agents"]):
            if ag not in w:
                continue
            if name == "observation":
                parts = case["obs"][a]["parts"]
                ga, wa = obs_parts(case, a, g[ag]), obs_parts(case, a, w[ag])
                for k, (x, y) in enumerate(zip(ga, wa)):
                    if not same_value(x, y):
                        return (f"wrapper op {j}: observation {ag}/{parts[k][0]} is {show_chunk(x, parts[k][1], parts[k][2])} "
                                f"({x.dtype}{list(x.shape)}), the environment alone (restarted iff every agent is terminated "
                                f"or truncated) returns {show_chunk(y, parts[k][1], parts[k][2])} (e.p.t.a.k.salt)")
            elif name == "info":
                if set(g[ag]) != set(w[ag]) or any(not same_value(g[ag][x], w[ag][x]) for x in w[ag]):
                    return (f"wrapper op {j}: info of {ag} is {show_info(g[ag])}, the environment alone (restarted iff "
                            f"every agent is terminated or truncated) returns {show_info(w[ag])}")
            elif type(g[ag]) is not type(w[ag]) or g[ag] != w[ag]:
                return f"wrapper op {j}: {name} of {ag} is {g[ag]!r}, the environment alone returns {w[ag]!r}"
    return None


def eval_wrapper(chk: Check, case, ops):
    from agilerl.wrappers.pettingzoo_wrappers import PettingZooAutoResetParallelWrapper
    cfg = env_cfgs(case)[0]
    env = scripted.ScriptedParallelEnv(cfg)
    w = PettingZooAutoResetParallelWrapper(env)
    ref = scripted.ScriptedParallelEnv(cfg)          # the same environment stepped alone: the specification
    impl, problems, tags = [], [], []
    ags = case["agents"]
    ep, st = 0, 0
    try:
        for j, op in enumerate(ops):
            if op[0] == "reset":
                obs, info = w.reset(seed=op[1])
                impl.append(wrap_line(case, obs, info, None, None, None))
                ep, st, want_reset = ep + 1, 0, False
                ref_bad = wrapper_vs_reference(case, j, (obs, info), ref.reset(seed=op[1]))
            else:
                a_i = {ag: (int(col[0]) if k == 0 else np.array(col[0], dtype=np.float32))
                       for ag, k, col in zip(ags, case["act"], op[1])}
                obs, rew, term, trunc, info = w.step(a_i)
                impl.append(wrap_line(case, obs, info, rew, term, trunc))
                r_obs, r_rew, r_term, r_trunc, r_info = ref.step(dict(a_i))
                if all(r_term[ag] or r_trunc[ag] for ag in r_term):
                    r_obs, r_info = ref.reset()
                ref_bad = wrapper_vs_reference(case, j, (obs, rew, term, trunc, info), (r_obs, r_rew, r_term, r_trunc, r_info))
                want_reset = all(bool(term[ag]) or bool(trunc[ag]) for ag in term)
                if want_reset:
                    ep, st = ep + 1, 0
                    tags.append("auto-reset")
                    if not any(bool(term[ag]) for ag in term):
                        tags.append("reset-by-truncation-only")
                else:
                    st += 1
            # the statement: restart (and show the new episode's first observation) iff every agent is done
            for a, ag in enumerate(ags):
                if ag not in obs:
                    continue
                seen = []
                for arr in obs_parts(case, a, obs[ag]):
                    d = scripted.decode_chunk(np.asarray(arr).reshape(-1).tolist())
                    size = int(np.asarray(arr).size)
                    seen.append((None if d is None else tuple(d[:3]),
                                 tuple(x % 100 if c < size else -1 for c, x in enumerate((0, ep, st)))))
                pv = info.get(ag, {}).get("prov") if isinstance(info, dict) else None
                seen.append((None if pv is None else tuple(int(x) for x in np.asarray(pv).reshape(-1)[:3]), (0, ep, st)))
                bad = next(((g, w) for g, w in seen if g != w), None)
                if bad is not None:
                    what = "every agent is terminated or truncated, so the episode must restart and its " \
                           "first observation be returned" if want_reset else "not every agent is done"
                    problems.append(f"wrapper op {j}: {ag} is shown (env, episode, step) = {bad[0]}, "
                                    f"expected {bad[1]}: {what}")
                    break
            if ref_bad and not problems:
                problems.append(ref_bad)
            if problems:
                break
    except Exception as e:  # noqa: BLE001
        problems.append(f"wrapper raised {type(e).__name__}: {str(e)[:200]}")
    lines = ["vecenv new 1 repaired"] + sizes_lines(case) + ["vecenv wnew repaired " + script_words(case, case["envs"][0], 0)]
    k = len(lines)
    for op in ops:
        if op[0] == "reset":
            lines.append(f"vecenv wreset {'none' if op[1] is None else op[1]}")
        else:
            lines.append("vecenv wstep " + " ".join(frac(code_of(kk, col[0])) for kk, col in zip(case["act"], op[1])))
    out = chk.driver.run(["reset"] + lines)[1:]
    chk.corr["model_lines"] += len(lines)
    if any(x != "ok" for x in out[:k]):
        raise InfraError(f"C12 model rejected the wrapper set-up: {list(zip(lines[:k], out[:k]))}")
    model_out = out[k:]
    diff = next((i for i, (a, b) in enumerate(zip(impl, model_out)) if a != b), None)
    return {"problems": problems, "diff": diff, "impl": impl, "model": model_out, "tags": tags, "notes": []}


def report_wrapper(chk: Check, case, ops, res):
    has_problem = bool(res["problems"])
    pred = (lambda r: bool(r["problems"])) if has_problem else (lambda r: r["diff"] is not None)
    head, tail = ops[:1], ops[1:]
    small = head + (ddmin(tail, lambda sub: pred(eval_wrapper(chk, case, head + sub))) if len(tail) > 1 else tail)
    r2 = eval_wrapper(chk, case, small)
    if not pred(r2):
        small, r2 = ops, res
    replay = {"suite": "wrapper", "case": {**{k: v for k, v in case.items() if k != "ops"}, "ops": small},
              "impl": r2["impl"][-4:], "model": r2["model"][-4:], "oracle_problems": r2["problems"][:4],
              "correspondence": "harness/c12.py vs Model/VecEnv.lean (vecenv w*)", "theorems": chk.gate["theorems"]}
    if has_problem:
        chk.violation(r2["problems"][0], replay)
    else:
        d = r2["diff"]
        chk.violation(f"wrapper and model disagree at op {d}: impl={r2['impl'][d:d + 1]} model={r2['model'][d:d + 1]}; "
                      f"the reset-condition oracle holds on this case and its shrinks", replay, no_input=True)


# ----------------------------------------------------------------------------- source translation
# ----------------------------------------------------------------------------- direct shared-memory / info suites
# (no worker processes: the real create_shared_memory / write_to_shared_memory / Observations / _add_info are called
# directly; the oracle is the model's offset function `VecEnv.offsetOf size i j = i * size + j` with
# `size = shapeSize shape`, `bufLen n shape = n * size`, `viewShape () = (1,)` — Model/VecEnv.lean §1b, which
# Proofs/VecRecvGenEq.lean proves equal to the offsets of the translated source)
SHM_DTYPES = ["float32", "float64", "int32", "int64", "uint8", "int16"]


def gen_shm_space(rng):
    def shape():
        r = rng.random()
        if r < 0.2:
            return []
        if r < 0.6:
            return [rng.randint(1, 6)]
        if r < 0.85:
            return [rng.randint(1, 3), rng.randint(1, 4), rng.randint(1, 3)]
        return [rng.randint(1, 3), rng.randint(1, 3)]
    kind = rng.choice(["box", "box", "box", "dict", "tuple"])
    n = 1 if kind == "box" else rng.randint(1, 3)
    return {"kind": kind, "parts": [[shape(), rng.choice(SHM_DTYPES)] for _ in range(n)]}


def gen_shm_case(rng) -> dict:
    n = rng.randint(1, 5)
    agents = rng.randint(1, 3)
    sp = [gen_shm_space(rng) for _ in range(agents)]
    if rng.random() < 0.3:
        sp = [sp[0]] * agents
    writes = []
    for rnd in range(rng.randint(1, 3)):
        envs = [i for i in range(n) if rng.random() < 0.85]
        rng.shuffle(envs)
        for i in envs:
            ags = [a for a in range(agents) if rng.random() < 0.9] or [0]
            rng.shuffle(ags)
            writes.append([rnd, i, ags])
    return {"n_envs": n, "spaces": sp, "writes": writes}


def shm_value(rnd, i, a, k, j, dtype):
    v = ((((rnd * 5 + i) * 3 + a) * 3 + k) * 97 + j + 1)
    return v % 251 if dtype == "uint8" else v % 32000


def shm_member_obs(rnd, i, a, k, shape, dtype):
    size = int(np.prod(shape)) if shape else 1
    flat = np.array([shm_value(rnd, i, a, k, j, dtype) for j in range(size)], dtype=dtype)
    return flat.reshape(shape) if shape else flat.reshape(())


def eval_shm(case) -> dict:
    """runs the real functions; returns {"problems": [...], "cells": number of compared cells}"""
    import multiprocessing as mp
    from gymnasium import spaces
    from agilerl.vector import pz_async_vec_env as M
    n, specs = case["n_envs"], case["spaces"]
    names = [f"agent_{a}" for a in range(len(specs))]

    def box(shape, dtype):
        lo, hi = (0, 255) if dtype == "uint8" else (-32000, 32000)
        return spaces.Box(low=lo, high=hi, shape=tuple(shape), dtype=np.dtype(dtype).type)

    def space(spec):
        parts = [box(sh, dt) for sh, dt in spec["parts"]]
        if spec["kind"] == "dict":
            return spaces.Dict({f"k{k}": p for k, p in enumerate(parts)})
        if spec["kind"] == "tuple":
            return spaces.Tuple(tuple(parts))
        return parts[0]

    obs_spaces = {nm: space(sp) for nm, sp in zip(names, specs)}
    problems, cells = [], 0
    shm = M.create_shared_memory(num_envs=n, obs_spaces=obs_spaces, context=mp.get_context())
    view = M.Observations(shared_memory=shm, obs_spaces=obs_spaces, num_envs=n)

    def raw(a, k):
        spec, buf = specs[a], shm[names[a]]
        if spec["kind"] == "dict":
            buf = buf[f"k{k}"]
        elif spec["kind"] == "tuple":
            buf = buf[k]
        return np.frombuffer(buf.get_obj(), dtype=spec["parts"][k][1])

    def size_of(a, k):
        sh = specs[a]["parts"][k][0]
        return int(np.prod(sh)) if sh else 1

    # model of the memory: last writer of (agent, member, env)
    last = {}
    for a, spec in enumerate(specs):
        for k in range(len(spec["parts"])):
            if len(raw(a, k)) != n * size_of(a, k):
                problems.append(f"buffer of agent {a} member {k} has {len(raw(a, k))} cells, model bufLen = "
                                f"{n} * {size_of(a, k)}")
    for rnd, i, ags in case["writes"]:
        obs = {}
        for a in ags:
            spec = specs[a]
            members = [shm_member_obs(rnd, i, a, k, sh, dt) for k, (sh, dt) in enumerate(spec["parts"])]
            if spec["kind"] == "dict":
                obs[names[a]] = {f"k{k}": m for k, m in enumerate(members)}
            elif spec["kind"] == "tuple":
                obs[names[a]] = tuple(members)
            else:
                obs[names[a]] = members[0]
            for k in range(len(members)):
                last[(a, k, i)] = rnd
        try:
            M.write_to_shared_memory(i, obs, shm, obs_spaces)
        except Exception as e:                                        # noqa: BLE001
            problems.append(f"write_to_shared_memory(index={i}) raised {type(e).__name__}: {e}")
            break
        # every cell of every buffer against the model's offset function, after every write
        for a, spec in enumerate(specs):
            for k, (sh, dt) in enumerate(spec["parts"]):
                size, buf = size_of(a, k), raw(a, k)
                for e in range(n):
                    r = last.get((a, k, e))
                    for j in range(size):
                        want = 0 if r is None else shm_value(r, e, a, k, j, dt)
                        cells += 1
                        off = e * size + j                              # VecEnv.offsetOf size e j
                        if off >= len(buf) or buf[off] != want:
                            if len(problems) < 6:
                                got = buf[off] if off < len(buf) else "out of range"
                                problems.append(
                                    f"after write (round {rnd}, env {i}, agents {ags}): cell {off} of agent {a} member {k} "
                                    f"holds {got}, the model says element {j} of env {e}'s "
                                    f"{'round-' + str(r) + ' observation' if r is not None else 'initial zero'} = {want}")
    # the reader: Observations[agent][member][env] is what env wrote, reshaped to viewShape
    if not problems:
        for a, spec in enumerate(specs):
            try:
                got = view[names[a]]
            except Exception as e:                                    # noqa: BLE001
                problems.append(f"Observations[{names[a]}] raised {type(e).__name__}: {e}")
                continue
            for k, (sh, dt) in enumerate(spec["parts"]):
                arr = got[f"k{k}"] if spec["kind"] == "dict" else got[k] if spec["kind"] == "tuple" else got
                vshape = tuple(sh) if sh else ((1,) if spec["kind"] != "tuple" else ())
                if tuple(arr.shape) != (n,) + vshape:
                    problems.append(f"Observations[{a}] member {k} has shape {tuple(arr.shape)}, model (n, *viewShape) = {(n,) + vshape}")
                    continue
                for e in range(n):
                    r = last.get((a, k, e))
                    want = np.zeros(vshape, dtype=dt) if r is None else shm_member_obs(r, e, a, k, sh, dt).reshape(vshape)
                    cells += int(want.size)
                    if not np.array_equal(arr[e], want):
                        problems.append(f"Observations[{a}] member {k} row {e} = {arr[e].tolist()} but env {e} wrote {want.tolist()}")
    return {"problems": problems[:6], "cells": cells}


INFO_KEYS = {"i": "int", "f": "float", "b": "bool", "n32": "np32", "arr": "ndarray", "none": "none", "s": "str"}


def gen_info_case(rng) -> dict:
    n = rng.randint(1, 5)
    agents = rng.randint(1, 3)
    envs = [i for i in range(n) if rng.random() < 0.85]
    if rng.random() < 0.5:
        rng.shuffle(envs)

    def leafs(depth):
        d = {}
        for key in INFO_KEYS:
            if rng.random() < 0.45:
                d[key] = rng.randint(1, 99)
        if depth < 2 and rng.random() < 0.4:
            d["sub"] = leafs(depth + 1)
        return d
    hist = [[i, {f"agent_{a}": leafs(0) for a in range(agents) if rng.random() < 0.9}] for i in envs]
    return {"n_envs": n, "history": hist}


def info_value(key, seed):
    t = INFO_KEYS[key]
    if t == "int":
        return int(seed)
    if t == "float":
        return seed / 4.0
    if t == "bool":
        return True                      # a reported False equals the fill value: the mask tells them apart
    if t == "np32":
        return np.float32(seed / 8.0)
    if t == "ndarray":
        return np.array([[seed, seed + 1, seed + 2]], dtype=np.int32)
    if t == "none":
        return None
    return f"s{seed}"


def materialise_info(d):
    return {k: (materialise_info(v) if isinstance(v, dict) else info_value(k, v)) for k, v in d.items()}


def eval_infos(case) -> dict:
    from agilerl.vector.pz_async_vec_env import AsyncPettingZooVecEnv

    class Stub:
        num_envs = case["n_envs"]
        _add_info = AsyncPettingZooVecEnv._add_info
    stub, n = Stub(), case["n_envs"]
    problems, checks = [], 0
    vec = {}
    try:
        for i, info in case["history"]:
            vec = stub._add_info(vec, materialise_info(info), i)
    except Exception as e:                                            # noqa: BLE001
        return {"problems": [f"_add_info raised {type(e).__name__}: {e}"], "checks": 0}

    def reported(path):
        """env -> seed of the leaf / True for a sub-dict at `path`"""
        out = {}
        for i, info in case["history"]:
            d = info
            for p in path:
                d = d.get(p) if isinstance(d, dict) else None
                if d is None:
                    break
            if d is not None:
                out[i] = d
        return out

    def walk(vd, path):
        nonlocal checks
        for key, val in vd.items():
            if key.startswith("_"):
                continue
            rep = reported(path + [key])
            mask = vd.get("_" + key)
            if mask is None or len(mask) != n:
                problems.append(f"no mask `_{key}` of length {n} under {path}")
                continue
            for e in range(n):
                checks += 1
                if bool(mask[e]) != (e in rep):
                    problems.append(f"mask {'/'.join(path + ['_' + key])}[{e}] = {bool(mask[e])} but env {e} "
                                    f"{'reported' if e in rep else 'did not report'} this key")
            if isinstance(val, dict):
                walk(val, path + [key])
                continue
            if len(val) != n:
                problems.append(f"array {'/'.join(path + [key])} has length {len(val)}, num_envs = {n}")
                continue
            for e in range(n):
                checks += 1
                if e in rep:
                    want = info_value(key, rep[e])
                    ok = (val[e] is None) if want is None or (isinstance(want, float) and np.isnan(want)) else bool(np.array_equal(val[e], want))
                    if want is None:
                        ok = val[e] is None or (isinstance(val[e], (float, np.floating)) and np.isnan(val[e]))
                    if not ok:
                        problems.append(f"infos {'/'.join(path + [key])}[{e}] = {val[e]!r} but env {e} reported {want!r}")
                else:
                    fill = val[e]
                    blank = fill is None or (isinstance(fill, (float, np.floating)) and (np.isnan(fill) or fill == 0)) \
                        or (isinstance(fill, np.ndarray) and not fill.any()) or (not isinstance(fill, (np.ndarray, str)) and fill == 0)
                    if not blank:
                        problems.append(f"infos {'/'.join(path + [key])}[{e}] = {fill!r} but env {e} reported nothing (another env's value leaked)")
        # every reported key must be present
        keys_here = set()
        for i, info in case["history"]:
            d = info
            for p in path:
                d = d.get(p, {}) if isinstance(d, dict) else {}
            if isinstance(d, dict):
                keys_here |= set(d)
        for k in keys_here:
            if k not in vd:
                problems.append(f"key {'/'.join(path + [k])} reported by an env is missing from the vectorised infos")
    walk(vec, [])
    return {"problems": problems[:6], "checks": checks}


def run_direct_suites(chk: Check, corpus) -> None:
    rng = chk.rng
    quick = chk.tier == "quick"
    cases = [(c, name) for s, c, name in corpus if s == "shm"]
    cases += [(gen_shm_case(rng), None) for _ in range(60 if quick else 600)]
    bad = 0
    for case, origin in cases:
        res = eval_shm(case)
        kinds = sorted({sp["kind"] for sp in case["spaces"]})
        chk.case(["shm", case], nontrivial=len(case["writes"]) > 1 and case["n_envs"] > 1,
                 sample={"suite": "shm", "n_envs": case["n_envs"], "spaces": case["spaces"][:2], "writes": len(case["writes"])},
                 tags=["suite-shm-direct", f"envs-{case['n_envs']}"] + [f"shm-{k}" for k in kinds]
                 + (["shm-scalar"] if any(not p[0] for sp in case["spaces"] for p in sp["parts"]) else []))
        if res["problems"]:
            bad += 1
            if bad <= 2:
                small = ddmin(case["writes"], lambda w: bool(eval_shm({**case, "writes": w})["problems"])) \
                    if len(case["writes"]) > 1 else case["writes"]
                c2 = {**case, "writes": small}
                r2 = eval_shm(c2)
                if not r2["problems"]:
                    c2, r2 = case, res
                chk.violation("shared memory: " + r2["problems"][0],
                              {"suite": "shm", "case": c2, "oracle_problems": r2["problems"],
                               "correspondence": "real create_shared_memory / write_to_shared_memory / Observations vs "
                                                 "VecEnv.offsetOf (Model/VecEnv.lean §1b, Proofs/VecRecvGenEq.lean)"})
    chk.suite("shm-direct", len(cases), 0)
    icases = [(c, name) for s, c, name in corpus if s == "infos"]
    icases += [(gen_info_case(rng), None) for _ in range(80 if quick else 800)]
    ibad = 0
    for case, origin in icases:
        res = eval_infos(case)
        chk.case(["infos", case], nontrivial=len(case["history"]) > 1,
                 sample={"suite": "infos", "n_envs": case["n_envs"], "history": case["history"][:2]},
                 tags=["suite-add-info", f"envs-{case['n_envs']}"]
                 + (["infos-nested"] if any("sub" in d for _, inf in case["history"] for d in inf.values()) else []))
        if res["problems"]:
            ibad += 1
            if ibad <= 2:
                small = ddmin(case["history"], lambda h: bool(eval_infos({**case, "history": h})["problems"])) \
                    if len(case["history"]) > 1 else case["history"]
                c2 = {**case, "history": small}
                r2 = eval_infos(c2)
                if not r2["problems"]:
                    c2, r2 = case, res
                chk.violation("_add_info: " + r2["problems"][0],
                              {"suite": "infos", "case": c2, "oracle_problems": r2["problems"],
                               "correspondence": "real AsyncPettingZooVecEnv._add_info vs the statement: env i's info "
                                                 "lands under index i, `_key` masks mark exactly the reporting envs"})
    chk.suite("add-info-direct", len(icases), 0)



REL_SOURCES = ("agilerl/wrappers/pettingzoo_wrappers.py", "agilerl/vector/pz_vec_env.py",
               "agilerl/vector/pz_async_vec_env.py")
REL_SOURCE = "agilerl/{wrappers/pettingzoo_wrappers,vector/pz_vec_env,vector/pz_async_vec_env}.py"     # display only


def pre_gate(chk: Check) -> None:
    """Regenerate lean/Gen/VecEnvGen.lean from the source text of the tree under test (before the Lean gate) and
    re-check `generated = model` (Proofs/VecEnvGenEq.lean) and the theorems over the generated definitions
    (Props/C12.lean)."""
    import common
    import py2lean_vecenv
    import py2lean_vecrecv
    assert tuple(py2lean_vecenv.REL_SOURCES) == REL_SOURCES
    # Props.C12 imports both generated files: bring the second one up to date with the tree under test before the
    # first gate builds Props.C12 (a rejected source is reported by its own gate below)
    try:
        py2lean_vecrecv.write_if_changed(py2lean_vecrecv.translate(REPO)[0], common.LEAN_DIR / "Gen" / "VecRecvGen.lean")
    except py2lean_vecrecv.Unsupported:
        pass
    common.translation_gate(chk, py2lean_vecenv, "Gen/VecEnvGen.lean",
                            ["Gen.VecEnvGen", "Proofs.VecEnvGenEq", "Props.C12"],
                            "auto-reset wrapper, action de-batching, seeding, worker step / reset with placeholders")
    common.translation_gate(chk, py2lean_vecrecv, "Gen/VecRecvGen.lean",
                            ["Gen.VecRecvGen", "Proofs.VecRecvGenEq", "Props.C12"],
                            "shared-memory layout (create / write / Observations), step_wait / reset_wait gathering, _add_info")


# ----------------------------------------------------------------------------- check
def case_tags(case) -> list[str]:
    t = [f"envs-{case['n_envs']}", f"agents-{len(case['agents'])}", f"obs-{case['obs'][0]['kind']}",
         "copy" if case.get("copy", True) else "no-copy", f"actions-as-{case.get('container', 'array')}"]
    t += sorted({f"dtype-{p[2]}" for s in case["obs"] for p in s["parts"]})
    t += sorted({"act-discrete" if k == 0 else "act-continuous" if k > 0 else "act-continuous-scalar" for k in case["act"]})
    t += sorted({f"end-{k}" for e in case["envs"] for k in e["kinds"]})
    if any(any(e["leave"]) or e.get("leaves") for e in case["envs"]):
        t.append("agents-leave-early")
    if any(e.get("leaves") for e in case["envs"]):
        t.append("finishing-order-differs-between-episodes")
    t += sorted({f"agents-attr-{e.get('agents_attr', 'prune')}" for e in case["envs"]})
    if any(a[0] == "step" and b[0] == "reset" for a, b in zip(case["ops"], case["ops"][1:])):
        t.append("explicit-reset-inside-sequence")
    if len({tuple(e["lens"]) for e in case["envs"]}) > 1:
        t.append("episode-lengths-differ")
    if any(e.get("rev_dicts") for e in case["envs"]):
        t.append("dicts-in-different-orders")
    if any(op[0] == "reset" and op[1] is not None for op in case["ops"]):
        t.append("seeded")
    t.append(f"start-method-{case.get('context') or 'default'}")
    t.append(f"completion-order-{case.get('completion', 'none')}")
    lays = {e.get("layout", "c") for e in case["envs"]}
    t += sorted(f"layout-{x}" for x in lays)
    if lays - {"c"}:
        t.append("non-contiguous-observations")
    n = len(case["agents"])
    if any(op[0] == "step" and len(op) > 2 and list(op[2]) != list(range(n)) for op in case["ops"]):
        t.append("action-dict-keys-in-another-order")
    return t


def run(chk: Check) -> None:
    rng = chk.rng
    quick = chk.tier == "quick"
    chk.rule = ("vec suite: AsyncPettingZooVecEnv with real worker processes over scripted environments "
                "(1-5 envs, 1-3 agents, vector/image/dict/tuple observations over ten dtypes, discrete and "
                "continuous actions, per-env episode lengths 1-5 cycling per episode, term/trunc/mixed/both "
                "endings, agents leaving early — the same agents in every episode, or per-episode leave vectors so that "
                "the agents finish in a different order from episode to episode —, environments that prune / empty "
                "`env.agents` and environments that keep the team listed and signal the end through the flags only, "
                "explicit reset() calls at arbitrary points inside episodes, copy and no-copy, seeds, "
                "action-dict key order = / reversed / "
                "shuffled per step, scripted worker completion orders through per-env step delays, observations "
                "as non-contiguous views) driven by reset/step op sequences; "
                "wrapper suite: PettingZooAutoResetParallelWrapper over the same environments in-process, compared "
                "dict by dict with the environment stepped alone under the auto-reset rule; "
                "distinct = distinct (configuration, op list); non-trivial = at least one automatic reset happened")
    chk.assumptions = [
        "numpy reshape of a row is the inverse of flatten() (modelled as identity on flat chunks)",
        "the OS delivers pipe messages in order per pipe; scheduling of the workers is exercised, not enumerated "
        "(C12_schedule_independent is the argument for every interleaving)",
        "scripted environments stand for all deterministic ParallelEnvs; provenance is encoded in every number",
        "an action reaches the environment as np.array(a).squeeze() (values compared, not container shape)",
    ]
    chk.trusted_extra = ["multiprocessing (fork) semantics, RawArray shared memory"]
    budget_s = 75 if quick else 480
    t0 = time.time()
    # ---- corpus
    corpus = []
    for f in sorted((ROOT / "corpus" / "C12").glob("*.json")):
        c = json.loads(f.read_text())
        corpus.append((c.get("suite", "vec"), c["case"], f.name))
    # ---- wrapper suite (cheap, first)
    wcases = [(c, name) for s, c, name in corpus if s == "wrapper"]
    wcases += [(gen_wrapper_case(rng), None) for _ in range(120 if quick else 1500)]
    wdiff, wviol = 0, 0
    for case, origin in wcases:
        res = eval_wrapper(chk, case, case["ops"])
        chk.case(["wrapper", case], nontrivial="auto-reset" in res["tags"],
                 sample={"suite": "wrapper", "env": case["envs"][0], "obs": case["obs"][0]["kind"],
                         "ops": len(case["ops"])},
                 tags=["suite-wrapper"] + sorted(set(res["tags"])) + [f"wrapper-end-{k}" for k in set(case["envs"][0]["kinds"])]
                 + [f"wrapper-agents-attr-{case['envs'][0].get('agents_attr', 'prune')}"]
                 + (["wrapper-finishing-order-differs"] if case["envs"][0].get("leaves") else [])
                 + (["wrapper-explicit-reset-inside-sequence"]
                    if any(a[0] == "step" and b[0] == "reset" for a, b in zip(case["ops"], case["ops"][1:])) else []))
        if res["problems"] or res["diff"] is not None:
            wdiff += res["diff"] is not None
            if wviol < 2:
                report_wrapper(chk, case, case["ops"], res)
            wviol += 1
    chk.suite("wrapper-ops", len(wcases), wdiff)
    run_direct_suites(chk, corpus)
    if wviol > 2:
        chk.notes.append(f"wrapper suite: {wviol} failing cases, first 2 reported")
    # ---- vec suite
    vcases = [(c, name) for s, c, name in corpus if s == "vec"]
    n_gen = 220 if quick else 2500
    vcases += [(gen_case(rng, chk.tier), None) for _ in range(n_gen)]
    if not quick:
        # a few cases under the other start methods (workers re-import agilerl and envs)
        for ctx in ("spawn", "forkserver"):
            c = gen_case(rng, "quick")
            c["n_envs"], c["envs"], c["context"] = 2, [dict(e) for e in (c["envs"] * 2)[:2]], ctx
            script_delays(rng, c["envs"], "reversed", 10)
            c["completion"] = "reversed"
            c["ops"] = [["reset", 5]] + [["step", gen_actions(rng, c["act"], 2)] for _ in range(8)]
            vcases.insert(len(vcases) - n_gen, (c, f"context-{ctx}"))
    vdiff, vviol, done = 0, 0, 0
    for case, origin in vcases:
        if origin is None and time.time() - t0 > budget_s:
            break
        res = eval_case(chk, case, case["ops"])
        done += 1
        for x in res["notes"]:
            chk.notes.append(f"case {done}: {x}")
        chk.case(["vec", case], nontrivial="auto-reset" in res["tags"],
                 sample={"suite": "vec", "n_envs": case["n_envs"], "agents": len(case["agents"]),
                         "obs": case["obs"][0], "act": case["act"], "envs": case["envs"][:2],
                         "copy": case.get("copy", True), "ops": len(case["ops"])},
                 tags=["suite-vec"] + case_tags(case) + sorted(set(res["tags"])))
        if res["problems"] or res["diff"] is not None:
            vdiff += res["diff"] is not None
            if vviol < 2:
                report(chk, case, case["ops"], res, "vec")
            vviol += 1
            if vviol >= 4:
                chk.notes.append("vec suite stopped after 4 failing cases")
                break
    chk.suite("vec-ops", done, vdiff)
    chk.notes.append(f"vec cases run: {done} of {len(vcases)} generated (wall budget {budget_s}s)")
    if quick is False:
        selftest(chk)


# ----------------------------------------------------------------------------- self-test (thorough)
SELFTEST_CASE = {
    "n_envs": 3, "agents": ["agent_0", "agent_1"],
    "obs": [{"kind": "vector", "parts": [["o", [7], "float32"]]},
            {"kind": "dict", "parts": [["pos", [3], "int16"], ["img", [2, 2, 2], "uint8"]]}],
    "act": [0, 2],
    "envs": [{"lens": [2], "kinds": ["term"], "leave": [0, 0], "rev_dicts": False, "layout": "transposed", "delay_ms": 40},
             {"lens": [3], "kinds": ["trunc"], "leave": [0, 0], "rev_dicts": False, "layout": "moveaxis", "delay_ms": 0},
             {"lens": [4, 1], "kinds": ["mixed"], "leave": [0, 0], "rev_dicts": False, "layout": "fortran", "delay_ms": 20}],
    "copy": True, "container": "array", "context": None, "case_seed": 7, "completion": "random",
    "ops": [["reset", 11]] + [["step", [[(s + i) % 5 for i in range(3)],
                                        [[(s - 4 + i) / 8.0, (i + 1) / 8.0] for i in range(3)]],
                               [1, 0] if s % 2 else [0, 1]] for s in range(7)],
}
SELFTEST_WRAPPER = {
    "n_envs": 1, "agents": ["agent_0", "agent_1"],
    "obs": [{"kind": "vector", "parts": [["o", [7], "float32"]]}] * 2, "act": [0, 1],
    "envs": [{"lens": [2], "kinds": ["trunc", "mixed"], "leave": [0, 0], "rev_dicts": False}],
    "ops": [["reset", None]] + [["step", [[1], [[0.5]]]] for _ in range(6)],
}


# class (a): explicit resets inside episodes after some agents finished, then another finishing order
SELFTEST_CASE_RESETS = {
    "n_envs": 2, "agents": ["agent_0", "agent_1"],
    "obs": [{"kind": "vector", "parts": [["o", [7], "float32"]]},
            {"kind": "dict", "parts": [["pos", [3], "int16"], ["img", [2, 2, 2], "uint8"]]}],
    "act": [0, 0],
    "envs": [{"lens": [4], "kinds": ["trunc"], "leave": [0, 0], "leaves": [[1, 0], [0, 1]], "rev_dicts": False,
              "agents_attr": "prune"},
             {"lens": [5, 4], "kinds": ["term"], "leave": [0, 0], "leaves": [[0, 2], [2, 0]], "rev_dicts": False,
              "agents_attr": "fixed"}],
    "copy": True, "container": "array", "context": None, "case_seed": 9, "completion": "none",
    "ops": ([["reset", 3]] + [["step", [[s % 5, (s + 1) % 5], [(s + 2) % 5, s % 5]]] for s in range(3)]
            + [["reset", None]] + [["step", [[(s + 1) % 5, s % 5], [s % 5, (s + 3) % 5]]] for s in range(6)]),
}
# class (b): the team stays listed in `env.agents`, the end is signalled through the flags only
SELFTEST_WRAPPER_LISTED = {
    "n_envs": 1, "agents": ["agent_0", "agent_1"],
    "obs": [{"kind": "vector", "parts": [["o", [7], "float32"]]}] * 2, "act": [0, 1],
    "envs": [{"lens": [2, 3], "kinds": ["trunc", "term", "mixed"], "leave": [0, 0], "leaves": [[0, 0], [1, 0]],
              "rev_dicts": False, "agents_attr": "fixed"}],
    "ops": [["reset", None]] + [["step", [[1], [[0.5]]]] for _ in range(7)],
}


def _faulty_worker_factory(m, fault="terminal-observation"):
    """`terminal-observation`: the worker with the transition captured before the auto-reset (the defect repaired by
    fixes/C12-autoreset-first-obs.diff), re-seeded; `stale-finished-set`: the end of an episode decided on the agents
    finished SO FAR, remembered across an explicit reset command"""
    def worker(index, env_fn, pipe, parent_pipe, shared_memory, error_queue, agents):
        env = env_fn()
        space = {agent: env.observation_space(agent) for agent in agents}
        parent_pipe.close()
        finished = set()
        try:
            while True:
                command, data = pipe.recv()
                if command == "reset":
                    obs, info = m.process_transition(env.reset(**data), space, ["observation", "info"], agents)
                    m.write_to_shared_memory(index, obs, shared_memory, space)
                    pipe.send((info, True))
                elif command == "step":
                    acts = {ag: (np.array(data[i]).squeeze() if not isinstance(data[i], int) else data[i])
                            for i, ag in enumerate(agents)}
                    if fault == "stale-finished-set":
                        o, r, te, tu, inf = env.step(acts)
                        finished.update(a for a in te if te[a] or tu[a])
                        if finished.issuperset(te.keys()):
                            o, inf = env.reset()
                            finished.clear()             # … but not in the "reset" branch above
                        obs, rew, term, trunc, info = m.process_transition(
                            (o, r, te, tu, inf), space, ["observation", "reward", "terminated", "truncated", "info"], agents)
                        m.write_to_shared_memory(index, obs, shared_memory, space)
                        pipe.send(((rew, term, trunc, info), True))
                        continue
                    tr = m.process_transition(env.step(acts), space,
                                              ["observation", "reward", "terminated", "truncated", "info"], agents)
                    obs, rew, term, trunc, info = tr
                    if all(term[a] or trunc[a] for a in agents):
                        env.reset()                      # first observation of the new episode is dropped
                    m.write_to_shared_memory(index, obs, shared_memory, space)
                    pipe.send(((rew, term, trunc, info), True))
                elif command == "close":
                    pipe.send((None, True))
                    break
                elif command == "_call":
                    name, args, kwargs = data
                    attr = getattr(env, name)
                    pipe.send((attr(*args, **kwargs) if callable(attr) else attr, True))
                else:
                    raise RuntimeError(command)
        except (KeyboardInterrupt, Exception):
            import sys
            import traceback
            et, ev, _ = sys.exc_info()
            error_queue.put((index, et, ev, traceback.format_exc()))
            pipe.send((None, False))
        finally:
            env.close()
    return worker


def selftest(chk: Check) -> None:
    from agilerl.vector import pz_async_vec_env as m
    from agilerl.vector import pz_vec_env as pv
    from agilerl.wrappers import pettingzoo_wrappers as pw
    base = eval_case(chk, SELFTEST_CASE, SELFTEST_CASE["ops"])
    if base["problems"] or base["diff"] is not None:
        chk.notes.append("self-test skipped: the self-test case already fails on this tree")
        return
    caught = []

    def expect(label, case=SELFTEST_CASE, oracle=False):
        r = eval_case(chk, case, case["ops"])
        if not r["problems"] and (oracle or r["diff"] is None):
            raise InfraError(f"C12 self-test: seeded fault not noticed{' by the oracles' if oracle else ''}: {label}")
        caught.append(label)

    # 1. action transposition swapped between environments
    orig_step = pv.PettingZooVecEnv.step

    def swapped_step(self, actions):
        rev = {ag: list(reversed(list(col))) for ag, col in actions.items()}
        return orig_step(self, rev)
    pv.PettingZooVecEnv.step = swapped_step
    try:
        expect("actions of environment i delivered to environment N-1-i")
    finally:
        pv.PettingZooVecEnv.step = orig_step
    # 1b. action dict transposed by insertion order instead of by agent id
    def by_position_step(self, actions):
        cols = list(actions.values())
        passed = [[] for _ in cols[0]]
        for col in cols:
            for env_idx, action in enumerate(col):
                passed[env_idx].append(int(action) if isinstance(action, (int, np.integer)) else action)
        self.step_async(passed)
        return self.step_wait()
    pv.PettingZooVecEnv.step = by_position_step
    try:
        expect("action dict transposed by key insertion order, not by agent id")
    finally:
        pv.PettingZooVecEnv.step = orig_step
    # 2. observation read from the wrong slice
    orig_get = m.Observations.__getitem__

    def rolled(self, agent):
        res = orig_get(self, agent)
        roll = (lambda x: np.roll(x, 1, axis=0))
        if isinstance(res, dict):
            return type(res)((k, roll(v)) for k, v in res.items())
        if isinstance(res, tuple):
            return tuple(roll(v) for v in res)
        return roll(res)
    m.Observations.__getitem__ = rolled
    try:
        expect("observations read from the neighbouring worker's slice")
    finally:
        m.Observations.__getitem__ = orig_get
    # 3. workers 1 and 2 write into each other's slices (wrong slice arithmetic on the worker side;
    #    deterministic: every slice still has exactly one writer)
    orig_write = m.write_to_shared_memory

    def misplaced(index, observation, shared_memory, obs_space):
        return orig_write({1: 2, 2: 1}.get(index, index), observation, shared_memory, obs_space)
    m.write_to_shared_memory = misplaced
    try:
        expect("workers write into another worker's slice")
    finally:
        m.write_to_shared_memory = orig_write
    # 4. the worker returns the terminal observation after the auto-reset (D5 re-seeded)
    orig_worker = m._async_worker
    m._async_worker = _faulty_worker_factory(m)
    try:
        expect("worker drops the first observation of the new episode")
    finally:
        m._async_worker = orig_worker
    # 4b. class "explicit reset inside an episode, then another finishing order": the worker remembers who finished
    #     across a reset command (must be noticed by the oracles themselves, with a concrete input)
    base_r = eval_case(chk, SELFTEST_CASE_RESETS, SELFTEST_CASE_RESETS["ops"])
    if base_r["problems"] or base_r["diff"] is not None:
        raise InfraError(f"C12 self-test: the explicit-reset case fails on the unchanged tree: {base_r['problems'][:1]}")
    m._async_worker = _faulty_worker_factory(m, "stale-finished-set")
    try:
        expect("worker remembers the agents that finished before an explicit reset", SELFTEST_CASE_RESETS, oracle=True)
        r0 = eval_case(chk, SELFTEST_CASE, SELFTEST_CASE["ops"])
        if r0["problems"] or r0["diff"] is not None:
            raise InfraError("C12 self-test: the stale-finished-set worker must be invisible without a reset inside an episode")
    finally:
        m._async_worker = orig_worker
    # 5. rewards gathered from the pipes in the wrong order
    orig_wait = m.AsyncPettingZooVecEnv.step_wait

    def bad_wait(self, timeout=None):
        o, r, te, tr, i = orig_wait(self, timeout)
        return o, {a: v[::-1].copy() for a, v in r.items()}, te, tr, i
    m.AsyncPettingZooVecEnv.step_wait = bad_wait
    try:
        expect("rewards returned in reversed environment order")
    finally:
        m.AsyncPettingZooVecEnv.step_wait = orig_wait
    # 5b. replies drained as they arrive, reward / termination / truncation lists built in ARRIVAL order
    from multiprocessing.connection import wait as mp_wait

    def arrival_wait(self, timeout=None):
        self._state = m.AsyncState.DEFAULT
        rew, term, trunc = ({ag: [] for ag in self.agents} for _ in range(3))
        infos, pending = {}, {pipe: i for i, pipe in enumerate(self.parent_pipes)}
        while pending:
            for pipe in mp_wait(list(pending)):
                i = pending.pop(pipe)
                ret, ok = pipe.recv()
                if not ok:
                    raise RuntimeError("worker failed")
                for ag in self.agents:
                    rew[ag].append(ret[0][ag])
                    term[ag].append(ret[1][ag])
                    trunc[ag].append(ret[2][ag])
                infos = self._add_info(infos, ret[3], i)
        obs = {ag: self.observations[ag] for ag in self.observations.keys()} if self.copy else self.observations
        return (obs, {a: np.array(v) for a, v in rew.items()}, {a: np.array(v) for a, v in term.items()},
                {a: np.array(v) for a, v in trunc.items()}, infos)
    m.AsyncPettingZooVecEnv.step_wait = arrival_wait
    try:
        expect("rewards / terminations / truncations gathered in the order the workers finish")
    finally:
        m.AsyncPettingZooVecEnv.step_wait = orig_wait
    # 5c. the worker flattens observations in memory order instead of logical (row-major) order
    orig_write2 = m.write_to_shared_memory

    def memory_order_write(index, observation, shared_memory, obs_space):
        def k_order(x):
            return np.asarray(x).ravel(order="K")
        obs = {}
        for agent, o in observation.items():
            if isinstance(o, dict):
                obs[agent] = {k: k_order(v) for k, v in o.items()}
            elif isinstance(o, tuple):
                obs[agent] = tuple(k_order(v) for v in o)
            else:
                obs[agent] = k_order(o)
        return orig_write2(index, obs, shared_memory, obs_space)
    m.write_to_shared_memory = memory_order_write
    try:
        expect("non-contiguous observations flattened in memory order")
    finally:
        m.write_to_shared_memory = orig_write2
    # 6. wrapper that ignores truncation (D6 re-seeded)
    orig_wstep = pw.PettingZooAutoResetParallelWrapper.step

    def bad_wstep(self, actions):
        obs, rewards, terminations, truncations, infos = self.env.step(actions)
        if np.all(list(terminations.values()) or list(truncations.values())):
            obs, infos = self.env.reset()
        return obs, rewards, terminations, truncations, infos
    wb = eval_wrapper(chk, SELFTEST_WRAPPER, SELFTEST_WRAPPER["ops"])
    if not wb["problems"] and wb["diff"] is None:
        pw.PettingZooAutoResetParallelWrapper.step = bad_wstep
        try:
            r = eval_wrapper(chk, SELFTEST_WRAPPER, SELFTEST_WRAPPER["ops"])
            if not r["problems"] and r["diff"] is None:
                raise InfraError("C12 self-test: wrapper that ignores truncation was not noticed")
            caught.append("wrapper restarts on terminations only")
        finally:
            pw.PettingZooAutoResetParallelWrapper.step = orig_wstep
    # 7. class "the team stays listed in env.agents": wrapper that restarts when `env.agents` is empty
    def listed_wstep(self, actions):
        obs, rewards, terminations, truncations, infos = self.env.step(actions)
        if not self.env.agents:
            obs, infos = self.env.reset()
        return obs, rewards, terminations, truncations, infos
    wl = eval_wrapper(chk, SELFTEST_WRAPPER_LISTED, SELFTEST_WRAPPER_LISTED["ops"])
    if wl["problems"] or wl["diff"] is not None:
        raise InfraError(f"C12 self-test: the team-stays-listed wrapper case fails on the unchanged tree: {wl['problems'][:1]}")
    pw.PettingZooAutoResetParallelWrapper.step = listed_wstep
    try:
        r = eval_wrapper(chk, SELFTEST_WRAPPER_LISTED, SELFTEST_WRAPPER_LISTED["ops"])
        if not r["problems"]:
            raise InfraError("C12 self-test: wrapper that restarts on an empty env.agents was not noticed by the oracles")
        r = eval_wrapper(chk, SELFTEST_WRAPPER, SELFTEST_WRAPPER["ops"])
        if r["problems"] or r["diff"] is not None:
            raise InfraError("C12 self-test: on an environment that empties env.agents that wrapper must be invisible")
        caught.append("wrapper restarts on an empty env.agents instead of on the flags")
    finally:
        pw.PettingZooAutoResetParallelWrapper.step = orig_wstep
    chk.notes.append("self-test: detected " + "; ".join(caught))


# ----------------------------------------------------------------------------- replay
def replay(chk: Check, path: str) -> int:
    c = json.loads(open(path).read())
    c = c.get("replay", c)
    case, suite = c["case"], c.get("suite", "vec")
    if suite in ("shm", "infos"):
        res = eval_shm(case) if suite == "shm" else eval_infos(case)
        print(json.dumps({"suite": suite, "oracle_problems": res["problems"]}, indent=1))
        if res["problems"]:
            print(f"VIOLATION property=C12 replay={path}")
            print(f"  -> {res['problems'][0]}"[:600])
            return 1
        return 0
    res = eval_wrapper(chk, case, case["ops"]) if suite == "wrapper" else eval_case(chk, case, case["ops"])
    print(json.dumps({"suite": suite, "diff_at": res["diff"], "oracle_problems": res["problems"][:6],
                      "impl": res["impl"][-6:], "model": res["model"][-6:], "notes": res["notes"]}, indent=1))
    if res["problems"]:
        print(f"VIOLATION property=C12 replay={path}")
        print(f"  -> {res['problems'][0]}"[:600])
        return 1
    if res["diff"] is not None:
        print(f"VIOLATION property=C12 replay={path} no-failing-input-found")
        return 1
    return 0
