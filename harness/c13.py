"""
C13 — the vector environment rejects misuse and survives worker faults without hanging.

Correspondence: bounded op sequences (reset_async/reset_wait/step_async/step_wait/call_async/
call_wait/set_attr/close, with and without timeout / terminate, legal and misused) × fault scripts
(worker, command, occurrence, raise T | sleep | kill) are run against the REAL
`AsyncPettingZooVecEnv`, every scenario in its own child process (own session / process group,
wall-clock guard per op, so a hang is an outcome `hang`, never a stuck harness), and against
`Model/VecProto.lean` (`fixed = true`).  Compared per op: outcome (ok | error class | hang), `_state`,
`closed`; after a `close` that returned: the `is_alive()` vector.

Oracle (the statement itself, evaluated on the implementation's outputs only): misuse ⇒ documented
error class, state untouched, and without faults every legal call still succeeds; a scripted
`raise T` reaches the caller as T; a timed wait on a sleeping worker is `multiprocessing.TimeoutError`;
no call hangs; every `close()` returns within a bound, without raising, and leaves no worker alive;
a second close is a no-op; use after close is `ClosedEnvironmentError`.

Process layout: harness → K "zygote" runners (`python c13.py --zygote`, import agilerl once from
VERIF_REPO, are child subreapers) → one forked child per scenario (setsid) → the env's worker
processes.  After each scenario the zygote SIGKILLs the scenario's process group and reaps every
descendant (`waitpid(-1)` until ECHILD); the harness finally scans /proc/*/environ for its marker.
"""
from __future__ import annotations

import json
import os
import select
import signal
import subprocess
import sys
import threading
import time
import uuid
from pathlib import Path

if __name__ == "__main__":
    sys.path.insert(0, str(Path(__file__).resolve().parent))

from common import REPO, ROOT, Check, InfraError  # noqa: E402

SLEEP_S = 4.0        # scripted sleep: outlasts every timed wait, finite for an untimed one (A4)
TIMEOUT_S = 0.25     # the timeout handed to timed waits / close(timeout=…)
SETTLE_S = 0.08      # pause after every call so that worker replies / exits have happened (A1)
OP_BOUND_S = 2 * SLEEP_S + 6.0   # no reply from the scenario for this long ⇒ outcome `hang`
CLOSE_SLACK_S = 3.0  # close() must return within (sleep still owed by scripted sleeps) + this
MAX_TIMED = 4        # timed calls per scenario (keeps Σ timeouts well below SLEEP_S)

CMDS = ["reset", "step", "call", "set_attr"]
EXC_NAMES = ["ValueError", "RuntimeError", "ZeroDivisionError", "CustomFault", "IndexError"]
PROTOCOL_ERRORS = {"AlreadyPendingCallError", "NoAsyncCallError", "ClosedEnvironmentError",
                   "mp.TimeoutError", "EOFError", "BrokenPipeError", "AttributeError", "KeyError", "TypeError"}
ASYNC_OF = {"reset_async": ("reset", "reset"), "step_async": ("step", "step"), "call_async": ("call", "call")}
WAIT_OF = {"reset_wait": "reset", "step_wait": "step", "call_wait": "call"}


# ============================================================================ scenario child
def canon_exc(e: BaseException, opname: str) -> str:
    t = type(e)
    name = t.__name__
    if name == "TimeoutError" and t.__module__.startswith("multiprocessing"):
        return "mp.TimeoutError"
    if name in ("ConnectionResetError", "ConnectionAbortedError"):
        # peer died with unread commands queued: the OS reports ECONNRESET instead of EOF / EPIPE
        return "BrokenPipeError" if opname.endswith("_async") else "EOFError"
    return name


def apply_patch(patch: str | None) -> None:
    """seeded faults for the self-test (only ever applied inside a scenario child)"""
    if not patch:
        return
    from agilerl.vector import pz_async_vec_env as m
    cls = m.AsyncPettingZooVecEnv
    if patch == "skip_state_check":
        def step_async(self, actions):
            self._assert_is_running()
            for pipe, action in zip(self.parent_pipes, actions):
                pipe.send(("step", action))
            self._state = m.AsyncState.WAITING_STEP
        cls.step_async = step_async
    elif patch == "close_leaks":
        def close_extras(self, timeout=None, terminate=False):
            for pipe in self.parent_pipes:
                if pipe is not None:
                    pipe.close()
        cls.close_extras = close_extras
    elif patch == "swallow_worker_error":
        def _raise_if_errors(self, successes):
            if all(successes):
                return
            for _ in range(self.num_envs - sum(successes)):
                index, *_rest = self.error_queue.get()
                self.parent_pipes[index].close()
                self.parent_pipes[index] = None
            self._state = m.AsyncState.DEFAULT
        cls._raise_if_errors = _raise_if_errors
    elif patch == "timeout_keeps_state":
        orig = cls._poll_pipe_envs

        def _poll(self, timeout=None):
            return True if timeout is not None and timeout > 0 else orig(self, timeout)
        cls._poll_pipe_envs = _poll
    else:
        raise ValueError(patch)


def scenario_child(scn: dict, wfd: int) -> None:
    os.setsid()
    if not os.environ.get("C13_DEBUG"):
        dn = os.open(os.devnull, os.O_WRONLY)
        os.dup2(dn, 2)
    out = os.fdopen(wfd, "w", buffering=1)
    import warnings
    warnings.filterwarnings("ignore")
    import gymnasium
    gymnasium.logger.min_level = 100
    from envs_fault import make_fns
    from agilerl.vector.pz_async_vec_env import AsyncPettingZooVecEnv
    apply_patch(scn.get("patch"))
    n = scn["n"]
    script = [(w, c, k, kind, (SLEEP_S if kind == "sleep" else arg)) for (w, c, k, kind, arg) in scn["script"]]
    env = AsyncPettingZooVecEnv(make_fns(n, script))
    out.write(json.dumps({"pids": [p.pid for p in env.processes]}) + "\n")
    for i, op in enumerate(scn["ops"]):
        name, args = op[0], op[1:]
        tmo = TIMEOUT_S if (args and args[0]) else None
        t0 = time.monotonic()
        try:
            if name == "reset_async":
                env.reset_async()
            elif name == "reset_wait":
                env.reset_wait(tmo)
            elif name == "step_async":
                env.step_async([[0, 0]] * n)
            elif name == "step_wait":
                env.step_wait(tmo)
            elif name == "call_async":
                env.call_async("probe")
            elif name == "call_wait":
                env.call_wait(tmo)
            elif name == "set_attr":
                env.set_attr("knob", i)
            elif name == "close":
                kw = {}
                if args[0]:
                    kw["timeout"] = TIMEOUT_S
                if args[1]:
                    kw["terminate"] = True
                env.close(**kw)
            else:
                raise InfraError(f"unknown op {name}")
            r = "ok"
        except InfraError:
            raise
        except BaseException as e:  # noqa: BLE001 — the outcome IS the exception class
            r = canon_exc(e, name)
        dt = time.monotonic() - t0
        time.sleep(SETTLE_S)
        rec = {"i": i, "out": r, "state": env._state.value, "closed": int(bool(env.closed)), "dt": round(dt, 3)}
        if name == "close":
            rec["alive"] = [int(p.is_alive()) for p in env.processes]
        out.write(json.dumps(rec) + "\n")
    out.write(json.dumps({"end": 1, "alive": [int(p.is_alive()) for p in env.processes]}) + "\n")
    out.flush()
    os._exit(0)


# ============================================================================ zygote
def pid_alive(pid: int) -> int:
    try:
        with open(f"/proc/{pid}/stat") as f:
            return int(f.read().rsplit(")", 1)[1].split()[0] != "Z")
    except OSError:
        return 0


def reap_all(deadline_s: float) -> int:
    """wait for every descendant (we are a subreaper); returns how many are left at the deadline"""
    end = time.monotonic() + deadline_s
    while True:
        try:
            pid, _ = os.waitpid(-1, os.WNOHANG)
        except ChildProcessError:
            return 0
        if pid == 0:
            if time.monotonic() > end:
                left = 0
                for d in os.listdir("/proc"):
                    if d.isdigit():
                        try:
                            with open(f"/proc/{d}/stat") as f:
                                fields = f.read().rsplit(")", 1)[1].split()
                            if int(fields[1]) == os.getpid():
                                left += 1
                                os.kill(int(d), signal.SIGKILL)
                        except OSError:
                            pass
                return left
            time.sleep(0.01)


def zygote_main() -> None:
    import ctypes
    try:
        ctypes.CDLL(None, use_errno=True).prctl(36, 1, 0, 0, 0)      # PR_SET_CHILD_SUBREAPER
    except Exception:  # noqa: BLE001
        pass
    import agilerl.vector.pz_async_vec_env as m  # noqa: F401  (import once; children are forked)
    import envs_fault  # noqa: F401
    sys.stdout.write(json.dumps({"hello": 1, "agilerl": os.path.dirname(os.path.dirname(os.path.dirname(m.__file__)))}) + "\n")
    sys.stdout.flush()
    for line in sys.stdin:
        line = line.strip()
        if not line:
            continue
        scn = json.loads(line)
        rfd, wfd = os.pipe()
        pid = os.fork()
        if pid == 0:
            os.close(rfd)
            try:
                scenario_child(scn, wfd)
            except BaseException as e:  # noqa: BLE001
                try:
                    os.write(wfd, (json.dumps({"crash": f"{type(e).__name__}: {e}"}) + "\n").encode())
                finally:
                    os._exit(3)
        os.close(wfd)
        results, pids, ended, crash, buf = [], [], False, None, b""
        deadline = time.monotonic() + OP_BOUND_S + 10
        eof = False
        while not ended and not eof and crash is None:
            left = deadline - time.monotonic()
            if left <= 0:
                break
            r, _, _ = select.select([rfd], [], [], left)
            if not r:
                break
            chunk = os.read(rfd, 65536)
            if not chunk:
                eof = True
                break
            buf += chunk
            while b"\n" in buf:
                ln, buf = buf.split(b"\n", 1)
                rec = json.loads(ln)
                deadline = time.monotonic() + OP_BOUND_S
                if "pids" in rec:
                    pids = rec["pids"]
                elif "end" in rec:
                    ended = True
                    final_alive = rec["alive"]
                elif "crash" in rec:
                    crash = rec["crash"]
                else:
                    results.append(rec)
        os.close(rfd)
        ans = {"results": results, "hang_at": None, "crash": crash}
        if ended:
            ans["final_alive"] = final_alive
        elif crash is None and eof:
            ans["crash"] = "scenario process ended without a result"
        elif crash is None:
            ans["hang_at"] = len(results)
            ans["alive_at_hang"] = [pid_alive(p) for p in pids]
        try:
            os.killpg(pid, signal.SIGKILL)
        except ProcessLookupError:
            pass
        ans["leaked"] = reap_all(8.0)
        sys.stdout.write(json.dumps(ans) + "\n")
        sys.stdout.flush()


# ============================================================================ pool (harness side)
class Pool:
    def __init__(self, k: int):
        self.mark = "c13-" + uuid.uuid4().hex
        env = dict(os.environ, C13_MARK=self.mark, VERIF_REPO=str(REPO), PYTHONDONTWRITEBYTECODE="1")
        env["PYTHONPATH"] = str(REPO) + os.pathsep + env.get("PYTHONPATH", "")
        self.procs = []
        for _ in range(k):
            self.procs.append(subprocess.Popen(
                [sys.executable, str(Path(__file__).resolve()), "--zygote"], stdin=subprocess.PIPE,
                stdout=subprocess.PIPE, stderr=subprocess.DEVNULL if not os.environ.get("C13_DEBUG") else None,
                text=True, env=env, cwd="/", start_new_session=True))
        for p in self.procs:
            hello = self._readline(p, 180)
            where = json.loads(hello).get("agilerl", "")
            if os.path.realpath(where) != os.path.realpath(str(REPO)):
                self.close()
                raise InfraError(f"scenario runner imported agilerl from {where}, expected {REPO}")

    @staticmethod
    def _readline(p, timeout):
        r, _, _ = select.select([p.stdout], [], [], timeout)
        if not r:
            raise InfraError("C13 scenario runner did not answer in time")
        ln = p.stdout.readline()
        if not ln:
            raise InfraError("C13 scenario runner died")
        return ln

    def run_many(self, scns: list[dict]) -> list[dict]:
        out: list = [None] * len(scns)
        nxt = iter(range(len(scns)))
        lock = threading.Lock()
        errors: list = []

        def work(p):
            while True:
                with lock:
                    i = next(nxt, None)
                if i is None or errors:
                    return
                try:
                    p.stdin.write(json.dumps(scns[i]) + "\n")
                    p.stdin.flush()
                    out[i] = json.loads(self._readline(p, (len(scns[i]["ops"]) + 3) * (OP_BOUND_S + 1) + 30))
                except Exception as e:  # noqa: BLE001
                    errors.append(e)
                    return
        ts = [threading.Thread(target=work, args=(p,), daemon=True) for p in self.procs]
        for t in ts:
            t.start()
        for t in ts:
            t.join()
        if errors:
            raise InfraError(f"C13 runner failure: {errors[0]!r}")
        for i, a in enumerate(out):
            if a is None or a.get("crash"):
                raise InfraError(f"C13 scenario {scns[i]} crashed: {a and a.get('crash')}")
            if a.get("leaked"):
                raise InfraError(f"C13 scenario {scns[i]} left {a['leaked']} process(es) that survived SIGKILL of its group")
        return out

    def close(self) -> int:
        for p in self.procs:
            try:
                p.stdin.close()
            except Exception:  # noqa: BLE001
                pass
        for p in self.procs:
            try:
                p.wait(timeout=20)
            except subprocess.TimeoutExpired:
                p.kill()
        # psutil-free leak scan: nothing carrying our marker may be left
        left = 0
        for d in os.listdir("/proc"):
            if not d.isdigit():
                continue
            try:
                with open(f"/proc/{d}/environ", "rb") as f:
                    if ("C13_MARK=" + self.mark).encode() in f.read():
                        with open(f"/proc/{d}/stat") as g:
                            if g.read().rsplit(")", 1)[1].split()[0] != "Z":
                                left += 1
                                os.kill(int(d), signal.SIGKILL)
            except OSError:
                pass
        return left


# ============================================================================ model side
def model_lines(scn: dict) -> list[str]:
    parts = ["vecproto", "new", "1" if scn.get("fixed", True) else "0", str(scn["n"])]
    for (w, c, k, kind, arg) in scn["script"]:
        parts += [str(w), c, str(k), kind, str(EXC_NAMES.index(arg)) if kind == "raise" else "0"]
    lines = [" ".join(parts)]
    for op in scn["ops"]:
        lines.append("vecproto op " + " ".join([op[0]] + [str(int(bool(a))) for a in op[1:]]))
    return lines


def canon_model(line: str, opname: str) -> str:
    """`ok default closed=0 alive=11` → same canonical text as canon_impl"""
    if line in ("unreached", "bad-op", "reject"):
        return line
    out, state, closed, alive = line.split(" ")
    if out.startswith("err:worker:"):
        out = "err:" + EXC_NAMES[int(out.split(":")[2])]
    s = f"{out} {state} {closed}"
    if opname == "close" and out == "ok":
        s += " " + alive
    return s


def canon_impl(ans: dict, ops: list) -> list[str]:
    lines = []
    for rec, op in zip(ans["results"], ops):
        out = "ok" if rec["out"] == "ok" else "err:" + rec["out"]
        s = f"{out} {rec['state']} closed={rec['closed']}"
        if op[0] == "close" and out == "ok":
            s += " alive=" + "".join(map(str, rec["alive"]))
        lines.append(s)
    if ans["hang_at"] is not None:
        lines.append("hang")
        lines += ["unreached"] * (len(ops) - len(lines))
    return lines


# ============================================================================ oracle
def oracle(scn: dict, ans: dict) -> list[str]:
    """the statement of C13 on the implementation's own outputs (no reference to the Lean model)"""
    problems = []
    ops, script = scn["ops"], scn["script"]
    res = ans["results"]
    state, closed = "default", 0
    fault_seen = False           # anything but a protocol-misuse error has happened
    batches = {c: 0 for c in CMDS}          # commands of each kind delivered to (all) workers so far
    pending_batch = None
    sleep_owed = SLEEP_S * sum(1 for f in script if f[3] == "sleep")
    for i, op in enumerate(ops):
        name = op[0]
        if i >= len(res):
            if ans["hang_at"] == i:
                extra = f"; workers alive meanwhile: {ans.get('alive_at_hang')}" if name == "close" else ""
                problems.append(f"op {i} `{name}` did not return within {OP_BOUND_S:.0f}s (hang){extra}")
            break
        r = res[i]
        out = r["out"]
        # ---- misuse table
        expect = None
        if closed and name != "close":
            expect = "ClosedEnvironmentError"
        elif name in ASYNC_OF or name == "set_attr":
            if state != "default":
                expect = "AlreadyPendingCallError"
        elif name in WAIT_OF:
            if state != WAIT_OF[name]:
                expect = "NoAsyncCallError"
        if expect is not None:
            if out != expect:
                problems.append(f"op {i} `{name}` in state {state}/closed={closed}: expected {expect}, got {out}")
            if r["state"] != state or r["closed"] != closed:
                problems.append(f"op {i} misuse `{name}` changed the state {state}->{r['state']}")
        elif name == "close":
            bound = sleep_owed + CLOSE_SLACK_S
            if out != "ok":
                problems.append(f"op {i} close() raised {out}; workers alive after it: {r.get('alive')}")
            else:
                if any(r.get("alive", [])):
                    problems.append(f"op {i} close() returned but workers are alive: {r['alive']}")
                if not r["closed"]:
                    problems.append(f"op {i} close() returned but `closed` is False")
            if r["dt"] > bound:
                problems.append(f"op {i} close() took {r['dt']}s > {bound}s")
        else:
            # ---- a legal call
            cmd = ASYNC_OF[name][0] if name in ASYNC_OF else (WAIT_OF.get(name) or "set_attr")
            timed = bool(op[1]) if name in WAIT_OF else False
            if name in ASYNC_OF or name == "set_attr":
                b = batches[cmd]
            else:
                b = pending_batch
            due = [f for f in script if f[1] == cmd and f[2] == b] if b is not None else []
            if not fault_seen:
                consumes = name in WAIT_OF or name == "set_attr"
                if not consumes:
                    if out != "ok":
                        problems.append(f"op {i} legal `{name}` before any fault raised {out}")
                    elif r["state"] != ASYNC_OF[name][1]:
                        problems.append(f"op {i} `{name}` left state {r['state']}")
                else:
                    raises = sorted({f[4] for f in due if f[3] == "raise"})
                    sleeps = [f for f in due if f[3] == "sleep"]
                    kills = [f for f in due if f[3] == "kill"]
                    if kills:
                        if out == "ok" or out in EXC_NAMES:
                            problems.append(f"op {i} `{name}`: a worker was killed but the caller saw {out}")
                    elif sleeps and timed:
                        if out != "mp.TimeoutError":
                            problems.append(f"op {i} timed `{name}` on a sleeping worker: expected mp.TimeoutError, got {out}")
                    elif raises:
                        if out not in raises:
                            problems.append(f"op {i} `{name}`: sub-environment raised {raises}, caller saw {out}")
                    elif out != "ok":
                        problems.append(f"op {i} legal `{name}` without a due fault raised {out}")
                    if not kills and r["state"] != "default":
                        problems.append(f"op {i} `{name}` left state {r['state']} instead of default")
                    if due:
                        fault_seen = True
                    if sleeps and not timed:
                        sleep_owed = max(0.0, sleep_owed - SLEEP_S)
            else:
                # after a fault: nothing may be invented — a worker exception type must be scripted
                if out in EXC_NAMES and out not in {f[4] for f in script if f[3] == "raise"}:
                    problems.append(f"op {i} `{name}` raised {out}, which no sub-environment raises")
            if out == "ok" and (name in ASYNC_OF):
                pending_batch = batches[cmd]
                batches[cmd] += 1
            elif name == "set_attr" and out != "AlreadyPendingCallError":
                batches[cmd] += 1
            if out != "ok" and name in ASYNC_OF:
                fault_seen = True
        state, closed = r["state"], r["closed"]
    if closed and any(ans.get("final_alive", [])):
        problems.append(f"environment is closed but worker processes are alive at the end: {ans['final_alive']}")
    return problems


# ============================================================================ generators
def legal_next(state: str, rng, bias_cmd: str | None):
    if state == "default":
        names = ["reset_async", "step_async", "call_async", "set_attr"]
        if bias_cmd and rng.random() < 0.6:
            return ["set_attr"] if bias_cmd == "set_attr" else [bias_cmd + "_async"]
        return [rng.choice(names)]
    return [state + "_wait", int(rng.random() < 0.35)]


def misuse_next(state: str, rng):
    if state == "default":
        return [rng.choice(["reset_wait", "step_wait", "call_wait"]), int(rng.random() < 0.3)]
    c = [["reset_async"], ["step_async"], ["call_async"], ["set_attr"]]
    c += [[w + "_wait", 0] for w in ("reset", "step", "call") if w != state]
    return rng.choice(c)


def gen_ops(rng, length: int, p_misuse: float, bias_cmd: str | None, close_kind=None, after_close: int = 1):
    """a walk that tracks the *intended* state (as if no fault fired); faults may derail it, which is the point"""
    ops, state, timed = [], "default", 0
    for _ in range(length):
        op = misuse_next(state, rng) if rng.random() < p_misuse else legal_next(state, rng, bias_cmd)
        if len(op) > 1 and op[1]:
            if timed >= MAX_TIMED - 1:
                op[1] = 0
            else:
                timed += 1
        ops.append(op)
        name = op[0]
        if state == "default" and name in ASYNC_OF:
            state = ASYNC_OF[name][1]
        elif name in WAIT_OF and WAIT_OF[name] == state:
            state = "default"
    ck = close_kind if close_kind is not None else rng.choice([[0, 0], [0, 0], [1, 0], [0, 1]])
    ops.append(["close"] + list(ck))
    for _ in range(after_close):
        ops.append(rng.choice([["close", 0, 0], ["reset_async"], ["step_wait", 0], ["set_attr"], ["call_async"],
                               ["close", 0, 1]]))
    return ops


def drive_to(cmd: str, k: int, timed_last: bool):
    """shortest legal sequence whose last call consumes the k-th batch of `cmd`"""
    ops = []
    if cmd != "reset" and cmd != "set_attr":
        ops += [["reset_async"], ["reset_wait", 0]]
    for j in range(k + 1):
        last = j == k
        if cmd == "set_attr":
            ops.append(["set_attr"])
        else:
            ops += [[cmd + "_async"], [cmd + "_wait", int(timed_last and last)]]
    return ops


def valid_scenario(scn: dict) -> bool:
    """correspondence-side restrictions (see chk.assumptions): sleeps on one worker only, ≤ 2 sleeps,
    bounded number of timed calls"""
    sl = [f for f in scn["script"] if f[3] == "sleep"]
    if len({f[0] for f in sl}) > 1 or len(sl) > 2:
        return False
    timed = sum(1 for op in scn["ops"] if (op[0] in WAIT_OF and op[1]) or (op[0] == "close" and op[1]))
    if timed > MAX_TIMED:
        return False
    raises = {f[4] for f in scn["script"] if f[3] == "raise"}
    return len(raises) <= 1 and all(f[0] < scn["n"] for f in scn["script"])


def gen_fault(rng, n: int, kind=None, exc=None):
    kind = kind or rng.choice(["raise", "raise", "sleep", "kill"])
    return [rng.randrange(n), rng.choice(CMDS), rng.choice([0, 0, 1, 2]), kind,
            (exc or rng.choice(EXC_NAMES)) if kind == "raise" else None]


def gen_quick(rng) -> list[dict]:
    scns = []
    # fault-free misuse walks
    for _ in range(6):
        scns.append({"n": rng.choice([1, 2, 3]), "script": [], "ops": gen_ops(rng, rng.randint(4, 9), 0.4, None)})
    # one fault, directed so that it fires, followed by a random continuation
    for kind in ("raise", "sleep", "kill"):
        for cmd in CMDS:
            n = rng.choice([2, 3])
            k = rng.choice([0, 1])
            f = [rng.randrange(n), cmd, k, kind, rng.choice(EXC_NAMES) if kind == "raise" else None]
            ops = drive_to(cmd, k, timed_last=(kind == "sleep" and rng.random() < 0.7))
            ops += gen_ops(rng, rng.randint(0, 3), 0.3, cmd)
            scns.append({"n": n, "script": [f], "ops": ops})
    # close while the faulty call is still pending
    for kind in ("raise", "sleep", "kill"):
        n, cmd = rng.choice([2, 3]), rng.choice(["reset", "step", "call"])
        f = [rng.randrange(n), cmd, 0, kind, rng.choice(EXC_NAMES) if kind == "raise" else None]
        pre = [] if cmd == "reset" else [["reset_async"], ["reset_wait", 0]]
        ck = rng.choice([[0, 0], [1, 0], [0, 1]])
        scns.append({"n": n, "script": [f], "ops": pre + [[cmd + "_async"], ["close"] + ck, ["close", 0, 0], ["step_async"]]})
    # several faults in different workers, random walks
    tries = 0
    while len(scns) < 36 and tries < 400:
        tries += 1
        n = rng.choice([2, 3, 3])
        exc = rng.choice(EXC_NAMES)
        script = [gen_fault(rng, n, exc=exc) for _ in range(rng.choice([1, 2, 2, 3]))]
        if len({(f[0], f[1], f[2]) for f in script}) < len(script):
            continue
        scn = {"n": n, "script": script, "ops": gen_ops(rng, rng.randint(4, 9), 0.2, rng.choice(script)[1])}
        if valid_scenario(scn):
            scns.append(scn)
    return scns


def gen_thorough(rng) -> list[dict]:
    scns = gen_quick(rng)
    # fault matrix: every command × occurrence × worker × kind, consumed timed and untimed,
    # closed gracefully / with timeout / with terminate, then used after close
    for cmd in CMDS:
        for k in (0, 1, 2):
            for n, w in ((2, 0), (2, 1), (3, 1), (3, 2)):
                for kind in ("raise", "sleep", "kill"):
                    f = [w, cmd, k, kind, rng.choice(EXC_NAMES) if kind == "raise" else None]
                    timed = kind == "sleep" and cmd != "set_attr" and rng.random() < 0.6
                    ops = drive_to(cmd, k, timed_last=timed)
                    ops += gen_ops(rng, rng.randint(0, 3), 0.3, cmd)
                    scns.append({"n": n, "script": [f], "ops": ops})
    # close with the faulty call still pending: every command × kind × close variant
    for cmd in ("reset", "step", "call"):
        for kind in ("raise", "sleep", "kill"):
            for ck in ([0, 0], [1, 0], [0, 1]):
                n = rng.choice([2, 3])
                f = [rng.randrange(n), cmd, 0, kind, rng.choice(EXC_NAMES) if kind == "raise" else None]
                pre = [] if cmd == "reset" else [["reset_async"], ["reset_wait", 0]]
                scns.append({"n": n, "script": [f], "ops": pre + [[cmd + "_async"], ["close"] + ck, ["close", 0, 0]]})
    # pairs of faults in different workers at the same or neighbouring commands
    tries = 0
    target = len(scns) + 400
    while len(scns) < target and tries < 4000:
        tries += 1
        n = rng.choice([2, 3, 4])
        exc = rng.choice(EXC_NAMES)
        script = [gen_fault(rng, n, exc=exc) for _ in range(rng.choice([2, 2, 3]))]
        if len({(f[0], f[1], f[2]) for f in script}) < len(script):
            continue
        scn = {"n": n, "script": script, "ops": gen_ops(rng, rng.randint(4, 10), 0.2, rng.choice(script)[1],
                                                         after_close=rng.choice([0, 1, 2]))}
        if valid_scenario(scn):
            scns.append(scn)
    for _ in range(40):
        scns.append({"n": rng.choice([1, 2, 3]), "script": [], "ops": gen_ops(rng, rng.randint(5, 12), 0.45, None)})
    return scns


# ============================================================================ check
def evaluate(chk: Check, pool: Pool, scns: list[dict]):
    """→ per scenario (impl lines, model lines, diff index | None, oracle problems, answer)"""
    answers = pool.run_many(scns)
    lines = ["reset"]
    spans = []
    for scn in scns:
        ml = model_lines(scn)
        spans.append((len(lines), len(ml)))
        lines += ml
    mout = chk.driver.run(lines)
    chk.corr["model_lines"] += len(lines)
    out = []
    for scn, ans, (a, ln) in zip(scns, answers, spans):
        raw = mout[a:a + ln]
        if raw[0] != "ok":
            raise InfraError(f"C13 model rejected scenario header {scn}: {raw[0]}")
        model = [canon_model(x, op[0]) for x, op in zip(raw[1:], scn["ops"])]
        impl = canon_impl(ans, scn["ops"])
        model = [m.split(" ")[0] if m.startswith("hang") else m for m in model]
        diff = next((i for i, (x, y) in enumerate(zip(impl, model)) if x != y), None)
        if diff is None and len(impl) != len(model):
            diff = min(len(impl), len(model))
        out.append((impl, model, diff, oracle(scn, ans), ans))
    return out


def shrink(chk: Check, pool: Pool, scn: dict, want_oracle: bool) -> dict:
    """greedy parallel reduction: drop one op / one fault at a time while the failure persists"""
    def fails(res):
        impl, model, diff, problems, _ = res
        return bool(problems) if want_oracle else diff is not None
    cur = scn
    for _ in range(8):
        cands = []
        for i in range(len(cur["ops"])):
            c = dict(cur, ops=cur["ops"][:i] + cur["ops"][i + 1:])
            if c["ops"]:
                cands.append(c)
        for i in range(len(cur["script"])):
            cands.append(dict(cur, script=cur["script"][:i] + cur["script"][i + 1:]))
        if cur["n"] > 1 and all(f[0] < cur["n"] - 1 for f in cur["script"]):
            cands.append(dict(cur, n=cur["n"] - 1))
        if not cands:
            break
        res = evaluate(chk, pool, cands)
        hit = next((c for c, r in zip(cands, res) if fails(r)), None)
        if hit is None:
            break
        cur = hit
    return cur


def report(chk: Check, pool: Pool, scn: dict, res, do_shrink: bool = True) -> None:
    impl, model, diff, problems, ans = res
    small = shrink(chk, pool, scn, bool(problems)) if do_shrink else scn
    impl2, model2, diff2, problems2, ans2 = evaluate(chk, pool, [small])[0]
    if bool(problems2) != bool(problems) or (not problems and diff2 is None):
        small, impl2, model2, diff2, problems2, ans2 = scn, impl, model, diff, problems, ans   # flaky shrink: keep the original
    replay = {"scenario": small, "impl": impl2, "model": model2, "diff_at": diff2, "oracle_problems": problems2,
              "timings": [r["dt"] for r in ans2["results"]], "hang_at": ans2["hang_at"],
              "alive_at_hang": ans2.get("alive_at_hang"), "repo": str(REPO),
              "correspondence": "harness/c13.py vs Model/VecProto.lean (fixed=true)", "theorems": chk.gate["theorems"]}
    if problems2:
        chk.violation(problems2[0], replay)
    else:
        chk.violation(f"implementation and VecProto model disagree at op {diff2} "
                      f"({small['ops'][diff2] if diff2 is not None and diff2 < len(small['ops']) else '?'}): "
                      f"impl={impl2[diff2] if diff2 is not None and diff2 < len(impl2) else None!r} "
                      f"model={model2[diff2] if diff2 is not None and diff2 < len(model2) else None!r}; "
                      "the property oracle holds on this scenario and its shrinks", replay, no_input=True)


def tags_of(scn: dict, impl: list[str]) -> list[str]:
    t = [f"n{scn['n']}", f"faults{len(scn['script'])}"]
    t += [f"fault-{f[3]}-{f[1]}" for f in scn["script"]]
    for op, ln in zip(scn["ops"], impl):
        out = ln.split(" ")[0]
        t.append("out-" + (out if out in ("ok", "hang", "unreached") else out[4:] if out[4:] in PROTOCOL_ERRORS else "worker-exception"))
        if op[0] == "close":
            t.append("close-" + ("terminate" if op[2] else "timeout" if op[1] else "plain"))
    return t


def run(chk: Check) -> None:
    rng = chk.rng
    chk.rule = ("op sequences over the 8 public calls (legal walks with 20–45% injected misuse, directed prefixes that "
                "make a scripted fault fire, close plain/timeout/terminate in default and pending states, calls after "
                "close) × fault scripts (worker, command ∈ reset/step/call/set_attr, occurrence 0..2, raise T | sleep | "
                "kill; 0–3 faults, several workers) on 1–4 sub-environments, each in its own process group; distinct = "
                "distinct (n, script, ops); non-trivial = some call returned an error (misuse or fault reached the caller)")
    chk.assumptions = [
        "PARTIAL: liveness, timing and OS-level process death are assumptions of the protocol model (A1–A7 in "
        "Model/VecProto.lean), validated only by fault injection, not derived: a live worker answers before the next "
        "call (80 ms settle pause; a failing scenario must fail twice to be reported), send to an ended process raises BrokenPipeError, recv from it raises EOFError "
        "(ConnectionResetError is canonicalised to these), a scripted sleep (4 s) outlasts every timed wait (0.25 s) "
        "and is finite for an untimed one, terminate()/SIGKILL end a process",
        "a real hang can only be observed as 'no answer within 14 s'; the model exhibits the protocol path to it",
        "correspondence scenarios put scripted sleeps on one worker only, ≤ 2 sleeps, ≤ 4 timed calls, one exception "
        "type per script (error-queue order of simultaneous failures is scheduler-dependent); the theorems have no such bound",
        "close(timeout=None) waits for a sleeping worker by documented semantics; 'promptly' is checked as "
        "(scripted sleep still owed) + 3 s",
    ]
    chk.trusted_extra.append("harness/envs_fault.py (scripted fault-injecting ParallelEnv) and the zygote/child runner of harness/c13.py")
    corpus = []
    for f in sorted((ROOT / "corpus" / "C13").glob("*.json")):
        c = json.loads(f.read_text())
        corpus.append(c.get("scenario", c))
    scns = corpus + (gen_quick(rng) if chk.tier == "quick" else gen_thorough(rng))
    k = min(16, os.cpu_count() or 4, max(2, len(scns)))
    pool = Pool(k)
    leaked = 0
    try:
        results = evaluate(chk, pool, scns)
        ndiff, reported = 0, 0
        for scn, res in zip(scns, results):
            impl, model, diff, problems, ans = res
            nontrivial = any(not ln.startswith("ok") for ln in impl)
            chk.case([scn["n"], scn["script"], scn["ops"]], nontrivial=nontrivial,
                     sample={"n": scn["n"], "script": scn["script"], "ops": scn["ops"], "impl": impl},
                     tags=tags_of(scn, impl))
            if diff is None and not problems:
                continue
            # timing assumptions (A1, A4) are validated, not guaranteed: a failure must reproduce
            res2 = evaluate(chk, pool, [scn])[0]
            if res2[2] is None and not res2[3]:
                chk.notes.append(f"not reproducible on a second run (timing assumption A1/A4, machine load?): "
                                 f"{json.dumps(scn)} first run: diff_at={diff} oracle={problems[:1]}")
                continue
            ndiff += res2[2] is not None
            report(chk, pool, scn, res2, do_shrink=reported < 3)
            reported += 1
        chk.suite("vecproto-faults", len(scns), ndiff)
        if chk.tier == "thorough":
            selftest(chk, pool)
    finally:
        leaked = pool.close()
    if leaked:
        raise InfraError(f"C13: {leaked} process(es) carrying the run's marker were still alive at the end")
    chk.notes.append(f"agilerl imported from {REPO} in runner, scenario and worker processes; "
                     f"{k} runners; no process of this run left behind (marker scan of /proc)")


def selftest(chk: Check, pool: Pool) -> None:
    """seeded faults, applied inside the scenario child only: each must be flagged"""
    probes = [
        ("skip_state_check", "step_async no longer checks the pending state",
         {"n": 2, "script": [], "ops": [["reset_async"], ["reset_wait", 0], ["step_async"], ["step_async"], ["step_wait", 0], ["close", 0, 0]]}),
        ("close_leaks", "close() closes the pipes but neither stops nor joins the workers",
         {"n": 2, "script": [[0, "step", 0, "sleep", None]], "ops": [["step_async"], ["step_wait", 1], ["close", 0, 0]]}),
        ("swallow_worker_error", "_raise_if_errors drops the sub-environment's exception",
         {"n": 2, "script": [[1, "step", 0, "raise", "ValueError"]], "ops": [["step_async"], ["step_wait", 0], ["close", 0, 0]]}),
        ("timeout_keeps_state", "timed waits ignore the timeout",
         {"n": 2, "script": [[1, "call", 0, "sleep", None]], "ops": [["call_async"], ["call_wait", 1], ["close", 0, 0]]}),
    ]
    res = evaluate(chk, pool, [dict(s, patch=p) for p, _, s in probes])
    for (p, what, _), (impl, model, diff, problems, _) in zip(probes, res):
        if diff is None and not problems:
            raise InfraError(f"C13 self-test: seeded fault `{p}` ({what}) was not noticed")
        chk.notes.append(f"self-test: {what} — detected ({'oracle' if problems else 'model diff'})")


def replay(chk: Check, path: str) -> int:
    c = json.loads(open(path).read())
    c = c.get("replay", c)
    scn = c.get("scenario", c)
    pool = Pool(2)
    try:
        impl, model, diff, problems, ans = evaluate(chk, pool, [scn])[0]
    finally:
        pool.close()
    print(json.dumps({"repo": str(REPO), "scenario": scn, "impl": impl, "model": model, "diff_at": diff,
                      "oracle_problems": problems, "hang_at": ans["hang_at"],
                      "alive_at_hang": ans.get("alive_at_hang"),
                      "timings": [r["dt"] for r in ans["results"]]}, indent=1))
    if problems:
        print(f"VIOLATION property=C13 replay={path}")
        return 1
    if diff is not None:
        print(f"VIOLATION property=C13 replay={path} no-failing-input-found")
        return 1
    return 0


if __name__ == "__main__":
    if "--zygote" in sys.argv:
        zygote_main()
