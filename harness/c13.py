"""
C13 — the vector environment rejects misuse and survives worker faults without hanging.

Correspondence: bounded op sequences (reset_async/reset_wait/step_async/step_wait/call_async/
call_wait/set_attr, the synchronous wrappers reset/step/call/get_attr/render, close and garbage
collection of an unclosed env; waits with timeout None / 0.25 / 0 / 0.001, close plain / timeout /
timeout=0 / terminate; legal and misused) × fault scripts (worker, command, occurrence,
raise T | sleep | stuck | kill | busykill (= busy past the short timeouts, then dead without a reply);
command also `close` = inside the sub-environment's OWN close(), which the worker runs after it reported an
error or acknowledged `close`; T ranges over builtin, user-defined, BaseException-only and — when the
tree forwards them — every pickling pathology: constructor signature mismatch, instance that cannot be
pickled / rebuilt, class that cannot be pickled by reference) are run against the REAL
`AsyncPettingZooVecEnv`, every scenario in its own child process (own session / process group,
wall-clock guard per op, so a hang is an outcome `hang`, never a stuck harness), and against
`Model/VecProto.lean` (`fixed = true`).  Compared per op: outcome (ok | error class | hang), `_state`,
`closed`; after a `close` that returned: the `is_alive()` vector.

Directed families in every run (gen_directed a–c, gen_exc_pathologies d, gen_handshake_deaths e,
gen_subenv_close_faults f): rejected calls × pending kind with provenance; timeout values × close variants ×
stuck / sleeping / killed worker; forwarded exception classes × command; pickling pathologies × command;
worker death during the close handshake (pending replies / unread `close` after a timed-out wait, long close
timeout); sub-environment close() stuck / slow / killing / raising × trigger × bounded close variant.

Oracle (the statement itself, evaluated on the implementation's outputs only): misuse ⇒ documented
error class, state untouched, and without faults every legal call still succeeds; a scripted
`raise T` reaches the caller as T; a timed wait on a sleeping worker is `multiprocessing.TimeoutError`;
no call hangs; every `close()` returns within a bound, without raising, and leaves no worker alive;
a second close is a no-op; use after close is `ClosedEnvironmentError`; every value handed back
carries the provenance (env index, step / call counter) of the call it belongs to, so a rejected
call that disturbed a pending one shows up as a stale or missing result.

Process layout: harness → K "zygote" runners (`python c13.py --zygote`, import agilerl once from
VERIF_REPO, are child subreapers) → one forked child per scenario (setsid) → the env's worker
processes.  After each scenario the zygote SIGKILLs the scenario's process group and reaps every
descendant (`waitpid(-1)` until ECHILD); the harness finally scans /proc/*/environ for its marker.
"""
from __future__ import annotations

import json
import os
import select
import signal
import subprocess
import sys
import threading
import time
import uuid
from pathlib import Path

if __name__ == "__main__":
    sys.path.insert(0, str(Path(__file__).resolve().parent))

from common import REPO, ROOT, Check, InfraError  # noqa: E402

SLEEP_S = 4.0        # scripted sleep: outlasts every timed wait, finite for an untimed one (A4)
TIMEOUT_S = 0.25     # the timeout handed to timed waits / close(timeout=…)
SETTLE_S = 0.08      # pause after every call so that worker replies / exits have happened (A1)
OP_BOUND_S = 2 * SLEEP_S + 6.0   # no reply from the scenario for this long ⇒ outcome `hang`
CLOSE_SLACK_S = 3.0  # close() must return within (sleep still owed by scripted sleeps) + this
MAX_TIMED = 4        # timed calls per scenario (keeps Σ timeouts well below SLEEP_S)

SETTLE_ERR_S = 0.25  # pause after a call that raised (a failed worker is shutting down)
PRE_SETTLE_S = 0.3   # extra pause before a call with a zero / tiny time budget (replies must be there)
BUSY_S = 2.0         # `busykill`: busy for this long (outlasts every short timeout), then the worker dies
LONG_S = 5.0         # a timeout that outlasts BUSY_S (only used where nothing is stuck for good)
TMO = {0: None, 1: TIMEOUT_S, 2: 0, 3: 0.001, 4: LONG_S}     # wire code of a timeout argument → seconds

CMDS = ["reset", "step", "call", "set_attr"]
EXC_NAMES = ["ValueError", "RuntimeError", "ZeroDivisionError", "CustomFault", "IndexError",
             "KeyboardInterrupt", "FileNotFoundError", "TwoArgsFault", "KwOnlyFault", "UnpicklableFault",
             "LocalClassFault", "DynamicTypeFault", "ShadowedClassFault",
             "UnpicklableStateFault", "ReduceRaisesFault", "LoadFailsFault"]
PLAIN_EXC = EXC_NAMES[:7]                 # forwarded by every tree we accept
ODD_EXC = ["TwoArgsFault", "KwOnlyFault"]  # need the constructor-independent re-raise
# pickling pathologies (envs_fault.py): the CLASS cannot be pickled by reference (defined in a closure, made
# with type(), shadowed by another object of the same qualified name) / the INSTANCE cannot be pickled
# (unpicklable argument, unpicklable attribute, __reduce__ raises) or cannot be rebuilt (wrong reduce recipe)
CLASS_UNPICKLABLE = ["LocalClassFault", "DynamicTypeFault", "ShadowedClassFault"]
INSTANCE_UNPICKLABLE = ["UnpicklableFault", "UnpicklableStateFault", "ReduceRaisesFault", "LoadFailsFault"]
# an object of a class that does not exist in the parent cannot arrive as that class: the documented
# fallback is RuntimeError("<ClassName>: <message>") — what matters is that it ARRIVES (no hang)
ARRIVES_AS = {c: "RuntimeError" for c in CLASS_UNPICKLABLE}
NO_MODEL_KINDS = {"busykill"}             # fault kinds without a counterpart in Model/VecProto.lean: oracle only
SYNC_OF = {"reset": "reset", "step": "step", "call": "call", "get_attr": "call", "render": "call"}
PROTOCOL_ERRORS = {"AlreadyPendingCallError", "NoAsyncCallError", "ClosedEnvironmentError",
                   "mp.TimeoutError", "EOFError", "BrokenPipeError", "AttributeError", "KeyError", "TypeError"}
ASYNC_OF = {"reset_async": ("reset", "reset"), "step_async": ("step", "step"), "call_async": ("call", "call")}
WAIT_OF = {"reset_wait": "reset", "step_wait": "step", "call_wait": "call"}


# ============================================================================ scenario child
def arrives_as(names) -> set:
    return set(names) | {ARRIVES_AS[x] for x in names if x in ARRIVES_AS}


def canon_exc(e: BaseException, opname: str) -> str:
    t = type(e)
    name = t.__name__
    if name == "TimeoutError" and t.__module__.startswith("multiprocessing"):
        return "mp.TimeoutError"
    if name in ("ConnectionResetError", "ConnectionAbortedError"):
        # peer died with unread commands queued: the OS reports ECONNRESET instead of EOF / EPIPE
        return "BrokenPipeError" if opname.endswith("_async") else "EOFError"
    return name


def apply_patch(patch: str | None) -> None:
    """seeded faults for the self-test (only ever applied inside a scenario child)"""
    if not patch:
        return
    from agilerl.vector import pz_async_vec_env as m
    cls = m.AsyncPettingZooVecEnv
    if patch == "skip_state_check":
        def step_async(self, actions):
            self._assert_is_running()
            for pipe, action in zip(self.parent_pipes, actions):
                pipe.send(("step", action))
            self._state = m.AsyncState.WAITING_STEP
        cls.step_async = step_async
    elif patch == "close_leaks":
        def close_extras(self, timeout=None, terminate=False):
            for pipe in self.parent_pipes:
                if pipe is not None:
                    pipe.close()
        cls.close_extras = close_extras
    elif patch == "swallow_worker_error":
        def _raise_if_errors(self, successes):
            if all(successes):
                return
            for _ in range(self.num_envs - sum(successes)):
                index, *_rest = self.error_queue.get()
                self.parent_pipes[index].close()
                self.parent_pipes[index] = None
            self._state = m.AsyncState.DEFAULT
        cls._raise_if_errors = _raise_if_errors
    elif patch == "timeout_keeps_state":
        orig = cls._poll_pipe_envs

        def _poll(self, timeout=None):
            return True if timeout is not None and timeout > 0 else orig(self, timeout)
        cls._poll_pipe_envs = _poll
    elif patch == "sync_call_wipes_state":
        orig_call = cls.call

        def call(self, name, *a, **kw):
            try:
                return orig_call(self, name, *a, **kw)
            finally:
                self._state = m.AsyncState.DEFAULT
        cls.call = call
    elif patch == "stale_results":
        orig_sw = cls.step_wait

        def step_wait(self, timeout=None):
            ret = orig_sw(self, timeout)
            prev = getattr(self, "_prev_ret", ret)
            self._prev_ret = ret
            return prev
        cls.step_wait = step_wait
    elif patch == "zero_timeout_blocks":
        orig_poll = cls._poll_pipe_envs

        def _poll0(self, timeout=None):
            return orig_poll(self, timeout if timeout else None)
        cls._poll_pipe_envs = _poll0
    elif patch == "drop_keyboardinterrupt":
        src = __import__("inspect").getsource(m._async_worker).replace("except (KeyboardInterrupt, Exception):", "except Exception:")
        ns = dict(m.__dict__)
        exec(src, ns)          # noqa: S102 — self-test only, inside the scenario child
        m._async_worker = ns["_async_worker"]
    elif patch == "class_pickle_shortcut":
        orig_sp = m._survives_pickling
        m._survives_pickling = lambda obj: True if isinstance(obj, type) else orig_sp(obj)
    elif patch in ("close_handshake_narrow_except", "no_terminate_after_budget"):
        import inspect
        import textwrap
        src = textwrap.dedent(inspect.getsource(cls.close_extras))
        if patch == "close_handshake_narrow_except":
            new = src.replace("except (EOFError, OSError):", "except (EOFError, BrokenPipeError):")
        else:
            head, sep, tail = src.rpartition("process.terminate()")
            new = head + "pass" + tail if sep else src
        if new == src:
            raise InfraError(f"C13 self-test: cannot seed `{patch}` (close_extras no longer has the statement)")
        ns = dict(m.__dict__)
        exec(new, ns)          # noqa: S102 — self-test only, inside the scenario child
        cls.close_extras = ns["close_extras"]
    else:
        raise ValueError(patch)


def scenario_child(scn: dict, wfd: int) -> None:
    os.setsid()
    if not os.environ.get("C13_DEBUG"):
        dn = os.open(os.devnull, os.O_WRONLY)
        os.dup2(dn, 2)
    out = os.fdopen(wfd, "w", buffering=1)
    import warnings
    warnings.filterwarnings("ignore")
    import gymnasium
    gymnasium.logger.min_level = 100
    from envs_fault import make_fns
    from agilerl.vector.pz_async_vec_env import AsyncPettingZooVecEnv
    apply_patch(scn.get("patch"))
    n = scn["n"]
    script = [(w, c, k, kind, (SLEEP_S if kind == "sleep" else BUSY_S if kind == "busykill" else arg))
              for (w, c, k, kind, arg) in scn["script"]]
    env = AsyncPettingZooVecEnv(make_fns(n, script))
    procs = list(env.processes)
    out.write(json.dumps({"pids": [p.pid for p in procs]}) + "\n")
    for i, op in enumerate(scn["ops"]):
        name, args = op[0], op[1:]
        zero_budget = (name in WAIT_OF and args[0] in (2, 3)) or (name == "close" and (args[0] == 2 or args[1])) \
            or name == "gc"
        if zero_budget:
            time.sleep(PRE_SETTLE_S)
        val = raw = None
        t0 = time.monotonic()
        try:
            if name == "gc":
                import gc
                env = None          # the only reference: __del__ → close(terminate=True)
                gc.collect()
            else:
                val = run_op(env, n, name, args, i)
            r = "ok"
        except InfraError:
            raise
        except BaseException as e:  # noqa: BLE001 — the outcome IS the exception class
            r = canon_exc(e, name)
            raw = f"{type(e).__name__}: {e}"[:160]
        dt = time.monotonic() - t0
        time.sleep(SETTLE_S if r == "ok" else SETTLE_ERR_S)   # a worker that failed needs time to exit
        if env is None:
            rec = {"i": i, "out": r, "state": "gone", "closed": 1, "dt": round(dt, 3),
                   "alive": [int(p.is_alive()) for p in procs]}
        else:
            rec = {"i": i, "out": r, "state": env._state.value, "closed": int(bool(env.closed)), "dt": round(dt, 3)}
            if name == "close":
                rec["alive"] = [int(p.is_alive()) for p in procs]
        if val is not None:
            rec["val"] = val
        if raw is not None:
            rec["raw"] = raw
        out.write(json.dumps(rec) + "\n")
        if env is None:
            break
    out.write(json.dumps({"end": 1, "alive": [int(p.is_alive()) for p in procs]}) + "\n")
    out.flush()
    os._exit(0)


def run_op(env, n: int, name: str, args: list, i: int):
    """one public call; returns the provenance code of what it handed back (None if nothing)"""
    import numpy as np
    if name == "reset_async":
        env.reset_async()
    elif name == "reset_wait":
        return provenance("r", env.reset_wait(TMO[args[0]]), n)
    elif name == "step_async":
        env.step_async([[0, 0]] * n)
    elif name == "step_wait":
        return provenance("s", env.step_wait(TMO[args[0]]), n)
    elif name == "call_async":
        env.call_async("probe")
    elif name == "call_wait":
        return provenance("c", env.call_wait(TMO[args[0]]), n)
    elif name == "set_attr":
        env.set_attr("knob", i)
    elif name == "reset":
        return provenance("r", env.reset(), n)
    elif name == "step":
        return provenance("s", env.step({a: np.zeros(n, dtype=np.int64) for a in env.agents}), n)
    elif name == "call":
        return provenance("c", env.call("probe"), n)
    elif name == "get_attr":
        return provenance("c", env.get_attr("gauge"), n)
    elif name == "render":
        return provenance("c", env.render(), n)
    elif name == "close":
        kw = {}
        if args[0]:
            kw["timeout"] = TMO[args[0]]
        if args[1]:
            kw["terminate"] = True
        env.close(**kw)
    else:
        raise InfraError(f"unknown op {name}")
    return None


def provenance(kind: str, ret, n: int) -> str:
    """`s3` = every sub-environment reports step 3 in every observation and reward;
    `r2` = first observations taken after 2 steps; `c4` = every remote result is call 4.
    Anything inconsistent (mixed counters, wrong env index, wrong shape) is spelled out."""
    try:
        ks, bad = set(), False
        if kind in ("r", "s"):
            obs = ret[0]
            for a, arr in obs.items():
                for j in range(n):
                    bad |= int(arr[j][0]) != j
                    ks.add(int(arr[j][1]))
            if kind == "s":
                for a, rew in ret[1].items():
                    for j in range(n):
                        ks.add(int(rew[j]))
                        bad |= float(rew[j]) != int(rew[j])
        else:
            if len(ret) != n:
                bad = True
            for j, item in enumerate(ret):
                bad |= int(item[0]) != j
                ks.add(int(item[1]))
        if not bad and len(ks) == 1:
            return f"{kind}{ks.pop()}"
        return f"{kind}?{'x' if bad else ''}{sorted(ks)}"
    except Exception as e:  # noqa: BLE001
        return f"{kind}?{type(e).__name__}"


# ============================================================================ zygote
def default_bound(scn: dict) -> float:
    """silence for this long ⇒ `hang`: nothing legitimate takes longer than the scripted sleeps + slack"""
    ns = sum(1 for f in scn["script"] if f[3] == "sleep")
    return min(OP_BOUND_S, ns * SLEEP_S + 6.0)      # (a `busykill` is over after BUSY_S < 6 s)


def pid_alive(pid: int) -> int:
    try:
        with open(f"/proc/{pid}/stat") as f:
            return int(f.read().rsplit(")", 1)[1].split()[0] != "Z")
    except OSError:
        return 0


def reap_all(deadline_s: float) -> int:
    """wait for every descendant (we are a subreaper); returns how many are left at the deadline"""
    end = time.monotonic() + deadline_s
    while True:
        try:
            pid, _ = os.waitpid(-1, os.WNOHANG)
        except ChildProcessError:
            return 0
        if pid == 0:
            if time.monotonic() > end:
                left = 0
                for d in os.listdir("/proc"):
                    if d.isdigit():
                        try:
                            with open(f"/proc/{d}/stat") as f:
                                fields = f.read().rsplit(")", 1)[1].split()
                            if int(fields[1]) == os.getpid():
                                left += 1
                                os.kill(int(d), signal.SIGKILL)
                        except OSError:
                            pass
                return left
            time.sleep(0.01)


def zygote_main() -> None:
    import ctypes
    try:
        ctypes.CDLL(None, use_errno=True).prctl(36, 1, 0, 0, 0)      # PR_SET_CHILD_SUBREAPER
    except Exception:  # noqa: BLE001
        pass
    import agilerl.vector.pz_async_vec_env as m  # noqa: F401  (import once; children are forked)
    import envs_fault  # noqa: F401
    sys.stdout.write(json.dumps({"hello": 1, "agilerl": os.path.dirname(os.path.dirname(os.path.dirname(m.__file__)))}) + "\n")
    sys.stdout.flush()
    for line in sys.stdin:
        line = line.strip()
        if not line:
            continue
        scn = json.loads(line)
        rfd, wfd = os.pipe()
        pid = os.fork()
        if pid == 0:
            os.close(rfd)
            try:
                scenario_child(scn, wfd)
            except BaseException as e:  # noqa: BLE001
                try:
                    os.write(wfd, (json.dumps({"crash": f"{type(e).__name__}: {e}"}) + "\n").encode())
                finally:
                    os._exit(3)
        os.close(wfd)
        results, pids, ended, crash, buf = [], [], False, None, b""
        bound = float(scn.get("op_bound", default_bound(scn)))
        deadline = time.monotonic() + bound + 10
        eof = False
        while not ended and not eof and crash is None:
            left = deadline - time.monotonic()
            if left <= 0:
                break
            r, _, _ = select.select([rfd], [], [], left)
            if not r:
                break
            chunk = os.read(rfd, 65536)
            if not chunk:
                eof = True
                break
            buf += chunk
            while b"\n" in buf:
                ln, buf = buf.split(b"\n", 1)
                rec = json.loads(ln)
                deadline = time.monotonic() + bound
                if "pids" in rec:
                    pids = rec["pids"]
                elif "end" in rec:
                    ended = True
                    final_alive = rec["alive"]
                elif "crash" in rec:
                    crash = rec["crash"]
                else:
                    results.append(rec)
        os.close(rfd)
        ans = {"results": results, "hang_at": None, "crash": crash}
        if ended:
            ans["final_alive"] = final_alive
        elif crash is None and eof:
            ans["crash"] = "scenario process ended without a result"
        elif crash is None:
            ans["hang_at"] = len(results)
            ans["alive_at_hang"] = [pid_alive(p) for p in pids]
        try:
            os.killpg(pid, signal.SIGKILL)
        except ProcessLookupError:
            pass
        ans["leaked"] = reap_all(8.0)
        sys.stdout.write(json.dumps(ans) + "\n")
        sys.stdout.flush()


# ============================================================================ pool (harness side)
class Pool:
    def __init__(self, k: int):
        self.mark = "c13-" + uuid.uuid4().hex
        env = dict(os.environ, C13_MARK=self.mark, VERIF_REPO=str(REPO), PYTHONDONTWRITEBYTECODE="1")
        env["PYTHONPATH"] = str(REPO) + os.pathsep + env.get("PYTHONPATH", "")
        self.procs = []
        for _ in range(k):
            self.procs.append(subprocess.Popen(
                [sys.executable, str(Path(__file__).resolve()), "--zygote"], stdin=subprocess.PIPE,
                stdout=subprocess.PIPE, stderr=subprocess.DEVNULL if not os.environ.get("C13_DEBUG") else None,
                text=True, env=env, cwd="/", start_new_session=True))
        for p in self.procs:
            hello = self._readline(p, 180)
            where = json.loads(hello).get("agilerl", "")
            if os.path.realpath(where) != os.path.realpath(str(REPO)):
                self.close()
                raise InfraError(f"scenario runner imported agilerl from {where}, expected {REPO}")

    @staticmethod
    def _readline(p, timeout):
        r, _, _ = select.select([p.stdout], [], [], timeout)
        if not r:
            raise InfraError("C13 scenario runner did not answer in time")
        ln = p.stdout.readline()
        if not ln:
            raise InfraError("C13 scenario runner died")
        return ln

    def run_many(self, scns: list[dict]) -> list[dict]:
        out: list = [None] * len(scns)
        nxt = iter(range(len(scns)))
        lock = threading.Lock()
        errors: list = []

        def work(p):
            while True:
                with lock:
                    i = next(nxt, None)
                if i is None or errors:
                    return
                try:
                    p.stdin.write(json.dumps(scns[i]) + "\n")
                    p.stdin.flush()
                    out[i] = json.loads(self._readline(p, (len(scns[i]["ops"]) + 3) * (OP_BOUND_S + 1) + 30))
                except Exception as e:  # noqa: BLE001
                    errors.append(e)
                    return
        ts = [threading.Thread(target=work, args=(p,), daemon=True) for p in self.procs]
        for t in ts:
            t.start()
        for t in ts:
            t.join()
        if errors:
            raise InfraError(f"C13 runner failure: {errors[0]!r}")
        for i, a in enumerate(out):
            if a is None or a.get("crash"):
                raise InfraError(f"C13 scenario {scns[i]} crashed: {a and a.get('crash')}")
            if a.get("leaked"):
                raise InfraError(f"C13 scenario {scns[i]} left {a['leaked']} process(es) that survived SIGKILL of its group")
        return out

    def close(self) -> int:
        for p in self.procs:
            try:
                p.stdin.close()
            except Exception:  # noqa: BLE001
                pass
        for p in self.procs:
            try:
                p.wait(timeout=20)
            except subprocess.TimeoutExpired:
                p.kill()
        # psutil-free leak scan: nothing carrying our marker may be left
        left = 0
        for d in os.listdir("/proc"):
            if not d.isdigit():
                continue
            try:
                with open(f"/proc/{d}/environ", "rb") as f:
                    if ("C13_MARK=" + self.mark).encode() in f.read():
                        with open(f"/proc/{d}/stat") as g:
                            if g.read().rsplit(")", 1)[1].split()[0] != "Z":
                                left += 1
                                os.kill(int(d), signal.SIGKILL)
            except OSError:
                pass
        return left


# ============================================================================ model side
MODEL_OP = {"get_attr": "call", "render": "call"}


def model_lines(scn: dict, variant: int) -> list[str]:
    parts = ["vecproto", "new", str(scn.get("variant", variant)), str(scn["n"])]
    for (w, c, k, kind, arg) in scn["script"]:
        if c == "close" or kind in NO_MODEL_KINDS:
            # what a sub-environment does inside its own close() happens after the worker left the protocol: the
            # model's worker is `exited` from there on (exact when that close() kills the process or raises; a
            # lingering process and `busykill` have no counterpart: `has_model`, oracle only)
            continue
        parts += [str(w), c, str(k), kind, str(EXC_NAMES.index(ARRIVES_AS.get(arg, arg))) if kind == "raise" else "0"]
    lines = [" ".join(parts)]
    for op in scn["ops"]:
        if op[0] == "gc":
            lines.append("vecproto op close 0 1")       # __del__ → close(terminate=True)
        else:
            lines.append("vecproto op " + " ".join([MODEL_OP.get(op[0], op[0])] + [str(int(bool(a))) for a in op[1:]]))
    return lines


def has_model(scn: dict) -> bool:
    """`busykill` has no model counterpart; a sub-environment that LINGERS in its own close() (stuck / slow) keeps
    its end of the pipe open, so a later `send` to it succeeds where the model's exited worker gives
    BrokenPipeError (seen when its failure reply was never consumed): those scenarios are judged by the oracle
    only.  A close() that kills the process or raises ends it at once — same as the model's `exited`."""
    return not any(f[3] in NO_MODEL_KINDS or (f[1] == "close" and f[3] in ("stuck", "sleep")) for f in scn["script"])


def canon_model(line: str, opname: str) -> str:
    """`ok default closed=0 alive=11` → same canonical text as canon_impl"""
    if line in ("unreached", "bad-op", "reject"):
        return line
    out, state, closed, alive = line.split(" ")
    if out.startswith("err:worker:"):
        out = "err:" + EXC_NAMES[int(out.split(":")[2])]
    if out == "hang":
        return "hang"
    if opname == "gc":
        return f"{out} gone {alive}"
    s = f"{out} {state} {closed}"
    if opname == "close" and out == "ok":
        s += " " + alive
    return s


def canon_impl(ans: dict, ops: list) -> list[str]:
    lines = []
    for rec, op in zip(ans["results"], ops):
        out = "ok" if rec["out"] == "ok" else "err:" + rec["out"]
        if op[0] == "gc":
            lines.append(f"{out} gone alive=" + "".join(map(str, rec["alive"])))
            continue
        s = f"{out} {rec['state']} closed={rec['closed']}"
        if op[0] == "close" and out == "ok":
            s += " alive=" + "".join(map(str, rec["alive"]))
        lines.append(s)
    if ans["hang_at"] is not None:
        lines.append("hang")
        lines += ["unreached"] * (len(ops) - len(lines))
    return lines


def model_trace(chk: Check, scns: list[dict], variant: int) -> list[list[str]]:
    """raw model answers (one list per scenario, header stripped)"""
    lines, spans = ["reset"], []
    for scn in scns:
        ml = model_lines(scn, variant)
        spans.append((len(lines), len(ml)))
        lines += ml
    mout = chk.driver.run(lines)
    chk.corr["model_lines"] += len(lines)
    out = []
    for scn, (a, ln) in zip(scns, spans):
        raw = mout[a:a + ln]
        if raw[0] != "ok":
            raise InfraError(f"C13 model rejected scenario header {scn}: {raw[0]}")
        out.append(raw[1:])
    return out


# ============================================================================ oracle
def op_kind(name: str) -> str:
    if name in ASYNC_OF:
        return "async"
    if name in WAIT_OF:
        return "wait"
    if name in SYNC_OF:
        return "sync"
    return name          # set_attr | close | gc


def op_cmd(name: str) -> str:
    return ASYNC_OF[name][0] if name in ASYNC_OF else WAIT_OF.get(name) or SYNC_OF.get(name) or name


def oracle(scn: dict, ans: dict, variant: int = 2) -> list[str]:
    """the statement of C13 on the implementation's own outputs (no reference to the Lean model)"""
    problems = []
    ops, script = scn["ops"], scn["script"]
    res = ans["results"]
    state, closed = "default", 0
    fault_seen = False           # anything but a protocol-misuse error has happened
    batches = {c: 0 for c in CMDS}          # commands of each kind delivered to (all) workers so far
    pending_batch = None
    sleep_owed = SLEEP_S * sum(1 for f in script if f[3] == "sleep") + BUSY_S * sum(1 for f in script if f[3] == "busykill")
    has_stuck = any(f[3] == "stuck" and f[1] != "close" for f in script)          # stuck inside a command
    has_stuck_close = any(f[3] == "stuck" and f[1] == "close" for f in script)    # stuck in the sub-env's own close()
    allowed_exc = arrives_as({f[4] for f in script if f[3] == "raise"})
    for i, op in enumerate(ops):
        name, kind = op[0], op_kind(op[0])
        if i >= len(res):
            if ans["hang_at"] == i:
                # documented: without a timeout a wait / close waits for as long as it takes
                unbounded = has_stuck and ((kind == "wait" and not op[1]) or kind in ("sync", "set_attr")
                                           or (kind == "close" and not op[1] and not op[2])
                                           or (kind == "close" and op[1] and not op[2] and variant < 2 and state == "default"))
                # a sub-environment that never returns from its own close(): only a close without any bound
                # (or, before the close(timeout) fix, an idle timed close) may wait for it
                unbounded = unbounded or (has_stuck_close and kind == "close" and not op[2]
                                          and (not op[1] or (variant < 2 and state == "default")))
                if not unbounded:
                    extra = f"; workers alive meanwhile: {ans.get('alive_at_hang')}" if kind in ("close", "gc") else ""
                    shown = name if kind != "close" else "close(" + ", ".join(
                        ([f"timeout={TMO[op[1]]}"] if op[1] else []) + (["terminate=True"] if op[2] else [])) + ")"
                    problems.append(f"op {i} `{shown}` did not return within {scn.get('op_bound', default_bound(scn)):.0f}s (hang)"
                                    f"{extra}; scripted faults (worker, command, occurrence, kind, arg): {script}")
            break
        r = res[i]
        out = r["out"]
        # ---- misuse table
        expect = None
        if closed and kind not in ("close", "gc"):
            expect = "ClosedEnvironmentError"
        elif kind in ("async", "sync", "set_attr"):
            if state != "default":
                expect = "AlreadyPendingCallError"
        elif kind == "wait":
            if state != WAIT_OF[name]:
                expect = "NoAsyncCallError"
        if expect is not None:
            if out != expect:
                problems.append(f"op {i} `{name}` in state {state}/closed={closed}: expected {expect}, got {out}")
            if r["state"] != state or r["closed"] != closed:
                problems.append(f"op {i} rejected `{name}` changed the state {state}->{r['state']}")
        elif kind in ("close", "gc"):
            timed = kind == "close" and bool(op[1])
            terminate = kind == "gc" or bool(op[2])
            if terminate:
                bound = CLOSE_SLACK_S
            elif timed and (variant >= 2 or state != "default"):
                bound = 2 * (TMO[op[1]] or 0) + CLOSE_SLACK_S + (sleep_owed if variant < 2 else 0)
                if not (has_stuck or has_stuck_close):      # nothing lasts longer than the scripted sleeps
                    bound = min(bound, sleep_owed + CLOSE_SLACK_S)
            else:
                bound = sleep_owed + CLOSE_SLACK_S
            what = "close()" if kind == "close" else "garbage collection of the unclosed env"
            if out != "ok":
                problems.append(f"op {i} {what} raised {r.get('raw') or out}; closed={r['closed']}, "
                                f"workers alive after it: {r.get('alive')}")
            else:
                if any(r.get("alive", [])):
                    problems.append(f"op {i} {what} returned but workers are alive: {r['alive']}")
                if not r["closed"]:
                    problems.append(f"op {i} {what} returned but `closed` is False")
            if r["dt"] > bound:
                problems.append(f"op {i} {what} took {r['dt']}s > {bound}s")
        else:
            # ---- a legal call
            cmd = op_cmd(name)
            timed = bool(op[1]) if kind == "wait" else False
            b = pending_batch if kind == "wait" else batches[cmd]
            due = [f for f in script if f[1] == cmd and f[2] == b] if b is not None else []
            consumes = kind in ("wait", "sync", "set_attr")
            if not fault_seen:
                if not consumes:
                    if out != "ok":
                        problems.append(f"op {i} legal `{name}` before any fault raised {out}")
                    elif r["state"] != ASYNC_OF[name][1]:
                        problems.append(f"op {i} `{name}` left state {r['state']}")
                else:
                    raises = sorted({f[4] for f in due if f[3] == "raise"})
                    sleeps = [f for f in due if f[3] in ("sleep", "stuck")]
                    kills = [f for f in due if f[3] == "kill"]
                    busy = [f for f in due if f[3] == "busykill"]
                    if busy and timed and TMO[op[1]] < BUSY_S:
                        sleeps = sleeps + busy          # still busy when a short timeout expires
                    elif busy:
                        kills = kills + busy            # dies without a reply while the caller waits
                    if kills:
                        if out == "ok" or out in EXC_NAMES:
                            problems.append(f"op {i} `{name}`: a worker was killed but the caller saw {out}")
                    elif sleeps and timed:
                        if out != "mp.TimeoutError":
                            problems.append(f"op {i} `{name}`(timeout={TMO[op[1]]}) on a sleeping worker: expected "
                                            f"mp.TimeoutError, got {out}")
                        elif r["dt"] > TMO[op[1]] + CLOSE_SLACK_S:
                            problems.append(f"op {i} `{name}`(timeout={TMO[op[1]]}) reported its timeout after {r['dt']}s")
                    elif raises:
                        if out not in arrives_as(raises):
                            note = "".join(f" (its class cannot be pickled: arrives as {ARRIVES_AS[x]} by the documented "
                                           f"fallback)" for x in raises if x in ARRIVES_AS)
                            problems.append(f"op {i} `{name}`: sub-environment raised {raises}{note}, caller saw "
                                            f"{r.get('raw') or out}")
                    elif out != "ok":
                        problems.append(f"op {i} legal `{name}`{'(timeout=%s)' % TMO[op[1]] if timed else ''} "
                                        f"without a due fault raised {out}")
                    if out == "ok" and not due and cmd != "set_attr":
                        want = {"step": f"s{b + 1}", "reset": f"r{batches['step']}", "call": f"c{b + 1}"}[cmd]
                        if r.get("val") != want:
                            problems.append(f"op {i} `{name}` handed back {r.get('val')} — the results of this call "
                                            f"carry {want} (stale, lost or mixed-up replies)")
                    if due:
                        fault_seen = True
                    if [f for f in due if f[3] == "sleep"] and not timed:
                        sleep_owed = max(0.0, sleep_owed - SLEEP_S)
            else:
                # after a fault: nothing may be invented — a worker exception type must be scripted
                if out in EXC_NAMES and out not in allowed_exc:
                    problems.append(f"op {i} `{name}` raised {out}, which no sub-environment raises")
            if consumes and r["state"] != "default":
                problems.append(f"op {i} `{name}` returned ({out}) but left the pending state `{r['state']}` behind")
            if out == "ok" and kind == "async":
                pending_batch = batches[cmd]
                batches[cmd] += 1
            elif kind in ("sync", "set_attr"):
                batches[cmd] += 1
            if out != "ok" and kind in ("async", "sync") and not due:
                fault_seen = True
        state, closed = r["state"], r["closed"]
    if closed and any(ans.get("final_alive", [])):
        problems.append(f"environment is closed but worker processes are alive at the end: {ans['final_alive']}")
    return problems


# ============================================================================ generators
SYNC_NAMES = ["reset", "step", "call", "get_attr", "render"]


def tmo_code(rng) -> int:
    """None mostly; otherwise 0.25 s, 0 or 0.001 s"""
    return rng.choice([0, 0, 0, 0, 1, 1, 2, 3])


def legal_next(state: str, rng, bias_cmd: str | None):
    if state == "default":
        names = ["reset_async", "step_async", "call_async", "set_attr"] + SYNC_NAMES
        if bias_cmd and rng.random() < 0.6:
            if bias_cmd == "set_attr":
                return ["set_attr"]
            sync = [k for k, v in SYNC_OF.items() if v == bias_cmd]
            return [rng.choice(sync)] if rng.random() < 0.3 else [bias_cmd + "_async"]
        return [rng.choice(names)]
    return [state + "_wait", tmo_code(rng)]


def misuse_next(state: str, rng):
    if state == "default":
        return [rng.choice(["reset_wait", "step_wait", "call_wait"]), tmo_code(rng)]
    c = [["reset_async"], ["step_async"], ["call_async"], ["set_attr"]] + [[x] for x in SYNC_NAMES]
    c += [[w + "_wait", 0] for w in ("reset", "step", "call") if w != state]
    return rng.choice(c)


CLOSE_KINDS = [[0, 0], [0, 0], [1, 0], [2, 0], [0, 1], "gc"]


def close_ops(ck) -> list:
    return [["gc"]] if ck == "gc" else [["close"] + list(ck)]


def gen_ops(rng, length: int, p_misuse: float, bias_cmd: str | None, close_kind=None, after_close: int = 1):
    """a walk that tracks the *intended* state (as if no fault fired); faults may derail it, which is the point"""
    ops, state, timed = [], "default", 0
    for _ in range(length):
        op = misuse_next(state, rng) if rng.random() < p_misuse else legal_next(state, rng, bias_cmd)
        if len(op) > 1 and op[1]:
            if timed >= MAX_TIMED - 1:
                op[1] = 0
            else:
                timed += 1
        ops.append(op)
        name = op[0]
        if state == "default" and name in ASYNC_OF:
            state = ASYNC_OF[name][1]
        elif name in WAIT_OF and WAIT_OF[name] == state:
            state = "default"
    ck = close_kind if close_kind is not None else rng.choice(CLOSE_KINDS)
    ops += close_ops(ck)
    if ck != "gc":
        for _ in range(after_close):
            ops.append(rng.choice([["close", 0, 0], ["reset_async"], ["step_wait", 0], ["set_attr"], ["call_async"],
                                   ["close", 0, 1], ["step"], ["get_attr"], ["gc"]]))
            if ops[-1] == ["gc"]:
                break
    return ops


def drive_to(cmd: str, k: int, tmo_last: int, rng=None):
    """shortest legal sequence whose last call consumes the k-th batch of `cmd`
    (`tmo_last` = timeout code of that last wait; with `rng`, some pairs use the synchronous wrapper)"""
    ops = []
    if cmd != "reset" and cmd != "set_attr":
        ops += [["reset_async"], ["reset_wait", 0]]
    for j in range(k + 1):
        last = j == k
        if cmd == "set_attr":
            ops.append(["set_attr"])
        elif rng is not None and not (last and tmo_last) and rng.random() < 0.4:
            ops.append([rng.choice([x for x, v in SYNC_OF.items() if v == cmd])])
        else:
            ops += [[cmd + "_async"], [cmd + "_wait", tmo_last if last else 0]]
    return ops


def valid_scenario(scn: dict) -> bool:
    """correspondence-side restrictions (see chk.assumptions): sleeps on one worker only, ≤ 2 sleeps,
    bounded number of timed calls"""
    sl = [f for f in scn["script"] if f[3] in ("sleep", "stuck")]
    if len({f[0] for f in sl}) > 1 or len(sl) > 2:
        return False
    timed = sum(1 for op in scn["ops"] if (op[0] in WAIT_OF and op[1]) or (op[0] == "close" and op[1]))
    if timed > MAX_TIMED:
        return False
    raises = {f[4] for f in scn["script"] if f[3] == "raise"}
    return len(raises) <= 1 and all(f[0] < scn["n"] for f in scn["script"])


def gen_fault(rng, n: int, excs: list, kind=None, exc=None):
    kind = kind or rng.choice(["raise", "raise", "sleep", "kill", "stuck"])
    return [rng.randrange(n), rng.choice(CMDS), rng.choice([0, 0, 1, 2]), kind,
            (exc or rng.choice(excs)) if kind == "raise" else None]


def gen_close_fault(rng, n: int, exc: str):
    """a fault inside the sub-environment's own close()"""
    kind = rng.choice(["stuck", "stuck", "sleep", "kill", "raise"])
    return [rng.randrange(n), "close", 0, kind, exc if kind == "raise" else None]


def gen_directed(rng, excs: list) -> list[dict]:
    """families aimed at one clause each; every quick run contains all of them"""
    scns = []
    # (a) a REJECTED call leaves the environment exactly as if it had not been made: with a call of each kind
    #     pending, every other entry point (async, set_attr, the synchronous wrappers, the wrong waits) is
    #     rejected; the pending call must then deliver ITS results and later calls theirs (provenance)
    for pend in ("reset", "step", "call"):
        rejected = [["call"], ["get_attr"], ["render"], ["set_attr"], ["step"], ["reset"],
                    ["reset_async"], ["step_async"], ["call_async"]]
        rejected += [[w + "_wait", rng.choice([0, 1, 2])] for w in ("reset", "step", "call") if w != pend]
        rng.shuffle(rejected)
        pre = [] if pend == "reset" else [["reset"]]
        ops = pre + [[pend + "_async"]] + rejected + [[pend + "_wait", 0], ["step"], ["call"], ["step_async"],
                                                      rng.choice([["call"], ["get_attr"], ["render"], ["set_attr"], ["reset"], ["step"]]),
                                                      ["step_wait", 0], ["get_attr"],
                                                      ["reset"], ["step"]]
        scns.append({"n": rng.choice([2, 3]), "script": [], "ops": ops + close_ops(rng.choice(CLOSE_KINDS))})
    # (b) every timeout value is a timeout, and every close variant returns promptly with nobody left:
    #     a sub-environment stuck for good / asleep / killed in a call of each kind
    closes = [[0, 1], [2, 0], [1, 0], "gc", [0, 1], "gc", [2, 0], [2, 1], [1, 0]]
    j = rng.randrange(len(closes))
    for kind in ("stuck", "sleep", "kill"):
        for cmd in ("reset", "step", "call"):
            n = rng.choice([2, 3])
            f = [rng.randrange(n), cmd, 0, kind, None]
            pre = [] if cmd == "reset" else [["reset"]]
            j += 1
            ck = closes[j % len(closes)]
            if kind == "stuck":
                # pending → every bounded wait reports a timeout → close variant; or close straight away
                if j % 2:
                    ops = pre + [[cmd + "_async"], [cmd + "_wait", rng.choice([2, 3])], [cmd + "_async"],
                                 [cmd + "_wait", rng.choice([1, 2])]] + close_ops(ck)
                else:
                    ops = pre + [[cmd + "_async"]] + close_ops(ck)
            else:
                ops = pre + [[cmd + "_async"]] + ([[cmd + "_wait", rng.choice([2, 3, 1])]] if j % 2 else []) + close_ops(ck)
            if ck != "gc":
                ops += [["close", 0, 0], [rng.choice(SYNC_NAMES)]]
            scns.append({"n": n, "script": [f], "ops": ops})
    # (c) the same exception TYPE reaches the caller: every class the tree forwards, at every command
    pool = list(excs)
    rng.shuffle(pool)
    k = 0
    for cmd in CMDS:
        for exc in (["KeyboardInterrupt"] + [e for e in pool if e != "KeyboardInterrupt"][:1 + len(excs) // 4]):
            n = rng.choice([2, 3])
            occ = rng.choice([0, 1, 2]) if k % 2 else 0
            k += 1
            f = [rng.randrange(n), cmd, occ, "raise", exc]
            ops = drive_to(cmd, occ, rng.choice([0, 0, 1, 2]) if cmd != "set_attr" else 0, rng)
            ops += close_ops(rng.choice(CLOSE_KINDS))
            scns.append({"n": n, "script": [f], "ops": ops})
    return scns


def gen_exc_pathologies(rng, excs: list, full: bool = False) -> list[dict]:
    """(d) exception marshalling: every pickling pathology the tree claims to forward — constructor signature
    mismatch, instance that cannot be pickled / rebuilt, CLASS that cannot be pickled by reference (closure,
    type(), shadowed name) — raised from EVERY command; the error must arrive (own type, or the documented
    RuntimeError fallback when the class does not exist in the parent), nothing may hang, close must work"""
    scns = []
    for exc in [e for e in ODD_EXC + INSTANCE_UNPICKLABLE + CLASS_UNPICKLABLE if e in excs]:
        for cmd in CMDS:
            for occ in ((0, 1, 2) if full else (rng.choice([0, 0, 1]),)):
                n = rng.choice([2, 3])
                f = [rng.randrange(n), cmd, occ, "raise", exc]
                ops = drive_to(cmd, occ, rng.choice([0, 0, 1, 2]) if cmd != "set_attr" else 0, rng)
                scns.append({"n": n, "script": [f], "ops": ops + close_ops(rng.choice(CLOSE_KINDS))})
    return scns


def gen_handshake_deaths(rng, full: bool = False) -> list[dict]:
    """(e) a worker dies at every point of the shutdown: while close() waits for the replies of the pending call,
    while it waits for the `close` acknowledgement with `close` (and possibly another command) still unread in
    the dying worker's socket — after a wait that timed out because that worker was busy —, with and without a
    (long) close timeout; (already dead before close: the `kill` families; dead after the acknowledgement,
    inside the sub-environment's close(): family (f))"""
    scns = []
    for cmd in ("reset", "step", "call"):
        for pat in ("unread-close", "unread-close-long-timeout", "pending", "pending-unread-command"):
            for n, w in (((2, 0), (2, 1), (3, 1), (3, 2)) if full else ((lambda m: (m, rng.randrange(m)))(rng.choice([2, 3])),)):
                occ = rng.choice([0, 0, 1])
                short = rng.choice([1, 1, 2, 3])
                ops = drive_to(cmd, occ, short)          # … [cmd_async, cmd_wait(short timeout)] → mp.TimeoutError
                if pat == "unread-close":
                    ops += [["close", 0, 0]]
                elif pat == "unread-close-long-timeout":
                    ops += [["close", 4, 0]]
                elif pat == "pending":
                    ops = ops[:-1] + [["close", rng.choice([0, 0, 4]), 0]]
                else:
                    ops += [[cmd + "_async"], ["close", rng.choice([0, 0, 4]), 0]]
                ops += [["close", 0, 0], [rng.choice(SYNC_NAMES)]]
                scns.append({"n": n, "script": [[w, cmd, occ, "busykill", None]], "ops": ops})
    # the synchronous entry points block until the death, then every close variant
    for cmd in (("set_attr", "step", "reset", "call") if full else ("set_attr", rng.choice(["step", "reset", "call"]))):
        n = rng.choice([2, 3])
        ops = [["set_attr"]] if cmd == "set_attr" else [[rng.choice([x for x, v in SYNC_OF.items() if v == cmd])]]
        scns.append({"n": n, "script": [[rng.randrange(n), cmd, 0, "busykill", None]],
                     "ops": ops + close_ops(rng.choice(CLOSE_KINDS))})
    return scns


BOUNDED_CLOSES = [[1, 0], [2, 0], [0, 1], [2, 1], "gc"]


def gen_subenv_close_faults(rng, excs: list, full: bool = False) -> list[dict]:
    """(f) the sub-environment's OWN close() — run by the worker when it leaves its loop — never returns / is slow
    / kills the process / raises: after the worker reported an exception that reached the caller, after an
    exception that close() itself collects from the pending call, after a normal `close` acknowledgement, and
    while ANOTHER worker is the one that failed; × every close variant that promises a bound (timeout, timeout=0,
    terminate, garbage collection) and, when the clean-up is merely slow, the unbounded close too"""
    plain = [e for e in PLAIN_EXC if e in excs and e != "KeyboardInterrupt"]
    scns = []

    def build(kindc, trig, ck):
        n = rng.choice([2, 3])
        w = rng.randrange(n)
        exc = rng.choice(plain)
        cf = [w, "close", 0, kindc, exc if kindc == "raise" else None]
        if trig == "after-error":
            cmd, occ = rng.choice(CMDS), rng.choice([0, 0, 1])
            script = [[w, cmd, occ, "raise", exc], cf]
            ops = drive_to(cmd, occ, 0, rng)
        elif trig == "error-pending":
            cmd = rng.choice(["reset", "step", "call"])
            script = [[w, cmd, 0, "raise", exc], cf]
            ops = ([] if cmd == "reset" else [["reset"]]) + [[cmd + "_async"]]
        elif trig == "after-ack":
            script = [cf]
            ops = [["reset"], [rng.choice(["step", "call", "set_attr"])]]
        else:       # other-worker-error
            cmd, occ = rng.choice(CMDS), rng.choice([0, 1])
            script = [[(w + 1) % n, cmd, occ, "raise", exc], cf]
            ops = drive_to(cmd, occ, 0, rng)
        ops = ops + close_ops(ck) + ([["close", 0, 0], [rng.choice(SYNC_NAMES)]] if ck != "gc" else [])
        return {"n": n, "script": script, "ops": ops}

    trigs = ["after-error", "error-pending", "after-ack", "other-worker-error"]
    if full:
        for kindc in ("stuck", "sleep", "kill", "raise"):
            for trig in trigs:
                for ck in BOUNDED_CLOSES + ([] if kindc == "stuck" else [[0, 0]]):
                    scns.append(build(kindc, trig, ck))
        return scns
    j = rng.randrange(len(BOUNDED_CLOSES))
    for trig in trigs:
        scns.append(build("stuck", trig, [1, 0]))               # the budget must cover the final join as well
        j += 1
        scns.append(build("stuck", trig, BOUNDED_CLOSES[1:][j % 4]))
    for trig in rng.sample(trigs, 2):
        scns.append(build("sleep", trig, rng.choice([[0, 0], [1, 0]])))
    # the failing worker's process ends / lingers right after it announced the failure: its error report must
    # already be on its way (every run: killed after a consumed error, killed with the error still pending, slow)
    scns.append(build("kill", "after-error", rng.choice(CLOSE_KINDS)))
    scns.append(build("kill", "error-pending", rng.choice(BOUNDED_CLOSES + [[0, 0]])))
    scns.append(build("sleep", "after-error", rng.choice([[1, 0], [0, 1]])))
    for kindc in ("kill", "raise"):
        scns.append(build(kindc, rng.choice(trigs), rng.choice(CLOSE_KINDS)))
    return scns


def gen_quick(rng, excs: list) -> list[dict]:
    scns = gen_directed(rng, excs)
    scns += gen_exc_pathologies(rng, excs) + gen_handshake_deaths(rng) + gen_subenv_close_faults(rng, excs)
    # fault-free misuse walks
    for _ in range(5):
        scns.append({"n": rng.choice([1, 2, 3]), "script": [], "ops": gen_ops(rng, rng.randint(4, 9), 0.4, None)})
    # one fault, directed so that it fires, followed by a random continuation
    for kind in ("raise", "sleep", "kill"):
        for cmd in CMDS:
            n = rng.choice([2, 3])
            k = rng.choice([0, 1])
            f = [rng.randrange(n), cmd, k, kind, rng.choice(excs) if kind == "raise" else None]
            tl = rng.choice([1, 1, 2, 3]) if (kind == "sleep" and rng.random() < 0.7) else 0
            ops = drive_to(cmd, k, tl, rng)
            ops += gen_ops(rng, rng.randint(0, 3), 0.3, cmd)
            scns.append({"n": n, "script": [f], "ops": ops})
    # close while the faulty call is still pending
    for kind in ("raise", "sleep", "kill"):
        n, cmd = rng.choice([2, 3]), rng.choice(["reset", "step", "call"])
        f = [rng.randrange(n), cmd, 0, kind, rng.choice(excs) if kind == "raise" else None]
        pre = [] if cmd == "reset" else [["reset_async"], ["reset_wait", 0]]
        ck = rng.choice([[0, 0], [1, 0], [0, 1], [2, 0]])
        scns.append({"n": n, "script": [f], "ops": pre + [[cmd + "_async"], ["close"] + ck, ["close", 0, 0], ["step_async"]]})
    # several faults in different workers, random walks
    tries = 0
    target = len(scns) + 10
    while len(scns) < target and tries < 400:
        tries += 1
        n = rng.choice([2, 3, 3])
        exc = rng.choice(excs)
        script = [gen_fault(rng, n, excs, exc=exc) for _ in range(rng.choice([1, 2, 2, 3]))]
        if len({(f[0], f[1], f[2]) for f in script}) < len(script):
            continue
        if rng.random() < 0.35:
            script.append(gen_close_fault(rng, n, exc))
        scn = {"n": n, "script": script, "ops": gen_ops(rng, rng.randint(4, 9), 0.2, rng.choice([f for f in script if f[1] != "close"])[1])}
        if valid_scenario(scn):
            scns.append(scn)
    return scns


def gen_thorough(rng, excs: list) -> list[dict]:
    scns = gen_quick(rng, excs)
    for _ in range(3):
        scns += gen_directed(rng, excs)
    scns += gen_exc_pathologies(rng, excs, full=True) + gen_handshake_deaths(rng, full=True)
    scns += gen_subenv_close_faults(rng, excs, full=True)
    # fault matrix: every command × occurrence × worker × kind, consumed timed and untimed,
    # closed gracefully / with timeout / with terminate / collected, then used after close
    for cmd in CMDS:
        for k in (0, 1, 2):
            for n, w in ((2, 0), (2, 1), (3, 1), (3, 2)):
                for kind in ("raise", "sleep", "kill", "stuck"):
                    f = [w, cmd, k, kind, rng.choice(excs) if kind == "raise" else None]
                    if kind == "stuck":
                        tl = rng.choice([1, 2, 3]) if cmd != "set_attr" else 0
                    else:
                        tl = rng.choice([1, 2, 3]) if (kind == "sleep" and cmd != "set_attr" and rng.random() < 0.6) else 0
                    ops = drive_to(cmd, k, tl, rng)
                    ops += gen_ops(rng, rng.randint(0, 3), 0.3, cmd)
                    scns.append({"n": n, "script": [f], "ops": ops})
    # every exception class at every command and occurrence
    for exc in excs:
        for cmd in CMDS:
            for k in (0, 1, 2):
                n = rng.choice([2, 3])
                f = [rng.randrange(n), cmd, k, "raise", exc]
                ops = drive_to(cmd, k, rng.choice([0, 0, 1, 2, 3]) if cmd != "set_attr" else 0, rng)
                scns.append({"n": n, "script": [f], "ops": ops + close_ops(rng.choice(CLOSE_KINDS))})
    # close with the faulty call still pending: every command × kind × close variant
    for cmd in ("reset", "step", "call"):
        for kind in ("raise", "sleep", "kill", "stuck"):
            for ck in ([0, 0], [1, 0], [2, 0], [0, 1], [2, 1], "gc"):
                n = rng.choice([2, 3])
                f = [rng.randrange(n), cmd, 0, kind, rng.choice(excs) if kind == "raise" else None]
                pre = [] if cmd == "reset" else [["reset_async"], ["reset_wait", 0]]
                scns.append({"n": n, "script": [f], "ops": pre + [[cmd + "_async"]] + close_ops(ck) +
                             ([["close", 0, 0]] if ck != "gc" else [])})
    # pairs of faults in different workers at the same or neighbouring commands
    tries = 0
    target = len(scns) + 400
    while len(scns) < target and tries < 4000:
        tries += 1
        n = rng.choice([2, 3, 4])
        exc = rng.choice(excs)
        script = [gen_fault(rng, n, excs, exc=exc) for _ in range(rng.choice([2, 2, 3]))]
        if len({(f[0], f[1], f[2]) for f in script}) < len(script):
            continue
        if rng.random() < 0.35:
            script.append(gen_close_fault(rng, n, exc))
        scn = {"n": n, "script": script, "ops": gen_ops(rng, rng.randint(4, 10), 0.2, rng.choice([f for f in script if f[1] != "close"])[1],
                                                         after_close=rng.choice([0, 1, 2]))}
        if valid_scenario(scn):
            scns.append(scn)
    for _ in range(40):
        scns.append({"n": rng.choice([1, 2, 3]), "script": [], "ops": gen_ops(rng, rng.randint(5, 12), 0.45, None)})
    return scns


# ============================================================================ source translation
def pre_gate(chk: Check) -> None:
    """Regenerate lean/Gen/VecProtoGen.lean from the source text of the tree under test (before the Lean gate) and
    re-check `generated = model` (Proofs/VecProtoGenEq.lean) and the theorems over the generated definitions
    (Props/C13.lean, `C13_source_translation_*`): the parent-side call protocol of AsyncPettingZooVecEnv — the guards,
    the `_state` assignments, the timeout handling, `_raise_if_errors`, the synchronous wrappers, close / close_extras."""
    import common
    import py2lean_vecproto
    common.translation_gate(chk, py2lean_vecproto, "Gen/VecProtoGen.lean",
                            ["Gen.VecProtoGen", "Proofs.VecProtoGenEq", "Props.C13"],
                            "call protocol: guards, _state assignments, timeouts, _raise_if_errors, wrappers, close")
    # the WORKER side of the error protocol: `_async_worker`'s except / finally skeleton and `_survives_pickling` as an
    # ordered effect list (Gen/WorkerErrGen.lean), generated = `Worker.errorPath` (Proofs/WorkerErrGenEq.lean), and
    # "announced => flushed at every kill point", "what is put survives pickling" over it (`C13_source_translation_worker_*`)
    import py2lean_workererr
    common.translation_gate(chk, py2lean_workererr, "Gen/WorkerErrGen.lean",
                            ["Gen.WorkerErrGen", "Proofs.WorkerErrGenEq", "Props.C13"],
                            "worker error path: downgrade decision, queue put / close / join_thread, announcement, env.close order")


# ============================================================================ check
class Ctx:
    """what the probes found out about the tree under test"""
    variant = 2            # model variant (see Model/VecProto.lean `parseVariant?`)
    excs = list(PLAIN_EXC)  # exception classes the tree forwards with their own type
    kbd_close = True       # close() copes with a pending call in which a sub-environment raised KeyboardInterrupt


def keep(scn: dict, raw: list[str], ctx: Ctx) -> bool:
    """scenarios the check does not run: the model predicts a call that never returns (an untimed wait /
    close on a sub-environment that is stuck for good waits forever by documented semantics — or it is an
    open known finding, which has its own probe); and, while the corresponding finding is open, the inputs
    that would only reproduce it"""
    if any(x.startswith("hang") for x in raw):
        return False
    if any(f[3] == "stuck" and f[1] == "close" for f in scn["script"]):
        # a sub-environment that never returns from its own close(): an untimed close() waits for that process
        # for as long as it takes (documented: "never times out") — not run; every bounded variant is
        first = next((op for op in scn["ops"] if op[0] in ("close", "gc")), None)
        if first is not None and first[0] == "close" and not first[2] and (not first[1] or ctx.variant < 2):
            return False
    if not ctx.kbd_close and any(f[3] == "raise" and f[4] == "KeyboardInterrupt" for f in scn["script"]):
        state = "default"
        for op, x in zip(scn["ops"], raw):
            if op[0] in ("close", "gc") and state != "default":
                return False
            parts = x.split(" ")
            state = parts[1] if len(parts) > 1 else state
    return True


def evaluate(chk: Check, pool: Pool, scns: list[dict], ctx: Ctx, raws=None):
    """→ per scenario (impl lines, model lines, diff index | None, oracle problems, answer)"""
    answers = pool.run_many(scns)
    if raws is None:
        raws = model_trace(chk, scns, ctx.variant)
    out = []
    for scn, ans, raw in zip(scns, answers, raws):
        model = [canon_model(x, op[0]) for x, op in zip(raw, scn["ops"])]
        if "gc" in [op[0] for op in scn["ops"]]:
            model = model[:[op[0] for op in scn["ops"]].index("gc") + 1]
        impl = canon_impl(ans, scn["ops"])
        diff = next((i for i, (x, y) in enumerate(zip(impl, model)) if x != y), None)
        if diff is None and len(impl) != len(model):
            diff = min(len(impl), len(model))
        if not has_model(scn):
            model, diff = ["(fault kind without a model counterpart: oracle only)"], None
        out.append((impl, model, diff, oracle(scn, ans, ctx.variant), ans))
    return out


PROBES = {
    "C13-close-timeout-ignored-when-idle": {
        "n": 2, "script": [[0, "step", 0, "stuck", None]], "op_bound": 7,
        "ops": [["step_async"], ["step_wait", 1], ["close", 1, 0]]},
    "C13-close-pending-keyboardinterrupt": {
        "n": 2, "script": [[1, "step", 0, "raise", "KeyboardInterrupt"]], "op_bound": 7,
        "ops": [["step_async"], ["close", 0, 0], ["close", 0, 0]]},
    "C13-exception-ctor-signature": {
        "n": 2, "script": [[1, "step", 0, "raise", "TwoArgsFault"]], "op_bound": 7,
        "ops": [["step_async"], ["step_wait", 0], ["close", 0, 0]]},
    "C13-exception-ctor-signature/kw": {
        "n": 2, "script": [[0, "call", 0, "raise", "KwOnlyFault"]], "op_bound": 7,
        "ops": [["call"], ["close", 0, 0]]},
    "C13-exception-unpicklable-hang": {
        "n": 2, "script": [[1, "reset", 0, "raise", "UnpicklableFault"]], "op_bound": 7,
        "ops": [["reset_async"], ["reset_wait", 0], ["close", 0, 0]]},
    # regression probes (fixed 360af15): the worker raises in a command and its process is killed inside the
    # sub-environment's own close(), right after it handed its error report to the queue's feeder thread
    "C13-error-report-lost-when-killed-in-cleanup": {
        "n": 2, "script": [[1, "reset", 0, "raise", "ZeroDivisionError"], [1, "close", 0, "kill", None]], "op_bound": 7,
        "ops": [["reset"], ["close", 0, 0]]},
    "C13-error-report-lost-when-killed-in-cleanup/pending-close": {
        "n": 2, "script": [[0, "step", 0, "raise", "ValueError"], [0, "close", 0, "kill", None]], "op_bound": 7,
        "ops": [["reset"], ["step_async"], ["close", 1, 0]]},
}
# probes that are reported only when the failure shows twice, even with the exact known picture (a race
# between the queue's feeder thread and SIGKILL)
ALWAYS_TWICE = {"C13-error-report-lost-when-killed-in-cleanup", "C13-error-report-lost-when-killed-in-cleanup/pending-close"}


# how each open finding shows on the tree that has it (canonical impl lines); anything else the probe
# observes is NOT that finding and is reported as a violation
KNOWN_SIG = {
    "C13-close-timeout-ignored-when-idle": ["ok step closed=0", "err:mp.TimeoutError default closed=0", "hang"],
    "C13-close-pending-keyboardinterrupt": ["ok step closed=0", "err:KeyboardInterrupt default closed=0",
                                            "ok default closed=1 alive=00"],
    "C13-exception-ctor-signature": ["ok step closed=0", "err:TypeError default closed=0", "ok default closed=1 alive=00"],
    "C13-exception-ctor-signature/kw": ["err:TypeError default closed=0", "ok default closed=1 alive=00"],
    "C13-exception-unpicklable-hang": ["ok reset closed=0", "hang", "unreached"],
    "C13-error-report-lost-when-killed-in-cleanup": ["hang", "unreached"],
    "C13-error-report-lost-when-killed-in-cleanup/pending-close": ["ok default closed=0", "ok step closed=0", "hang"],
}


def run_probes(chk: Check, pool: Pool) -> Ctx:
    """decide which variant of the code is under test; an open known finding is reported as such and the
    generators then stay away from inputs that could only reproduce it"""
    ctx = Ctx()
    names = list(PROBES)
    scns = [dict(PROBES[k], variant=2) for k in names]
    res = evaluate(chk, pool, scns, ctx)
    bad = {k: r for k, r in zip(names, res) if r[2] is not None or r[3]}
    unsure = [k for k, r in bad.items() if r[0] != KNOWN_SIG[k] or k in ALWAYS_TWICE]
    if unsure:      # not the exact known picture: must reproduce (timing assumptions)
        again = evaluate(chk, pool, [dict(PROBES[k], variant=2) for k in unsure], ctx)
        for k, r in zip(unsure, again):
            if r[2] is None and not r[3]:
                del bad[k]
            else:
                bad[k] = r
    for k, (impl, model, diff, problems, ans) in bad.items():
        fid = k.split("/")[0]
        detail = (problems or [f"differs from the model at op {diff}: impl={impl[diff] if diff < len(impl) else None}"])[0]
        if impl != KNOWN_SIG[k]:
            chk.violation(f"probe {k}: {detail}", {"scenario": dict(PROBES[k], variant=2), "impl": impl, "model": model,
                                                    "oracle_problems": problems, "hang_at": ans["hang_at"],
                                                    "repo": str(REPO)}, no_input=not problems)
            continue
        chk.finding(fid, detail, {"scenario": PROBES[k], "impl": impl, "model": model, "oracle_problems": problems,
                                  "hang_at": ans["hang_at"], "alive_at_hang": ans.get("alive_at_hang"),
                                  "repo": str(REPO)})
    if "C13-close-timeout-ignored-when-idle" in bad:
        ctx.variant = 1
    if "C13-close-pending-keyboardinterrupt" in bad:
        ctx.kbd_close = False
    if not any(k.startswith("C13-exception-ctor-signature") for k in bad):
        ctx.excs += ODD_EXC
    if "C13-exception-unpicklable-hang" not in bad:
        ctx.excs += INSTANCE_UNPICKLABLE + CLASS_UNPICKLABLE
    for k in names:
        chk.case(["probe", k], nontrivial=True, tags=["probe", "probe-" + ("open" if k in bad else "pass")])
    return ctx


def shrink(chk: Check, pool: Pool, scn: dict, want_oracle: bool, ctx: Ctx) -> dict:
    """greedy parallel reduction: drop one op / one fault at a time while the failure persists"""
    def fails(res):
        impl, model, diff, problems, _ = res
        return bool(problems) if want_oracle else diff is not None
    cur = scn
    for _ in range(8):
        cands = []
        for i in range(len(cur["ops"])):
            c = dict(cur, ops=cur["ops"][:i] + cur["ops"][i + 1:])
            if c["ops"] and "gc" not in [o[0] for o in c["ops"][:-1]]:
                cands.append(c)
        for i in range(len(cur["script"])):
            cands.append(dict(cur, script=cur["script"][:i] + cur["script"][i + 1:]))
        if cur["n"] > 1 and all(f[0] < cur["n"] - 1 for f in cur["script"]):
            cands.append(dict(cur, n=cur["n"] - 1))
        raws = model_trace(chk, cands, ctx.variant) if cands else []
        pairs = [(c, r) for c, r in zip(cands, raws) if keep(c, r, ctx)]
        if not pairs:
            break
        cands, raws = [c for c, _ in pairs], [r for _, r in pairs]
        res = evaluate(chk, pool, cands, ctx, raws)
        hit = next((c for c, r in zip(cands, res) if fails(r)), None)
        if hit is None:
            break
        cur = hit
    return cur


def report(chk: Check, pool: Pool, scn: dict, res, ctx: Ctx, do_shrink: bool = True) -> None:
    impl, model, diff, problems, ans = res
    small = shrink(chk, pool, scn, bool(problems), ctx) if do_shrink else scn
    impl2, model2, diff2, problems2, ans2 = evaluate(chk, pool, [small], ctx)[0] if small is not scn else res
    if bool(problems2) != bool(problems) or (not problems and diff2 is None):
        small, impl2, model2, diff2, problems2, ans2 = scn, impl, model, diff, problems, ans   # flaky shrink: keep the original
    replay = {"scenario": dict(small, variant=ctx.variant), "impl": impl2, "model": model2, "diff_at": diff2,
              "oracle_problems": problems2, "values": [r.get("val") for r in ans2["results"]],
              "timings": [r["dt"] for r in ans2["results"]], "hang_at": ans2["hang_at"],
              "alive_at_hang": ans2.get("alive_at_hang"), "repo": str(REPO),
              "correspondence": f"harness/c13.py vs Model/VecProto.lean (variant {ctx.variant})",
              "theorems": chk.gate["theorems"]}
    if problems2:
        chk.violation(problems2[0], replay)
    else:
        chk.violation(f"implementation and VecProto model disagree at op {diff2} "
                      f"({small['ops'][diff2] if diff2 is not None and diff2 < len(small['ops']) else '?'}): "
                      f"impl={impl2[diff2] if diff2 is not None and diff2 < len(impl2) else None!r} "
                      f"model={model2[diff2] if diff2 is not None and diff2 < len(model2) else None!r}; "
                      "the property oracle holds on this scenario and its shrinks", replay, no_input=True)


def tags_of(scn: dict, impl: list[str]) -> list[str]:
    t = [f"n{scn['n']}", f"faults{len(scn['script'])}"]
    t += [f"fault-{f[3]}-{f[1]}" for f in scn["script"]]
    t += [f"exc-{f[4]}" for f in scn["script"] if f[3] == "raise"]
    t += ["exc-class-unpicklable" for f in scn["script"] if f[3] == "raise" and f[4] in CLASS_UNPICKLABLE]
    t += ["exc-instance-unpicklable" for f in scn["script"] if f[3] == "raise" and f[4] in INSTANCE_UNPICKLABLE]
    for op, ln in zip(scn["ops"], impl):
        out = ln.split(" ")[0]
        t.append("out-" + (out if out in ("ok", "hang", "unreached") else out[4:] if out[4:] in PROTOCOL_ERRORS else "worker-exception"))
        if op[0] == "close":
            t.append("close-" + ("terminate" if op[2] else {0: "plain", 1: "timeout", 2: "timeout0", 3: "timeout-1ms",
                                                             4: "timeout-long"}[op[1]]))
        elif op[0] == "gc":
            t.append("close-gc")
        elif op[0] in SYNC_OF:
            t.append("sync-" + op[0])
        elif op[0] in WAIT_OF and op[1]:
            t.append(f"wait-timeout-{TMO[op[1]]}")
    return t


def run(chk: Check) -> None:
    rng = chk.rng
    if os.environ.get("C13_DRIVER"):           # development only: a driver built from a scratch model
        chk.driver.exe = Path(os.environ["C13_DRIVER"])
    chk.rule = ("op sequences over the public calls (async/wait pairs, set_attr, the synchronous wrappers reset / step / "
                "call / get_attr / render, close plain / timeout / timeout=0 / terminate, garbage collection of the "
                "unclosed env; waits with timeout None / 0.25 / 0 / 0.001; legal walks with 20–45% injected misuse, "
                "directed families: every rejected entry point × every pending kind followed by provenance-checked "
                "results, every timeout value and close variant × stuck / sleeping / killed worker × pending kind, "
                "every forwarded exception class × command; every pickling pathology of an exception — constructor "
                "signature, unpicklable / unrebuildable instance, class not picklable by reference (closure, type(), "
                "shadowed) — × every command; a worker that stays busy past a timed-out wait and dies during close() "
                "(while the pending call / the `close` acknowledgement is awaited, `close` unread in its socket, with "
                "and without a long close timeout); the sub-environment's own close() stuck / slow / killing / raising "
                "after an error, after an error collected by close, after the acknowledgement, next to another failed "
                "worker × every bounded close variant) × fault scripts (worker, command ∈ reset/step/call/"
                "set_attr/close, occurrence 0..2, raise T | sleep | stuck | kill | busykill; 0–4 faults, several workers) on 1–4 "
                "sub-environments, each in its own process group; distinct = distinct (n, script, ops); non-trivial "
                "= some call returned an error (misuse or fault reached the caller)")
    chk.assumptions = [
        "PARTIAL: liveness, timing and OS-level process death are assumptions of the protocol model (A1–A8 in "
        "Model/VecProto.lean), validated only by fault injection, not derived: a live worker answers before the next "
        "call (80 ms settle pause, 250 ms after a call that raised, 300 ms before a call with a zero / 1 ms budget; a failing scenario must fail twice "
        "to be reported), send to an ended process raises BrokenPipeError, recv from it raises EOFError "
        "(ConnectionResetError is canonicalised to these), a scripted sleep (4 s) outlasts every timed wait (≤ 0.25 s) "
        "and is finite for an untimed one, a `stuck` sub-environment (1 h) never comes back, terminate()/SIGKILL end "
        "a process",
        "a real hang can only be observed as 'no answer within 14 s'; the model exhibits the protocol path to it; "
        "scenarios in which the model predicts a call that never returns (an untimed wait / close on a stuck "
        "sub-environment: documented 'never times out') are not run",
        "correspondence scenarios put scripted sleeps on one worker only, ≤ 2 sleeps, ≤ 4 timed calls, one exception "
        "type per script (error-queue order of simultaneous failures is scheduler-dependent); the theorems have no such bound",
        "close(timeout=None) waits for a sleeping worker by documented semantics; 'promptly' is checked as "
        "(scripted sleep still owed) + 3 s for an untimed close and 2·timeout + 3 s for close(timeout=…) / terminate / gc",
        "exception marshalling (pickling the exception object, rebuilding it in the parent) is outside the Lean model "
        "(assumption A8); it is covered by the exception-class sweep, the pathology × command family and the probes only; "
        "an exception whose CLASS cannot be pickled by reference cannot arrive as that class: the oracle accepts the "
        "tree's documented fallback RuntimeError('<Class>: <message>') for it (it must arrive, nothing may hang)",
        "faults inside the sub-environment's own close() have no counterpart in Model/VecProto.lean (its worker is "
        "`exited` once it leaves the loop): a close() that kills the process or raises is compared with the model with "
        "the fault erased (same outcomes); a close() that lingers (stuck / slow) and `busykill` (busy, then dead without "
        "a reply) are checked by the oracle only; an untimed close() on a clean-up that never returns waits for as "
        "long as it takes (documented) and is not run",
    ]
    chk.trusted_extra.append("harness/envs_fault.py (scripted fault-injecting ParallelEnv) and the zygote/child runner of harness/c13.py")
    corpus = []
    for f in sorted((ROOT / "corpus" / "C13").glob("*.json")):
        c = json.loads(f.read_text())
        corpus.append(c.get("scenario", c))
    k = min(16, os.cpu_count() or 4)
    pool = Pool(k)
    leaked = 0
    try:
        ctx = run_probes(chk, pool)
        gen = gen_quick(rng, ctx.excs) if chk.tier == "quick" else gen_thorough(rng, ctx.excs)
        scns = corpus + gen
        raws = model_trace(chk, scns, ctx.variant)
        kept = [(sc, rw) for sc, rw in zip(scns, raws) if keep(sc, rw, ctx)]
        chk.dist["not-run(model: never returns / open finding)"] += len(scns) - len(kept)
        scns, raws = [sc for sc, _ in kept], [rw for _, rw in kept]
        results = evaluate(chk, pool, scns, ctx, raws)
        ndiff, reported, failing = 0, 0, []
        for scn, res in zip(scns, results):
            impl, model, diff, problems, ans = res
            nontrivial = any(not ln.startswith("ok") for ln in impl)
            chk.case([scn["n"], scn["script"], scn["ops"]], nontrivial=nontrivial,
                     sample={"n": scn["n"], "script": scn["script"], "ops": scn["ops"], "impl": impl},
                     tags=tags_of(scn, impl))
            if diff is not None or problems:
                failing.append((scn, res))
        # timing assumptions (A1, A4) are validated, not guaranteed: a failure must reproduce
        again = evaluate(chk, pool, [sc for sc, _ in failing], ctx) if failing else []
        for (scn, res), res2 in zip(failing, again):
            if res2[2] is None and not res2[3]:
                chk.notes.append(f"not reproducible on a second run (timing assumption A1/A4, machine load?): "
                                 f"{json.dumps(scn)} first run: diff_at={res[2]} oracle={res[3][:1]}")
                continue
            ndiff += res2[2] is not None
            if reported < 5:
                report(chk, pool, scn, res2, ctx, do_shrink=reported < 2)
            else:
                chk.violation((res2[3] or ["implementation and VecProto model disagree"])[0], None, no_input=not res2[3])
            reported += 1
        chk.suite("vecproto-faults", len(scns), ndiff)
        if chk.tier == "thorough":
            selftest(chk, pool, ctx)
    finally:
        leaked = pool.close()
    if leaked:
        raise InfraError(f"C13: {leaked} process(es) carrying the run's marker were still alive at the end")
    chk.notes.append(f"agilerl imported from {REPO} in runner, scenario and worker processes; model variant "
                     f"{ctx.variant}; exception classes swept: {ctx.excs}; "
                     f"{k} runners; no process of this run left behind (marker scan of /proc)")


def selftest(chk: Check, pool: Pool, ctx: Ctx) -> None:
    """seeded faults, applied inside the scenario child only: each must be flagged"""
    probes = [
        ("skip_state_check", "step_async no longer checks the pending state",
         {"n": 2, "script": [], "ops": [["reset_async"], ["reset_wait", 0], ["step_async"], ["step_async"], ["step_wait", 0], ["close", 0, 0]]}),
        ("close_leaks", "close() closes the pipes but neither stops nor joins the workers",
         {"n": 2, "script": [[0, "step", 0, "sleep", None]], "ops": [["step_async"], ["step_wait", 1], ["close", 0, 0]]}),
        ("swallow_worker_error", "_raise_if_errors drops the sub-environment's exception",
         {"n": 2, "script": [[1, "step", 0, "raise", "ValueError"]], "ops": [["step_async"], ["step_wait", 0], ["close", 0, 0]]}),
        ("timeout_keeps_state", "timed waits ignore the timeout",
         {"n": 2, "script": [[1, "call", 0, "sleep", None]], "ops": [["call_async"], ["call_wait", 1], ["close", 0, 0]]}),
        ("sync_call_wipes_state", "call() resets the state of another pending call when it is rejected",
         {"n": 2, "script": [], "ops": [["step_async"], ["get_attr"], ["step_wait", 0], ["step"], ["close", 0, 0]]}),
        ("stale_results", "step_wait hands back the previous step's results",
         {"n": 2, "script": [], "ops": [["step"], ["step"], ["step_async"], ["step_wait", 0], ["close", 0, 0]]}),
        ("zero_timeout_blocks", "timeout=0 means wait forever",
         {"n": 2, "script": [[0, "step", 0, "stuck", None]], "op_bound": 6,
          "ops": [["step_async"], ["step_wait", 2], ["close", 0, 1]]}),
        ("drop_keyboardinterrupt", "the worker does not forward KeyboardInterrupt",
         {"n": 2, "script": [[1, "reset", 0, "raise", "KeyboardInterrupt"]], "ops": [["reset_async"], ["reset_wait", 0], ["close", 0, 0]]}),
        ("class_pickle_shortcut", "the worker's picklability check waves every class object through",
         {"n": 2, "script": [[1, "step", 0, "raise", "LocalClassFault"]], "op_bound": 6,
          "ops": [["step_async"], ["step_wait", 0], ["close", 0, 0]]}),
        ("close_handshake_narrow_except", "close() only expects EOF / EPIPE from the shutdown handshake",
         {"n": 2, "script": [[0, "step", 0, "busykill", None]],
          "ops": [["step_async"], ["step_wait", 1], ["close", 0, 0], ["close", 0, 0]]}),
        ("no_terminate_after_budget", "close(timeout) joins without terminating whoever outlives the budget",
         {"n": 2, "script": [[1, "step", 0, "raise", "ValueError"], [1, "close", 0, "stuck", None]], "op_bound": 6,
          "ops": [["step_async"], ["step_wait", 0], ["close", 1, 0]]}),
    ]
    res = evaluate(chk, pool, [dict(s, patch=p) for p, _, s in probes], ctx)
    for (p, what, _), (impl, model, diff, problems, _) in zip(probes, res):
        if diff is None and not problems:
            raise InfraError(f"C13 self-test: seeded fault `{p}` ({what}) was not noticed")
        chk.notes.append(f"self-test: {what} — detected ({'oracle' if problems else 'model diff'})")


def replay(chk: Check, path: str) -> int:
    c = json.loads(open(path).read())
    c = c.get("replay", c)
    scn = c.get("scenario", c)
    if os.environ.get("C13_DRIVER"):
        chk.driver.exe = Path(os.environ["C13_DRIVER"])
    pool = Pool(2)
    try:
        ctx = Ctx()
        ctx.variant = int(scn.get("variant", 2))
        impl, model, diff, problems, ans = evaluate(chk, pool, [scn], ctx)[0]
    finally:
        pool.close()
    print(json.dumps({"repo": str(REPO), "scenario": scn, "impl": impl, "model": model, "diff_at": diff,
                      "oracle_problems": problems, "values": [r.get("val") for r in ans["results"]],
                      "hang_at": ans["hang_at"], "alive_at_hang": ans.get("alive_at_hang"),
                      "timings": [r["dt"] for r in ans["results"]]}, indent=1))
    if problems:
        print(f"VIOLATION property=C13 replay={path}")
        return 1
    if diff is not None:
        print(f"VIOLATION property=C13 replay={path} no-failing-input-found")
        return 1
    return 0


if __name__ == "__main__":
    if "--zygote" in sys.argv:
        zygote_main()
