"""
C14 — every selected action is a legal member of the action space.

Correspondence (real `get_action` of every algorithm against `Model/Action.lean`).  The network is
replaced by a stub that returns prescribed dyadic q-values / squashed head outputs / logits (ties,
+-2^20), so a float computed by the real code is an exact rational; every random draw the real code
makes (`torch.rand_like`, `Tensor.uniform_`, `random.random`, `np.random.uniform/randint`, the
exploration noise, the policy's sample) is *tapped*: recorded, or overridden with prescribed dyadic
values (zeros, ties), and handed to the model as data, so nothing depends on the order of RNG calls.

  suite dqn      DQN._get_action: all 2^A masks for A <= 5, eps in {0, 1/2, 1}, recorded and injected draws
  suite ma       numpy.ma path: RainbowDQN, CQN (greedy + exploring), NeuralUCB, NeuralTS
  suite madisc   MADDPG / MATD3 discrete: per-agent masks, noise, env-defined actions from `infos`
  suite cont     DDPG / TD3: real DeterministicActor.forward (rescale for every bounded activation) on a
                 stubbed head, noise on/off, per-dimension asymmetric finite Box bounds
  suite rescale  DeterministicActor.rescale_action itself, every activation, finite and infinite bounds
  suite macont   MADDPG / MATD3 Box: per-agent per-dimension bounds, noise, clamp, env-defined override
  suite pg       PPO / IPPO: evaluation-mode clip / scale_action of the recorded sample; apply_mask logits
  suite plumbing MADDPG / MATD3 `get_action` (evaluation mode, stub actors with integer tables, discrete and Box) and
                 IPPO `extract_action_masks` against the definitions GENERATED from the source (Gen/MaPlumbGen.lean,
                 evaluated by `lake env lean`): agent ids that are not in lexicographic order, `infos` in shuffled key
                 order, empty infos / unrelated keys, per-agent one-hot-complement masks (the preferred action is the one
                 the agent's OWN mask forbids), env-defined actions for some (agent, env row) pairs with NaN / None
                 placeholders, 1..3 env rows and the non-vectorised forms; final action dicts diffed exactly

  suite reuse    HISTORIES of get_action calls on one agent whose inputs are RE-USED OBJECTS rewritten in place between calls (one
                 pre-allocated mask buffer of dtype int8 / int64 / float32 / bool, observation buffers of every family, one
                 `infos` dict with its nested per-agent dicts, mask and env-defined-action arrays) for every algorithm x action
                 kind, one-hot masks that move every step and random masks, batched and unbatched, training flag fixed or
                 alternating: (a) the legality oracle on every step against the CURRENT mask values, (b) step by step equal to
                 the same history on a twin agent (same constructor seed, same per-call seeds) that receives a fresh deep copy
                 of every input (the result of a call depends only on the values passed to it and on its draws), (c) get_action
                 leaves the caller's mask / observation / infos objects as it found them

Oracle (independent of Lean): batch shape and `action_space.contains` (per row, cast to the space's
dtype as the training loops hand rows to `env.step`) for every algorithm x action kind x observation
family with the *real* networks: training flag on/off, exploration noise on/off, eps in {0, 1/2, 1},
single and batched observations, masks with >= 1 legal action, per-agent masks and env-defined actions.

Source translation (`pre_gate`, before the Lean gate): `py2lean_action.py` translates, from the source text of the tree
under test, the action-selection arithmetic of `get_action` of DQN (with `_get_action`), CQN, RainbowDQN, DDPG, TD3, PPO,
of the per-agent loop body of IPPO / MADDPG / MATD3 and of `DeterministicActor.forward` / `rescale_action`,
`StochasticActor.scale_action` (per batch row; network outputs, attributes and random draws are named inputs) into
`lean/Gen/ActionGen.lean`; `Proofs/ActionGenEq.lean` proves the generated definitions equal to `dqnRow`, `cqnRow`,
`cqnRowNoMask`, `maPick`, `plainPick`, `ddpgRow`, `actorOut`, `pgEvalBox`, ... of the model and `Props/C14.lean` restates
the theorems over them (`C14_source_translation_*`).  If the translator rejects the source or those proofs stop checking,
that is a gate problem naming the broken equality; the suites above then supply the failing input.
"""
from __future__ import annotations

import copy
import itertools
import json
import random
import re
from fractions import Fraction

import numpy as np
import torch
from torch import nn

from common import ROOT, Check, InfraError, ddmin, frac

BIG = float(2 ** 20)
QPOOL = [-BIG, -3.0, -0.5, 0.0, 0.0, 0.25, 1.0, 1.0, 7.0, BIG]
ACTS = ["Tanh", "Softsign", "Sigmoid", "Softmax", "GumbelSoftmax"]
PRESCALED = {"Tanh": (-1.0, 1.0), "Softsign": (-1.0, 1.0), "Sigmoid": (0.0, 1.0), "Softmax": (0.0, 1.0),
             "GumbelSoftmax": (0.0, 1.0)}
#: finite, asymmetric, per-dimension Box bounds (all dyadic)
BOUNDS = [([-1.0, 2.0, -8.0], [0.5, 4.0, -6.0]), ([-1.0, -1.0], [1.0, 1.0]), ([0.0, -4.0], [2.0, -0.5]),
          ([-0.25], [3.0]), ([-2.0, 0.0, 1.0, -16.0], [-1.0, 8.0, 1.5, 16.0])]
#: IPPO / MADDPG / MATD3 assert low[0] <= 0 < high[0] in their constructors
BOUNDS_IPPO = [([-1.0, 2.0, -8.0], [0.5, 4.0, -6.0]), ([0.0, -4.0], [2.0, -0.5]), ([-0.25], [3.0]),
               ([-0.5, 0.0], [0.25, 1.0])]         # 1 and 3 have the same dimension and different bounds
MA_BOUND_PAIRS = [(0, 2), (2, 0), (1, 3), (3, 0)]      # indices into BOUNDS accepted by the multi-agent constructors
TOL = 1e-5


# ============================================================================= small helpers
def _agents():
    import agents
    return agents


def box(lo, hi):
    from gymnasium import spaces
    return spaces.Box(np.array(lo, np.float32), np.array(hi, np.float32), dtype=np.float32)


def fr(x) -> str:
    return frac(float(x))


def frs(xs) -> str:
    return " ".join(fr(x) for x in xs)


def bits(m) -> str:
    return " ".join("1" if int(b) else "0" for b in m)


def parse_rats(line: str):
    return [Fraction(w) for w in line.split()]


class Table(nn.Module):
    """network stub: returns the prescribed table whatever the input"""

    def __init__(self):
        super().__init__()
        self.table = None

    def forward(self, *a, **k):
        return self.table.clone()


class BanditTable(nn.Module):
    """bandit stub: prescribed values that depend (with zero gradient) on the exploration layer, so that
    `fx.backward()` leaves zero grads, g = 0, the confidence width is 0 and the action values are the table"""

    def __init__(self, layer):
        super().__init__()
        self.table = None
        self.__dict__["layer"] = layer

    def forward(self, *a, **k):
        return self.table.clone() + 0.0 * sum(p.sum() for p in self.layer.parameters())


_CACHE: dict = {}


def mk_agent(algo: str, family: str, act_spaces, seed: int = 0, **over):
    """a real agent over custom action space(s); multi-agent: list of three spaces (agent_0, agent_1, other_0)"""
    ag = _agents()
    cls = ag.algo_class(algo)
    kw = dict(net_config=copy.deepcopy(ag.default_net_config(algo, family)), batch_size=8, device="cpu",
              accelerator=None)
    if algo == "RainbowDQN":
        kw.update(num_atoms=5, v_min=-2.0, v_max=2.0, n_step=3)
    if algo in ("PPO", "IPPO"):
        kw.update(learn_step=8, update_epochs=2)
    kw.update(over)
    ag.seed_all(seed)
    if ag.is_multi_agent(algo):
        return cls(observation_spaces=[ag.obs_space(family) for _ in ag.AGENT_IDS], action_spaces=list(act_spaces),
                   agent_ids=list(ag.AGENT_IDS), **kw)
    return cls(ag.obs_space(family), act_spaces, **kw)


def cached(key, make):
    if key not in _CACHE:
        _CACHE[key] = make()
    return _CACHE[key]


def sample_obs(agent, algo: str, B: int, single: bool, seed: int):
    ag = _agents()
    rng = np.random.default_rng([seed & 0xFFFFFFFF, 7])
    n = None if single else B
    if ag.is_multi_agent(algo):
        return {aid: ag._sample_space(agent.observation_space[aid], rng, n) for aid in agent.agent_ids}
    return ag._sample_space(agent.observation_space, rng, n)


def seed_all(seed: int):
    random.seed(seed)
    np.random.seed(seed % (2 ** 32))
    torch.manual_seed(seed)


# ============================================================================= taps on random draws
class TorchTap:
    """record (and optionally override, by shape) what torch.rand_like / torch.rand / Tensor.uniform_ return"""

    def __init__(self, inject: list | None = None):
        self.inject = [torch.as_tensor(np.asarray(x, dtype=np.float32)) for x in (inject or [])]
        self.rec: list = []

    def _post(self, out):
        for inj in self.inject:
            if tuple(inj.shape) == tuple(out.shape):
                out.copy_(inj.to(out.dtype))
                break
        self.rec.append(out.detach().clone())
        return out

    def __enter__(self):
        self.o_rl, self.o_r = torch.rand_like, torch.rand
        self.had_u = "uniform_" in torch.Tensor.__dict__
        self.o_u = torch.Tensor.uniform_

        def rl(t, *a, **k):
            return self._post(self.o_rl(t, *a, **k))

        def r(*a, **k):
            return self._post(self.o_r(*a, **k))

        def un(t, *a, **k):
            return self._post(self.o_u(t, *a, **k))

        torch.rand_like, torch.rand, torch.Tensor.uniform_ = rl, r, un
        return self

    def __exit__(self, *exc):
        torch.rand_like, torch.rand = self.o_rl, self.o_r
        if self.had_u:
            torch.Tensor.uniform_ = self.o_u
        else:
            del torch.Tensor.uniform_
        return False

    def find(self, shape):
        hits = [t for t in self.rec if tuple(t.shape) == tuple(shape)]
        return hits[-1].numpy() if len(hits) == 1 else None


class NumpyTap:
    """CQN: random.random(), np.random.uniform(0,1,(B,A)), np.random.randint(0,A,size=B)"""

    def __init__(self, u=None, r=None, k=None):
        self.inj = {"u": u, "r": r, "k": k}
        self.rec = {"u": [], "r": [], "k": []}

    def __enter__(self):
        self.o = (random.random, np.random.uniform, np.random.randint)

        def rr():
            v = self.o[0]()
            if self.inj["u"] is not None:
                v = float(self.inj["u"])
            self.rec["u"].append(v)
            return v

        def uni(*a, **k):
            out = self.o[1](*a, **k)
            if self.inj["r"] is not None and np.shape(out) == np.shape(self.inj["r"]):
                out = np.asarray(self.inj["r"], dtype=np.float64).copy()
            self.rec["r"].append(np.array(out, dtype=np.float64))
            return out

        def ri(*a, **k):
            out = self.o[2](*a, **k)
            if self.inj["k"] is not None and np.shape(out) == np.shape(self.inj["k"]):
                out = np.asarray(self.inj["k"], dtype=out.dtype).copy()
            self.rec["k"].append(np.array(out))
            return out

        random.random, np.random.uniform, np.random.randint = rr, uni, ri
        return self

    def __exit__(self, *exc):
        random.random, np.random.uniform, np.random.randint = self.o
        return False


class NoiseTap:
    """record / override what `agent.action_noise(...)` returns (numpy for DDPG/TD3, torch for MADDPG/MATD3)"""

    def __init__(self, agent, inject=None):
        self.agent, self.inject, self.rec = agent, inject or {}, {}

    def __enter__(self):
        orig = self.agent.action_noise

        def wrapped(*a):
            out = orig(*a)
            key = a[0] if a else 0
            inj = self.inject.get(key)
            if inj is not None:
                if isinstance(out, torch.Tensor):
                    out = torch.as_tensor(np.asarray(inj, np.float32)).reshape(out.shape).to(out.dtype)
                else:
                    out = np.asarray(inj, dtype=out.dtype).reshape(out.shape)
            self.rec[key] = np.array(out.detach().cpu().numpy() if isinstance(out, torch.Tensor) else out,
                                     dtype=np.float64).reshape(-1)
            return out

        self.agent.action_noise = wrapped
        return self

    def __exit__(self, *exc):
        del self.agent.action_noise
        return False


class MethodTap:
    """record calls of a method of a class: list of (args, result)"""

    def __init__(self, cls, name):
        self.cls, self.name, self.rec = cls, name, []

    def __enter__(self):
        self.orig = self.cls.__dict__[self.name]
        orig, rec = self.orig, self.rec

        def wrapped(slf, *a, **k):
            out = orig(slf, *a, **k)
            rec.append((slf, a, out))
            return out

        setattr(self.cls, self.name, wrapped)
        return self

    def __exit__(self, *exc):
        setattr(self.cls, self.name, self.orig)
        return False


# ============================================================================= legality oracle (no Lean)
def legal(space, row) -> bool:
    """is `row` (what the training loop would pass to env.step for one environment) a member of `space`?"""
    from gymnasium import spaces
    x = np.asarray(row)
    if isinstance(space, spaces.Discrete):
        x = x.reshape(-1)
        if x.size != 1 or not np.isfinite(float(x[0])) or float(x[0]) != int(x[0]):
            return False
        return bool(space.contains(int(x[0])))
    if isinstance(space, (spaces.MultiDiscrete, spaces.MultiBinary)):
        if not np.all(np.isfinite(x.astype(np.float64))) or not np.all(x == np.round(x)):
            return False
        return bool(space.contains(x.astype(space.dtype)))
    if isinstance(space, spaces.Box):
        if x.dtype.kind != "f":
            return False
        return bool(space.contains(x.astype(space.dtype)))
    raise TypeError(type(space))


# ============================================================================= suite dqn
def dqn_agent(family: str, A: int):
    from gymnasium import spaces

    def make():
        a = mk_agent("DQN", family, spaces.Discrete(A))
        a.actor = Table()
        return a
    return cached(("DQN", family, A), make)


def run_dqn(case):
    """-> (impl lines, model ops, oracle problems, tags, resolved case with the draws made explicit)"""
    A, eps, rows = case["A"], case["eps"], case["rows"]
    fam, use_mask = case.get("family", "vector"), case.get("mask", True)
    B = len(rows)
    single = bool(case.get("single")) and B == 1
    ag = dqn_agent(fam, A)
    ag.actor.table = torch.tensor([r["q"] for r in rows], dtype=torch.float32)
    mask = np.array([r["m"] for r in rows], dtype=np.float32) if use_mask else None
    if mask is not None and single:
        mask = mask[0]
    obs = sample_obs(ag, "DQN", B, single, case.get("seed", 0))
    inject = []
    if all(r.get("r") is not None for r in rows):
        inject.append([r["r"] for r in rows])
    if all(r.get("u") is not None for r in rows):
        inject.append([r["u"] for r in rows])
    seed_all(case.get("seed", 0))
    with TorchTap(inject) as tap:
        out = np.asarray(ag.get_action(obs, epsilon=eps, action_mask=mask))
    rr, uu = tap.find((B, A)), tap.find((B,))
    problems, tags, impl, ops = [], [], [], []
    if out.shape != (B,):
        problems.append(f"DQN batch of {B} observations -> action shape {out.shape}")
        return impl, ops, problems, tags, case
    if rr is None or uu is None:
        return impl, ops, problems, ["draws-unobserved"], case
    eps32 = float(np.float32(eps))
    resolved = dict(case, rows=[dict(r, r=[float(x) for x in rr[i]], u=float(uu[i])) for i, r in enumerate(rows)])
    for i, r in enumerate(rows):
        a, q = int(out[i]), r["q"]
        m = [int(b) for b in r["m"]] if use_mask else [1] * A
        impl.append(str(a))
        ops.append(f"action dqn {A} {fr(eps32)} {fr(uu[i])} {frs(q)} {frs(rr[i])} {bits(m)}")
        if not 0 <= a < A:
            problems.append(f"row {i}: index {a} outside Discrete({A})")
            continue
        if not any(m):
            tags.append("all-masked")
            continue
        if float(uu[i]) > eps32:
            tags.append("greedy")
            best = max(q[j] for j in range(A) if m[j])
            if not m[a]:
                problems.append(f"row {i}: masked action {a} chosen greedily (mask {m}, q {q})")
            elif q[a] < best:
                problems.append(f"row {i}: greedy action {a} has q {q[a]} < best allowed {best}")
            if sum(1 for j in range(A) if m[j] and q[j] == best) > 1:
                tags.append("tie")
        else:
            tags.append("explore")
            if eps32 == 0.0:
                tags.append("eps0-zero-draw")
            if any(m[j] and rr[i][j] > 0 for j in range(A)):
                if not m[a]:
                    problems.append(f"row {i}: masked action {a} chosen while exploring (mask {m}, scores {list(rr[i])})")
            else:
                tags.append("zero-draw")      # C14_explore_zero_draw_witness: outside the proved statement
    return impl, ops, problems, tags, resolved


def rand_q(rng: random.Random, A: int):
    mode = rng.random()
    if mode < 0.2:
        return [rng.choice(QPOOL)] * A
    if mode < 0.5:
        return [float(rng.choice([0, 1])) for _ in range(A)]
    return [rng.choice(QPOOL) for _ in range(A)]


def all_masks(A: int):
    return [list(m) for m in itertools.product([0, 1], repeat=A)]


def gen_dqn(rng: random.Random, tier: str):
    cases = []
    reps = 4 if tier == "quick" else 30
    for A in (1, 2, 3, 4, 5):
        for eps in (0.0, 0.5, 1.0):
            for rep in range(reps):
                inject = rep % 2 == 1
                rows = []
                for m in all_masks(A):
                    row = {"q": rand_q(rng, A), "m": m}
                    if inject:
                        # many zeros and ties among the scores; u on both sides of (and exactly at) eps
                        row["r"] = [rng.choice([0.0, 0.0, 0.125, 0.5, 0.5, 0.875]) for _ in range(A)]
                        row["u"] = rng.choice([0.0, 0.25, 0.5, 0.75])
                    rows.append(row)
                rng.shuffle(rows)
                cases.append({"suite": "dqn", "A": A, "eps": eps, "rows": rows, "seed": rng.randrange(1 << 30),
                              "family": rng.choice(["vector", "vector", "dict", "image", "discrete"])})
    # no mask given (all ones built from the observation's batch size), single observation
    for A in (1, 3, 5):
        for eps in (0.0, 0.5, 1.0):
            for single in (True, False):
                B = 1 if single else rng.randint(2, 6)
                rows = [{"q": rand_q(rng, A), "m": [1] * A} for _ in range(B)]
                cases.append({"suite": "dqn", "A": A, "eps": eps, "rows": rows, "seed": rng.randrange(1 << 30),
                              "family": rng.choice(["vector", "dict", "tuple", "image", "discrete"]),
                              "mask": False, "single": single})
    # single observation with a 1-d mask
    for A in (2, 4):
        rows = [{"q": rand_q(rng, A), "m": rng.choice(all_masks(A)[1:])}]
        cases.append({"suite": "dqn", "A": A, "eps": 0.0, "rows": rows, "seed": rng.randrange(1 << 30), "single": True})
    return cases


# ============================================================================= suite ma (numpy.ma path)
def ma_agent(algo: str, A: int):
    from gymnasium import spaces

    def make():
        a = mk_agent(algo, "vector", spaces.Discrete(A))
        a.actor = BanditTable(a.exp_layer) if algo in ("NeuralUCB", "NeuralTS") else Table()
        return a
    return cached((algo, "vector", A), make)


def _greedy_oracle(i, a, q, m, A, problems, tags, who):
    if not 0 <= a < A:
        problems.append(f"{who} row {i}: index {a} outside Discrete({A})")
        return
    if not any(m):
        tags.append("all-masked")
        return
    best = max(q[j] for j in range(A) if m[j])
    if not m[a]:
        problems.append(f"{who} row {i}: masked action {a} chosen greedily (mask {m}, values {q})")
    elif q[a] < best:
        problems.append(f"{who} row {i}: greedy action {a} has value {q[a]} < best allowed {best}")
    if sum(1 for j in range(A) if m[j] and q[j] == best) > 1:
        tags.append("tie")


def run_ma(case):
    algo, A, rows = case["algo"], case["A"], case["rows"]
    use_mask = case.get("mask", True)
    B = len(rows)
    ag = ma_agent(algo, A)
    problems, tags, impl, ops = [], [f"ma-{algo}"], [], []
    resolved = case
    if algo in ("NeuralUCB", "NeuralTS"):
        for i, r in enumerate(rows):
            ag.actor.table = torch.tensor(r["q"], dtype=torch.float32).reshape(A, 1)
            ctx = np.zeros((A, 4), np.float32)
            seed_all(case.get("seed", 0) + i)
            sig = ag.sigma_inv.clone()
            a = ag.get_action(ctx, action_mask=np.array(r["m"]) if use_mask else None)
            ag.sigma_inv = sig
            if np.ndim(a) != 0:
                problems.append(f"{algo}: one context -> action of shape {np.shape(a)}")
                continue
            a = int(a)
            m = [int(b) for b in r["m"]] if use_mask else [1] * A
            impl.append(str(a))
            ops.append(f"action ma {A} {frs(r['q'])} {bits(m)}" if use_mask else f"action amax {A} {frs(r['q'])}")
            _greedy_oracle(i, a, r["q"], m, A, problems, tags, algo)
        return impl, ops, problems, tags, resolved
    ag.actor.table = torch.tensor([r["q"] for r in rows], dtype=torch.float32)
    single = bool(case.get("single")) and B == 1
    obs = sample_obs(ag, algo, B, single, case.get("seed", 0))
    mask = np.array([r["m"] for r in rows], dtype=np.int64) if use_mask else None
    if mask is not None and single:
        mask = mask[0]
    seed_all(case.get("seed", 0))
    if algo == "RainbowDQN":
        out = np.asarray(ag.get_action(obs, action_mask=mask, training=bool(case.get("training", True))))
        explore = False
        u = rr = kk = None
        eps = 0.0
    else:  # CQN
        eps = case["eps"]
        inj_r = [r["r"] for r in rows] if all(r.get("r") is not None for r in rows) else None
        inj_k = [r["k"] for r in rows] if all(r.get("k") is not None for r in rows) else None
        with NumpyTap(u=case.get("u"), r=inj_r, k=inj_k) as tap:
            out = np.asarray(ag.get_action(obs, epsilon=eps, action_mask=mask))
        if len(tap.rec["u"]) != 1:
            return impl, ops, problems, ["draws-unobserved"], case
        u = tap.rec["u"][0]
        explore = u < eps
        rr = tap.rec["r"][-1] if tap.rec["r"] else None
        kk = tap.rec["k"][-1] if tap.rec["k"] else None
        if explore and ((use_mask and (rr is None or rr.shape != (B, A))) or (not use_mask and (kk is None or kk.shape != (B,)))):
            return impl, ops, problems, ["draws-unobserved"], case
        resolved = dict(case, u=float(u), rows=[
            dict(r, r=[float(x) for x in rr[i]] if (explore and use_mask) else r.get("r"),
                 k=int(kk[i]) if (explore and not use_mask) else r.get("k")) for i, r in enumerate(rows)])
    if out.shape != (B,):
        problems.append(f"{algo} batch of {B} observations -> action shape {out.shape}")
        return impl, ops, problems, tags, resolved
    for i, r in enumerate(rows):
        a, q = int(out[i]), r["q"]
        m = [int(b) for b in r["m"]] if use_mask else [1] * A
        impl.append(str(a))
        if algo == "RainbowDQN":
            ops.append(f"action ma {A} {frs(q)} {bits(m)}" if use_mask else f"action amax {A} {frs(q)}")
        elif use_mask:
            sc = rr[i] if explore else [0.0] * A
            ops.append(f"action cqn {A} {fr(eps)} {fr(u)} {frs(q)} {frs(sc)} {bits(m)}")
        else:
            ops.append(f"action cqn0 {A} {fr(eps)} {fr(u)} {int(kk[i]) if explore else 0} {frs(q)}")
        if not explore:
            tags.append("greedy")
            _greedy_oracle(i, a, q, m, A, problems, tags, algo)
        else:
            tags.append("explore")
            if not 0 <= a < A:
                problems.append(f"{algo} row {i}: index {a} outside Discrete({A})")
            elif use_mask and any(m):
                if any(m[j] and rr[i][j] > 0 for j in range(A)):
                    if not m[a]:
                        problems.append(f"{algo} row {i}: masked action {a} chosen while exploring (mask {m})")
                else:
                    tags.append("zero-draw")
    return impl, ops, problems, tags, resolved


def gen_ma(rng: random.Random, tier: str):
    cases = []
    reps = 1 if tier == "quick" else 12
    for algo in ("RainbowDQN", "CQN", "NeuralUCB", "NeuralTS"):
        for A in (1, 2, 3, 4, 5):
            for rep in range(reps):
                masks = all_masks(A)
                if algo in ("NeuralUCB", "NeuralTS") and tier == "quick" and A == 5:
                    masks = rng.sample(masks, 12)
                rows = [{"q": rand_q(rng, A), "m": m} for m in masks]
                rng.shuffle(rows)
                base = {"suite": "ma", "algo": algo, "A": A, "rows": rows, "seed": rng.randrange(1 << 30)}
                if algo == "CQN":
                    for eps in (0.0, 0.5, 1.0):
                        c = copy.deepcopy(base)
                        c["eps"] = eps
                        if rep % 2 == 0 or eps == 0.5:
                            c["u"] = rng.choice([0.0, 0.25, 0.5, 0.75])
                            for r in c["rows"]:
                                r["r"] = [rng.choice([0.0, 0.0, 0.125, 0.5, 0.5, 0.875]) for _ in range(A)]
                        cases.append(c)
                elif algo == "RainbowDQN":
                    cases.append(dict(base, training=bool(rep % 2 == 0)))
                    cases.append(dict(copy.deepcopy(base), training=bool(rep % 2)))
                else:
                    cases.append(base)
            # no mask
            rows = [{"q": rand_q(rng, A), "m": [1] * A} for _ in range(rng.randint(1, 4))]
            c = {"suite": "ma", "algo": algo, "A": A, "rows": rows, "seed": rng.randrange(1 << 30), "mask": False}
            if algo == "CQN":
                for eps in (0.0, 1.0):
                    cases.append(dict(copy.deepcopy(c), eps=eps))
            else:
                cases.append(c)
    return cases


# ============================================================================= suite madisc / macont
def madisc_agent(algo: str, A0: int, A1: int):
    from gymnasium import spaces

    def make():
        a = mk_agent(algo, "vector", [spaces.Discrete(A0), spaces.Discrete(A0), spaces.Discrete(A1)])
        for actor in a.actors:
            actor.head_net = Table()
        return a
    return cached((algo, "madisc", A0, A1), make)


def macont_agent(algo: str, bi: int, bj: int, act: str = "Tanh"):
    def make():
        ag = _agents()
        nc = ag.default_net_config(algo, "vector")
        nc["head_config"]["output_activation"] = act
        a = mk_agent(algo, "vector", [box(*BOUNDS[bi]), box(*BOUNDS[bi]), box(*BOUNDS[bj])], net_config=nc)
        for actor in a.actors:
            actor.head_net = Table()
        return a
    return cached((algo, "macont", bi, bj, act), make)


def rawmacont_agent(algo: str, bi: int, bj: int):
    """MADDPG / MATD3 whose actors are stubs (outputs not rescaled into the bounds)"""
    def make():
        a = mk_agent(algo, "vector", [box(*BOUNDS[bi]), box(*BOUNDS[bi]), box(*BOUNDS[bj])])
        for i in range(len(a.actors)):
            a.actors[i] = Table()
        return a
    return cached((algo, "rawmacont", bi, bj), make)


def reorder(d, order):
    """the same dict built in another key order (an environment whose agent list is ordered differently)"""
    if not order or d is None:
        return d
    return {k: d[k] for k in list(order) + [k for k in d if k not in order] if k in d}


def rand_order(rng: random.Random, share: float = 0.6):
    """None (agent_ids order) or a permutation of the three agent ids different from agent_ids order"""
    if rng.random() >= share:
        return None
    ids = ["agent_0", "agent_1", "other_0"]
    return rng.choice([p for p in map(list, itertools.permutations(ids)) if p != ids])


def _ma_infos(agent, rows, single, key_mask, key_env, discrete, extra_key=False):
    """build the `infos` dict the environment would return"""
    infos = {}
    any_env = any(r[aid].get("env") is not None for r in rows for aid in agent.agent_ids)
    for aid in agent.agent_ids:
        info = {}
        ms = [r[aid].get("m") for r in rows]
        if all(m is not None for m in ms):
            info[key_mask] = np.array(ms[0] if single else ms, dtype=np.int64)
        if any_env:
            es = [r[aid].get("env") for r in rows]
            if discrete:
                if single:
                    info[key_env] = None if es[0] is None else int(es[0])
                else:
                    info[key_env] = np.array([np.nan if e is None else float(e) for e in es])
            else:
                d = len(rows[0][aid]["h"])
                full = np.array([[np.nan if (e is None or e[j] is None) else e[j] for j in range(d)] for e in
                                 [x if x is not None else [None] * d for x in es]], dtype=np.float64)
                if single:
                    info[key_env] = None if es[0] is None else full[0]
                else:
                    info[key_env] = full
        if extra_key:
            info["step_count"] = 3          # an unrelated key, as real environments send
        infos[aid] = info
    return infos


def run_madisc(case):
    algo, rows, tr = case["algo"], case["rows"], bool(case["training"])
    A0, A1 = case["A"]
    ag = madisc_agent(algo, A0, A1)
    B = len(rows)
    single = bool(case.get("single")) and B == 1
    dims = {aid: (A1 if aid.startswith("other") else A0) for aid in ag.agent_ids}
    for aid, actor in zip(ag.agent_ids, ag.actors):
        actor.head_net.table = torch.tensor([r[aid]["p"] for r in rows], dtype=torch.float32)
    infos = reorder(_ma_infos(ag, rows, single, "action_mask", "env_defined_actions", True, bool(case.get("extra_key"))),
                    case.get("order"))
    obs = reorder(sample_obs(ag, algo, B, single, case.get("seed", 0)), case.get("obs_order"))
    inject = {i: case["noise"][aid] for i, aid in enumerate(ag.agent_ids)} if case.get("noise") else {}
    seed_all(case.get("seed", 0))
    with NoiseTap(ag, inject) as tap:
        cont, disc = ag.get_action(obs, training=tr, infos=infos)
    problems, tags, impl, ops = [], [f"madisc-{algo}"], [], []
    nm = sum(1 for aid in ag.agent_ids if rows[0][aid].get("m") is not None)
    tags.append("masks-all" if nm == 3 else "masks-none" if nm == 0 else "masks-partial")
    if case.get("order"):
        tags.append("infos-reordered")
    noise = {aid: (list(tap.rec[i]) if i in tap.rec else [0.0] * dims[aid]) for i, aid in enumerate(ag.agent_ids)}
    resolved = dict(case, noise={aid: [float(x) for x in noise[aid]] for aid in ag.agent_ids}) if tr else case
    if disc is None:
        problems.append(f"{algo}: discrete action dict is None for Discrete action spaces")
        return impl, ops, problems, tags, resolved
    for aid in ag.agent_ids:
        out = np.asarray(disc[aid])
        A = dims[aid]
        if out.shape[:1] != (B,) or out.size != B:
            problems.append(f"{algo} {aid}: batch of {B} -> discrete action shape {out.shape}")
            continue
        out = out.reshape(B)
        for b, r in enumerate(rows):
            a = int(out[b])
            m = [int(x) for x in r[aid]["m"]] if r[aid].get("m") is not None else [1] * A
            env = r[aid].get("env")
            impl.append(str(a))
            ops.append(f"action madisc {A} {int(tr)} {'_' if env is None else int(env)} {frs(r[aid]['p'])} "
                       f"{frs(noise[aid])} {bits(m)}")
            if not legal(ag.action_space[aid], out[b]):
                problems.append(f"{algo} {aid} env {b}: action {a} not in Discrete({A})")
            elif env is not None:
                tags.append("env-defined")
                if a != int(env):
                    problems.append(f"{algo} {aid} env {b}: env-defined action {env} not returned (got {a})")
            elif any(m) and not m[a]:
                problems.append(f"{algo} {aid} env {b}: masked action {a} chosen (mask {m}, training={tr})")
            elif any(m) and not tr:
                best = max(r[aid]["p"][j] for j in range(A) if m[j])
                if r[aid]["p"][a] < best:
                    problems.append(f"{algo} {aid} env {b}: action {a} is not the best allowed one")
    return impl, ops, problems, tags, resolved


def run_macont(case):
    algo, rows, tr, act = case["algo"], case["rows"], bool(case["training"]), case.get("act", "Tanh")
    bi, bj = case["bounds"]
    raw = bool(case.get("raw"))
    ag = rawmacont_agent(algo, bi, bj) if raw else macont_agent(algo, bi, bj, act)
    B = len(rows)
    single = bool(case.get("single")) and B == 1
    bnd = {aid: BOUNDS[bj if aid.startswith("other") else bi] for aid in ag.agent_ids}
    for aid, actor in zip(ag.agent_ids, ag.actors):
        (actor if raw else actor.head_net).table = torch.tensor([r[aid]["h"] for r in rows], dtype=torch.float32)
    infos = reorder(_ma_infos(ag, rows, single, "action_mask", "env_defined_actions", False), case.get("order"))
    obs = reorder(sample_obs(ag, algo, B, single, case.get("seed", 0)), case.get("obs_order"))
    inject = {i: case["noise"][aid] for i, aid in enumerate(ag.agent_ids)} if case.get("noise") else {}
    seed_all(case.get("seed", 0))
    with NoiseTap(ag, inject) as tap:
        cont, disc = ag.get_action(obs, training=tr, infos=infos)
    problems, tags, impl, ops = [], [f"macont-{algo}"] + (["raw-actor"] if raw else []), [], []
    noise = {aid: (list(tap.rec[i]) if i in tap.rec else [0.0] * len(bnd[aid][0])) for i, aid in enumerate(ag.agent_ids)}
    resolved = dict(case, noise={aid: [float(x) for x in noise[aid]] for aid in ag.agent_ids}) if tr else case
    for aid in ag.agent_ids:
        lo, hi = bnd[aid]
        d = len(lo)
        out = np.asarray(cont[aid])
        if out.shape != (B, d):
            problems.append(f"{algo} {aid}: batch of {B} -> action shape {out.shape}, expected {(B, d)}")
            continue
        for b, r in enumerate(rows):
            env = r[aid].get("env") or [None] * d
            impl.append(frs(out[b]))
            ops.append((f"action macont {d} 1 {int(tr)} " if raw else f"action macontact {act} {d} 1 {int(tr)} ")
                       + f"{frs(lo)} {frs(hi)} {frs(r[aid]['h'])} {frs(noise[aid])} "
                       + " ".join("_" if e is None else fr(e) for e in env))
            if not legal(ag.action_space[aid], out[b]):
                problems.append(f"{algo} {aid} env {b}: action {out[b].tolist()} not in Box(low={lo}, high={hi}) "
                                f"(training={tr})")
            for j, e in enumerate(env):
                if e is not None:
                    tags.append("env-defined")
                    if float(out[b][j]) != float(np.float32(e)):
                        problems.append(f"{algo} {aid} env {b}: env-defined value {e} not returned in dim {j}")
    return impl, ops, problems, tags, resolved


def gen_ma_multi(rng: random.Random, tier: str):
    cases = []
    n = 10 if tier == "quick" else 100
    for algo in ("MADDPG", "MATD3"):
        for it in range(n):
            A0, A1 = rng.choice([(3, 2), (2, 4), (5, 3)]) if tier != "quick" else rng.choice([(3, 2), (4, 3)])
            single = rng.random() < 0.35
            B = 1 if single else rng.randint(2, 4)
            tr = it % 2 == 0
            with_env = rng.random() < 0.5
            # which agents report a mask: all / none / a random non-empty strict subset (the others send an
            # empty info dict or one with unrelated keys only)
            mode = rng.random()
            names = ["agent_0", "agent_1", "other_0"]
            masked = set(names) if mode < 0.3 else set() if mode < 0.4 else set(rng.sample(names, rng.choice([1, 2])))
            rows = []
            for _ in range(B):
                row = {}
                for aid, A in (("agent_0", A0), ("agent_1", A0), ("other_0", A1)):
                    p = [rng.choice([0.0, 0.125, 0.25, 0.25, 0.5, 1.0]) for _ in range(A)]
                    m = rng.choice(all_masks(A)[1:]) if aid in masked else None
                    env = None
                    if with_env and rng.random() < 0.5:
                        allowed = [j for j in range(A) if m is None or m[j]]
                        env = rng.choice(allowed)
                    row[aid] = {"p": p, "m": m, "env": env}
                rows.append(row)
            noise = None
            if tr and it % 4 == 0:
                noise = {aid: [rng.choice([-0.5, -0.125, 0.0, 0.125, 0.5, 2.0]) for _ in range(A)]
                         for aid, A in (("agent_0", A0), ("agent_1", A0), ("other_0", A1))}
            cases.append({"suite": "madisc", "algo": algo, "A": [A0, A1], "rows": rows, "training": tr,
                          "single": single, "noise": noise, "seed": rng.randrange(1 << 30),
                          "extra_key": rng.random() < 0.5, "order": rand_order(rng), "obs_order": rand_order(rng, 0.3)})
        # every agent reports its own, different mask; the infos dict is built in an order other than agent_ids
        for tr in (False, True):
            for order in (["other_0", "agent_1", "agent_0"], ["agent_1", "other_0", "agent_0"], ["agent_1", "agent_0", "other_0"]):
                single = rng.random() < 0.5
                rows = []
                for _ in range(1 if single else 2):
                    row = {}
                    for k, (aid, A) in enumerate((("agent_0", 4), ("agent_1", 4), ("other_0", 4))):
                        best = rng.randrange(A)
                        p = [1.0 if j == best else rng.choice([0.0, 0.125, 0.25]) for j in range(A)]
                        allowed = (best + 1 + k) % A                       # one allowed action, different per agent
                        row[aid] = {"p": p, "m": [1 if j == allowed else 0 for j in range(A)], "env": None}
                    rows.append(row)
                noise = {a: [0.0] * 4 for a in ("agent_0", "agent_1", "other_0")} if tr else None
                cases.append({"suite": "madisc", "algo": algo, "A": [4, 4], "rows": rows, "training": tr, "single": single,
                              "noise": noise, "seed": rng.randrange(1 << 30), "order": order,
                              "obs_order": rand_order(rng, 0.3)})
        # partial masks where the masked agents' preferred action is a masked one, evaluation and training mode
        for tr in (False, True):
            for who in (["agent_0"], ["agent_1", "other_0"], ["other_0"], ["agent_0", "agent_1"]):
                single = rng.random() < 0.5
                rows = []
                for _ in range(1 if single else 2):
                    row = {}
                    for aid, A in (("agent_0", 4), ("agent_1", 4), ("other_0", 3)):
                        best = rng.randrange(A)
                        p = [1.0 if j == best else rng.choice([0.0, 0.125, 0.25]) for j in range(A)]
                        m = None
                        if aid in who:
                            m = [0 if j == best else rng.choice([0, 1]) for j in range(A)]
                            if not any(m):
                                m[(best + 1) % A] = 1
                        row[aid] = {"p": p, "m": m, "env": None}
                    rows.append(row)
                noise = {"agent_0": [0.0] * 4, "agent_1": [0.0, 0.125, 0.0, -0.125], "other_0": [0.0] * 3} if tr else None
                cases.append({"suite": "madisc", "algo": algo, "A": [4, 3], "rows": rows, "training": tr, "single": single,
                              "noise": noise, "seed": rng.randrange(1 << 30), "extra_key": rng.random() < 0.5,
                              "order": rand_order(rng, 0.5)})
        for it in range(n):
            bi, bj = rng.choice(MA_BOUND_PAIRS) if tier != "quick" else rng.choice([(0, 2), (2, 0)])
            act = "Tanh" if (tier == "quick" or it % 3) else rng.choice(["Sigmoid", "Softsign"])
            pmin, pmax = PRESCALED[act]
            single = rng.random() < 0.35
            B = 1 if single else rng.randint(2, 4)
            tr = it % 2 == 0
            with_env = rng.random() < 0.4
            rows = []
            for _ in range(B):
                row = {}
                for aid in ("agent_0", "agent_1", "other_0"):
                    lo, hi = BOUNDS[bj if aid.startswith("other") else bi]
                    d = len(lo)
                    h = [pmin + (pmax - pmin) * rng.choice([0, 0, 1, 2, 4, 6, 8, 8]) / 8 for _ in range(d)]
                    env = None
                    if with_env and rng.random() < 0.5:
                        env = [(lo[j] + (hi[j] - lo[j]) * rng.choice([0, 1, 2, 4]) / 4) if rng.random() < 0.7 else None
                               for j in range(d)]
                        if single and any(e is None for e in env):
                            pass
                    row[aid] = {"h": h, "env": env}
                rows.append(row)
            noise = None
            if tr and it % 4 == 0:
                noise = {aid: [rng.choice([-16.0, -0.5, -0.125, 0.0, 0.125, 0.5, 16.0])
                               for _ in BOUNDS[bj if aid.startswith("other") else bi][0]]
                         for aid in ("agent_0", "agent_1", "other_0")}
            cases.append({"suite": "macont", "algo": algo, "bounds": [bi, bj], "act": act, "rows": rows,
                          "training": tr, "single": single, "noise": noise, "seed": rng.randrange(1 << 30),
                          "order": rand_order(rng, 0.5), "obs_order": rand_order(rng, 0.3)})
        # actors stubbed as a whole with outputs outside the bounds (what user-supplied actor networks may return):
        # only get_action's own clamp keeps the action legal, in training and in evaluation mode
        # (a failure in evaluation mode is the analysed defect C14-ma-eval-raw-actor-output)
        for it in range(4 if tier == "quick" else 24):
            bi, bj = rng.choice(MA_BOUND_PAIRS)
            single = rng.random() < 0.35
            rows = []
            for _ in range(1 if single else rng.randint(2, 3)):
                row = {}
                for aid in ("agent_0", "agent_1", "other_0"):
                    lo, hi = BOUNDS[bj if aid.startswith("other") else bi]
                    row[aid] = {"h": [rng.choice([-BIG, lo[j] - 16.0, lo[j] - 0.5, lo[j], (lo[j] + hi[j]) / 2, hi[j],
                                                  hi[j] + 0.125, hi[j] + 16.0, BIG]) for j in range(len(lo))], "env": None}
                rows.append(row)
            tr = it % 2 == 1
            noise = {aid: [rng.choice([-0.5, 0.0, 0.125]) for _ in BOUNDS[bj if aid.startswith("other") else bi][0]]
                     for aid in ("agent_0", "agent_1", "other_0")} if tr else None
            cases.append({"suite": "macont", "algo": algo, "bounds": [bi, bj], "act": "None", "raw": True, "rows": rows,
                          "training": tr, "single": single, "noise": noise, "seed": rng.randrange(1 << 30)})
    return cases


# ============================================================================= suite cont (DDPG / TD3) and rescale
def rawcont_agent(algo: str, bi: int):
    """DDPG / TD3 whose whole actor is a stub: its output is NOT rescaled into the bounds"""
    def make():
        a = mk_agent(algo, "vector", box(*BOUNDS[bi]))
        a.actor = Table()
        return a
    return cached((algo, "rawcont", bi), make)


def custom_mlp(n_in: int, n_out: int, act):
    from agilerl.modules.mlp import EvolvableMLP
    return EvolvableMLP(num_inputs=n_in, num_outputs=n_out, hidden_size=[8], output_activation=act, min_mlp_nodes=8)


def custom_agent(algo: str, bi: int, act, bj: int = 0):
    """real agent built from user-supplied actor / critic networks (public `actor_network(s)=` arguments):
    the actor is a plain EvolvableMLP, so its output (Tanh: [-1,1]; None: unbounded) is not rescaled onto the Box"""
    def make():
        ag = _agents()
        cls = ag.algo_class(algo)
        ob = ag.obs_space("vector")
        ag.seed_all(bi)
        if algo in ("DDPG", "TD3"):
            sp = box(*BOUNDS[bi])
            d = len(BOUNDS[bi][0])
            kw = {"critic_network": custom_mlp(4 + d, 1, None)} if algo == "DDPG" else \
                {"critic_networks": [custom_mlp(4 + d, 1, None), custom_mlp(4 + d, 1, None)]}
            return cls(ob, sp, actor_network=custom_mlp(4, d, act), device="cpu", **kw)
        sps = [box(*BOUNDS[bi]), box(*BOUNDS[bi]), box(*BOUNDS[bj])]
        dims = [len(BOUNDS[bi][0]), len(BOUNDS[bi][0]), len(BOUNDS[bj][0])]
        tot = 3 * 4 + sum(dims)
        crit = [custom_mlp(tot, 1, None) for _ in dims]
        kw = {"critic_networks": crit} if algo == "MADDPG" else \
            {"critic_networks": [crit, [custom_mlp(tot, 1, None) for _ in dims]]}
        return cls(observation_spaces=[ob] * 3, action_spaces=sps, agent_ids=list(ag.AGENT_IDS),
                   actor_networks=[custom_mlp(4, d, act) for d in dims], device="cpu", **kw)
    return cached((algo, "custom", bi, bj, act), make)


def cont_agent(algo: str, bi: int, act: str, ou: bool = False):
    def make():
        ag = _agents()
        nc = ag.default_net_config(algo, "vector")
        nc["head_config"]["output_activation"] = act
        a = mk_agent(algo, "vector", box(*BOUNDS[bi]), net_config=nc, O_U_noise=ou)
        assert a.actor.output_activation == act, a.actor.output_activation
        a.actor.head_net = Table()
        return a
    return cached((algo, "cont", bi, act, ou), make)


def run_cont(case):
    algo, rows, tr, act, bi = case["algo"], case["rows"], bool(case["training"]), case["act"], case["bounds"]
    raw = bool(case.get("raw"))
    lo, hi = BOUNDS[bi]
    d, B = len(lo), len(rows)
    single = bool(case.get("single")) and B == 1
    if raw:     # the whole actor is stubbed: `h` is the actor's output itself, possibly far outside the bounds
        ag = rawcont_agent(algo, bi)
        ag.actor.table = torch.tensor([r["h"] for r in rows], dtype=torch.float32)
    else:
        ag = cont_agent(algo, bi, act, bool(case.get("ou")))
        ag.actor.head_net.table = torch.tensor([r["h"] for r in rows], dtype=torch.float32)
    obs = sample_obs(ag, algo, B, single, case.get("seed", 0))
    inject = {0: case["noise"]} if case.get("noise") is not None else {}
    seed_all(case.get("seed", 0))
    with NoiseTap(ag, inject) as tap:
        out = np.asarray(ag.get_action(obs, training=tr))
    noise = list(tap.rec[0]) if 0 in tap.rec else [0.0] * d
    resolved = dict(case, noise=[float(x) for x in noise]) if tr else case
    problems, tags, impl, ops = [], [f"cont-{algo}", "raw-actor" if raw else f"act-{act}"], [], []
    if out.shape != (B, d):
        problems.append(f"{algo}: batch of {B} -> action shape {out.shape}, expected {(B, d)}")
        return impl, ops, problems, tags, resolved
    if len(noise) != d:
        return impl, ops, problems, ["draws-unobserved"], case
    for b, r in enumerate(rows):
        impl.append(frs(out[b]))
        if raw:
            ops.append(f"action ddpg {d} {int(tr)} {frs(lo)} {frs(hi)} {frs(r['h'])} {frs(noise)}")
        else:
            ops.append(f"action ddpgact {act} {d} {int(tr)} {frs(lo)} {frs(hi)} {frs(r['h'])} {frs(noise)}")
        if not legal(ag.action_space, out[b]):
            problems.append(f"{algo} row {b}: action {out[b].tolist()} not in Box(low={lo}, high={hi}) (training={tr})")
    return impl, ops, problems, tags, resolved


def run_rescale(case):
    from agilerl.networks.actors import DeterministicActor
    act, lo, hi, rows = case["act"], case["lo"], case["hi"], case["rows"]
    d = len(lo)
    t = lambda xs: torch.tensor([float("inf") if x == "inf" else float("-inf") if x == "-inf" else x for x in xs],
                                dtype=torch.float32)
    out = DeterministicActor.rescale_action(torch.tensor(rows, dtype=torch.float32), t(lo), t(hi), act).numpy()
    problems, impl, ops = [], [], []
    wire = act if act in ACTS else "None"
    finite = all(isinstance(x, float) for x in lo + hi)
    for b, r in enumerate(rows):
        impl.append(frs(out[b]))
        ops.append(f"action rescale {wire} {d} " + " ".join(x if isinstance(x, str) else fr(x) for x in lo) + " "
                   + " ".join(x if isinstance(x, str) else fr(x) for x in hi) + " " + frs(r))
        if finite and act in ACTS:
            pmin, pmax = PRESCALED[act]
            if all(pmin <= x <= pmax for x in r) and not all(lo[j] <= out[b][j] <= hi[j] for j in range(d)):
                problems.append(f"rescale_action({act}) of {r} -> {out[b].tolist()} outside [{lo}, {hi}]")
    return impl, ops, problems, [f"rescale-{act}", "rescale-finite" if finite else "rescale-inf"], case


def gen_cont(rng: random.Random, tier: str):
    cases = []
    n = 8 if tier == "quick" else 80
    for algo in ("DDPG", "TD3"):
        for it in range(n):
            act = ["Tanh", "Sigmoid", "Softsign", "Tanh"][it % 4]
            bi = rng.randrange(len(BOUNDS)) if tier != "quick" else rng.choice([0, 2])
            pmin, pmax = PRESCALED[act]
            single = rng.random() < 0.3
            B = 1 if single else rng.randint(2, 5)
            d = len(BOUNDS[bi][0])
            rows = [{"h": [pmin + (pmax - pmin) * rng.choice([0, 0, 1, 2, 4, 6, 8, 8]) / 8 for _ in range(d)]}
                    for _ in range(B)]
            for tr in (False, True):
                for inj in ((None,) if not tr else (None, "dyadic")):
                    noise = None
                    if inj:
                        noise = [rng.choice([-16.0, -0.5, -0.125, 0.0, 0.125, 0.5, 16.0]) for _ in range(d)]
                    cases.append({"suite": "cont", "algo": algo, "act": act, "bounds": bi, "rows": copy.deepcopy(rows),
                                  "training": tr, "noise": noise, "single": single, "ou": bool(it % 5 == 4),
                                  "seed": rng.randrange(1 << 30)})
    # the whole actor stubbed with outputs outside the bounds (what a user-supplied actor network may return):
    # only get_action's own clip keeps the action legal, in evaluation mode too
    for algo in ("DDPG", "TD3"):
        for it in range(6 if tier == "quick" else 40):
            bi = rng.randrange(len(BOUNDS))
            lo, hi = BOUNDS[bi]
            single = rng.random() < 0.3
            B = 1 if single else rng.randint(2, 4)
            rows = [{"h": [rng.choice([-BIG, lo[j] - 16.0, lo[j] - 0.5, lo[j], (lo[j] + hi[j]) / 2, hi[j], hi[j] + 0.125,
                                       hi[j] + 16.0, BIG]) for j in range(len(lo))]} for _ in range(B)]
            tr = it % 3 == 2
            noise = [rng.choice([-0.5, 0.0, 0.125, 16.0]) for _ in lo] if tr else None
            cases.append({"suite": "cont", "algo": algo, "act": "None", "raw": True, "bounds": bi, "rows": rows,
                          "training": tr, "noise": noise, "single": single, "seed": rng.randrange(1 << 30)})
    n = 21 if tier == "quick" else 210
    for it in range(n):
        act = (ACTS + [None, "ReLU"])[it % 7]
        lo, hi = copy.deepcopy(rng.choice(BOUNDS))
        if it % 5 == 4:
            j = rng.randrange(len(lo))
            if rng.random() < 0.5:
                lo[j] = "-inf"
            else:
                hi[j] = "inf"
        pmin, pmax = PRESCALED.get(act, (-4.0, 4.0))
        rows = [[pmin + (pmax - pmin) * rng.choice([0, 1, 2, 3, 4, 5, 6, 7, 8]) / 8 for _ in lo] for _ in range(3)]
        cases.append({"suite": "rescale", "act": act, "lo": lo, "hi": hi, "rows": rows})
    return cases


# ============================================================================= suite pg (PPO / IPPO)
def pg_agent(algo: str, key, make_spaces, squash: bool = False):
    def make():
        ag = _agents()
        nc = ag.default_net_config(algo, "vector")
        if squash:
            nc["squash_output"] = True
        a = mk_agent(algo, "vector", make_spaces(), net_config=nc)
        actors = a.actors if algo == "IPPO" else [a.actor]
        for actor in actors:
            hn, stub = actor.head_net, Table()
            # `wrapped` is a read-only property over the registered sub-module `_wrapped`
            setattr(hn, "_wrapped" if "_wrapped" in hn._modules else "wrapped", stub)
            if hn.wrapped is not stub:
                raise InfraError("C14: cannot stub the logits network of EvolvableDistribution")
        return a
    return cached((algo, "pg", key, squash), make)


def run_pgbox(case):
    """evaluation-mode Box actions of PPO / IPPO: returned action = clip / scale_action of the recorded sample"""
    from agilerl.networks.distributions import TorchDistribution
    algo, rows, bi, squash = case["algo"], case["rows"], case["bounds"], bool(case.get("squash"))
    table = BOUNDS_IPPO if algo == "IPPO" else BOUNDS
    lo, hi = table[bi]
    d, B = len(lo), len(rows)
    single = bool(case.get("single")) and B == 1
    bj = case.get("bounds_other", bi)            # IPPO: the group `other` may live in a different Box
    lo_o, hi_o = table[bj]
    if algo == "IPPO":
        ag = pg_agent(algo, ("box", bi, bj), lambda: [box(lo, hi), box(lo, hi), box(lo_o, hi_o)], squash)
        ag.actors[0].head_net.wrapped.table = torch.tensor([r["mu"] for r in rows] * 2, dtype=torch.float32)
        ag.actors[1].head_net.wrapped.table = torch.tensor([r.get("mu_o", r["mu"]) for r in rows], dtype=torch.float32)
    else:
        ag = pg_agent(algo, ("box", bi), lambda: box(lo, hi), squash)
        ag.actor.head_net.wrapped.table = torch.tensor([r["mu"] for r in rows], dtype=torch.float32)
    obs = sample_obs(ag, algo, B, single, case.get("seed", 0))
    problems, tags, impl, ops = [], [f"pgbox-{algo}", "squash" if squash else "clip"], [], []
    if algo == "IPPO" and bj != bi:
        tags.append("bounds-per-group")
    ag.set_training_mode(False)
    seed_all(case.get("seed", 0))
    try:
        with MethodTap(TorchDistribution, "sample") as tap:
            try:
                out = ag.get_action(obs)[0]
            except TypeError as e:
                if squash:
                    return impl, ops, [f"PPO-EVAL-SQUASH {algo}.get_action in evaluation mode with squash_output=True "
                                       f"raises TypeError: {e}"], tags, case
                raise
    finally:
        ag.set_training_mode(True)
    samples = [np.asarray(o.detach().cpu().numpy(), dtype=np.float32) for _, _, o in tap.rec]
    groups = [("agent", ["agent_0", "agent_1"]), ("other", ["other_0"])] if algo == "IPPO" else [(None, [None])]
    if len(samples) != len(groups):
        return impl, ops, problems, ["draws-unobserved"], case
    for (gname, members), smp in zip(groups, samples):
        got = []
        glo, ghi = (lo_o, hi_o) if gname == "other" else (lo, hi)
        gd = len(glo)
        for aid in members:
            o = np.asarray(out[aid] if aid is not None else out)
            if o.shape != (B, gd):
                problems.append(f"{algo} {aid or ''}: batch of {B} -> action shape {o.shape}, expected {(B, gd)}")
                continue
            if not isinstance(o, np.ndarray):
                problems.append(f"{algo}: action is a {type(o).__name__}, not a numpy array")
            for b in range(B):
                space = ag.action_space[aid] if aid is not None else ag.action_space
                if not legal(space, o[b]):
                    problems.append(f"{algo} {aid or ''} row {b}: evaluation-mode action {o[b].tolist()} not in "
                                    f"its own Box(low={glo}, high={ghi})")
                got.append(frs(o[b]))
        if smp.shape != (B * len(members), gd):
            return impl, ops, problems, ["draws-unobserved"], case
        # rows of one homogeneous group are compared as a multiset (which agent gets which row is C15's business)
        impl.append("|".join(sorted(got, key=parse_rats)))
        ops.append([f"action pgeval {gd} {int(squash)} {frs(glo)} {frs(ghi)} {frs(s)}" for s in smp])
    return impl, ops, problems, tags, case


def run_pgmask(case):
    """masked logits of PPO / IPPO and legality of the sampled action under the mask"""
    from gymnasium import spaces
    from agilerl.networks.distributions import EvolvableDistribution
    algo, kind, rows = case["algo"], case["kind"], case["rows"]
    B = len(rows)
    single = bool(case.get("single")) and B == 1
    mk = {"discrete": lambda: spaces.Discrete(case["n"]), "multidiscrete": lambda: spaces.MultiDiscrete(case["n"]),
          "multibinary": lambda: spaces.MultiBinary(case["n"])}[kind]
    nkey = json.dumps(case["n"])
    if algo == "IPPO":
        ag = pg_agent(algo, (kind, nkey), lambda: [mk(), mk(), mk()])
        ag.actors[0].head_net.wrapped.table = torch.tensor([r["l"] for r in rows] + [r["l"] for r in rows],
                                                           dtype=torch.float32)
        ag.actors[1].head_net.wrapped.table = torch.tensor([r["l"] for r in rows], dtype=torch.float32)
    else:
        ag = pg_agent(algo, (kind, nkey), mk)
        ag.actor.head_net.wrapped.table = torch.tensor([r["l"] for r in rows], dtype=torch.float32)
    W = len(rows[0]["l"])
    obs = sample_obs(ag, algo, B, single, case.get("seed", 0))
    masks = np.array([r["m"] for r in rows], dtype=np.int64)
    problems, tags, impl, ops = [], [f"pgmask-{algo}-{kind}"], [], []
    mgroups = [g for g in ("agent", "other") if g in case.get("mask_groups", ["agent", "other"])]   # groups reporting masks
    if algo == "IPPO" and len(mgroups) == 1:
        tags.append("masks-partial")
    if algo == "IPPO" and case.get("order"):
        tags.append("infos-reordered")

    def mrow(aid, r):           # agent_1 may have a mask of its own, different from agent_0's
        return r["m1"] if (aid == "agent_1" and r.get("m1") is not None) else r["m"]
    seed_all(case.get("seed", 0))
    with MethodTap(EvolvableDistribution, "apply_mask") as tap:
        outs = []
        for rep in range(case.get("samples", 3)):
            if algo == "IPPO":
                # IPPO wants all-or-none masks inside a homogeneous group; groups may differ
                infos = {}
                for aid in ag.agent_ids:
                    am = np.array([mrow(aid, r) for r in rows], dtype=np.int64)
                    infos[aid] = {"action_mask": (am[0] if single else am)} if aid.rsplit("_", 1)[0] in mgroups else {}
                outs.append(ag.get_action(reorder(obs, case.get("obs_order")), infos=reorder(infos, case.get("order")))[0])
            else:
                outs.append(ag.get_action(obs, action_mask=masks[0] if single else masks)[0])
    if not tap.rec:
        return impl, ops, problems, ["draws-unobserved"], case
    # correspondence: the masked logits of the first call(s)
    ncalls = len(mgroups) if algo == "IPPO" else 1
    if len(tap.rec) != ncalls * case.get("samples", 3):
        return impl, ops, problems, ["draws-unobserved"], case
    for ci in range(ncalls):
        ml = np.asarray(tap.rec[ci][2].detach().cpu().numpy(), dtype=np.float32)
        reps = ml.shape[0] // B
        if ml.shape != (B * reps, W):
            return impl, ops, problems, ["draws-unobserved"], case
        members = [None] if algo != "IPPO" else (["agent_0", "agent_1"] if mgroups[ci] == "agent" else ["other_0"])
        if reps != len(members):
            return impl, ops, problems, ["draws-unobserved"], case
        for k in range(reps):
            for b, r in enumerate(rows):
                own = mrow(members[k], r)
                impl.append(frs(ml[k * B + b]))
                ops.append(f"action pgmask {W} {frs(r['l'])} {bits(own)}")
                # oracle: exactly the logits this agent's own mask forbids are pushed down
                pushed = [int(ml[k * B + b][j] != np.float32(r["l"][j])) for j in range(W)]
                if any(pushed[j] and own[j] for j in range(W)) or any((not own[j]) and not pushed[j] and r["l"][j] > -1e8 for j in range(W)):
                    problems.append(f"{algo} {members[k] or ''} row {b}: logits masked at {[j for j in range(W) if pushed[j]]} but "
                                    f"the agent's own mask is {own}")
    # oracle on the sampled actions
    for out in outs:
        for aid in (ag.agent_ids if algo == "IPPO" else [None]):
            o = np.asarray(out[aid] if aid is not None else out)
            space = ag.action_space[aid] if aid is not None else ag.action_space
            if o.shape[0] != B:
                problems.append(f"{algo} {aid or ''}: batch of {B} -> action shape {o.shape}")
                continue
            has_mask = aid is None or aid.rsplit("_", 1)[0] in mgroups
            for b, r in enumerate(rows):
                m = mrow(aid, r)
                if not legal(space, o[b]):
                    problems.append(f"{algo} {aid or ''} row {b}: {o[b].tolist()} not in {space}")
                    continue
                if not has_mask:
                    continue
                a = np.asarray(o[b]).reshape(-1).astype(int)
                if kind == "discrete":
                    if any(m) and not m[a[0]]:
                        problems.append(f"{algo} {aid or ''} row {b}: masked action {a[0]} sampled (mask {m}, logits {r['l']})")
                elif kind == "multidiscrete":
                    off = 0
                    for j, nv in enumerate(case["n"]):
                        sub = m[off:off + nv]
                        if any(sub) and not sub[a[j]]:
                            problems.append(f"{algo} {aid or ''} row {b}: masked sub-action {j}:{a[j]} sampled (mask {sub})")
                        off += nv
                else:
                    for j in range(len(m)):
                        if not m[j] and a[j] != 0:
                            problems.append(f"{algo} {aid or ''} row {b}: masked bit {j} set (mask {m})")
    return impl, ops, problems, tags, case


def gen_pg(rng: random.Random, tier: str):
    cases = []
    n = 6 if tier == "quick" else 60
    for algo in ("PPO", "IPPO"):
        table = BOUNDS_IPPO if algo == "IPPO" else BOUNDS
        for it in range(n):
            bi = rng.randrange(len(table))
            lo, hi = table[bi]
            single = rng.random() < 0.3
            B = 1 if single else rng.randint(2, 4)
            pick = lambda l, h: [rng.choice([-BIG, -16.0, l[j], (l[j] + h[j]) / 2, h[j], 16.0, BIG]) for j in range(len(l))]
            rows = [{"mu": pick(lo, hi)} for _ in range(B)]
            c = {"suite": "pgbox", "algo": algo, "bounds": bi, "rows": rows, "single": single, "seed": rng.randrange(1 << 30)}
            if algo == "IPPO" and it % 3 != 2:
                # the two-member group `agent` and the group `other` act in different Boxes
                bj = rng.choice([k for k in range(len(table)) if k != bi])
                if it % 3 == 0:                      # same dimension, different bounds
                    bi, bj = rng.choice([(1, 3), (3, 1)])
                    c["bounds"] = bi
                    for r in rows:
                        r["mu"] = pick(*table[bi])
                c["bounds_other"] = bj
                for r in rows:
                    r["mu_o"] = pick(*table[bj])
            cases.append(c)
        for it in range(n):
            kind = ["discrete", "multidiscrete", "multibinary"][it % 3]
            nn_ = {"discrete": rng.choice([2, 3, 5]), "multidiscrete": rng.choice([[2, 3], [3, 2, 2]]),
                   "multibinary": rng.choice([2, 3])}[kind]
            W = nn_ if isinstance(nn_, int) else sum(nn_)
            single = rng.random() < 0.3
            B = 1 if single else rng.randint(2, 4)
            rows = []
            for _ in range(B):
                if kind == "multidiscrete":
                    m = sum((rng.choice(all_masks(k)[1:]) for k in nn_), [])
                elif kind == "discrete":
                    m = rng.choice(all_masks(W)[1:])
                else:
                    m = rng.choice(all_masks(W))
                rows.append({"l": [rng.choice([-BIG, -3.0, 0.0, 0.0, 1.0, 7.0, BIG]) for _ in range(W)], "m": m})
            c = {"suite": "pgmask", "algo": algo, "kind": kind, "n": nn_, "rows": rows, "single": single,
                 "seed": rng.randrange(1 << 30)}
            if algo == "IPPO":
                c["mask_groups"] = [["agent", "other"], ["agent"], ["other"]][it % 3 if it >= 3 else 0]
                # agent_1 reports a mask different from agent_0's; the dicts come in another order than agent_ids
                for r in rows:
                    m1 = [1 - x for x in r["m"]]
                    if kind == "multidiscrete":
                        off = 0
                        for k in nn_:
                            if not any(m1[off:off + k]):
                                m1[off] = 1
                            off += k
                    elif kind == "discrete" and not any(m1):
                        m1 = list(r["m"])
                    r["m1"] = m1
                c["order"], c["obs_order"] = rand_order(rng, 0.7), rand_order(rng, 0.3)
            cases.append(c)
    # PPO with a squashing actor, evaluation mode (scale_action)
    for it in range(2 if tier == "quick" else 20):
        bi = rng.randrange(len(BOUNDS))
        lo, hi = BOUNDS[bi]
        rows = [{"mu": [rng.choice([-16.0, -1.0, 0.0, 0.5, 16.0]) for _ in lo]} for _ in range(rng.randint(1, 3))]
        cases.append({"suite": "pgbox", "algo": "PPO", "bounds": bi, "rows": rows, "squash": True,
                      "seed": rng.randrange(1 << 30)})
    return cases


# ============================================================================= dispatcher, diff, shrinking
RUNNERS = {"dqn": run_dqn, "ma": run_ma, "madisc": run_madisc, "macont": run_macont, "cont": run_cont,
           "rescale": run_rescale, "pgbox": run_pgbox, "pgmask": run_pgmask}
EXACT = {"dqn", "ma", "madisc", "pgmask"}


def close(a: str, b: str, exact: bool) -> bool:
    if a == b:
        return True
    if exact:
        return False
    try:
        xs, ys = parse_rats(a), parse_rats(b)
    except (ValueError, ZeroDivisionError):
        return False
    return len(xs) == len(ys) and all(abs(x - y) <= TOL * max(1, abs(x), abs(y)) for x, y in zip(xs, ys))


def one_case(chk: Check, case):
    """-> (diff index or None, oracle problems, tags, impl lines, model lines, resolved case)"""
    try:
        impl, ops, problems, tags, resolved = RUNNERS[case["suite"]](case)
    except InfraError:
        raise
    except Exception as e:  # the implementation raised on a legal input
        return None, [f"implementation raised {type(e).__name__}: {e}"], ["raised"], [], [], case
    if "draws-unobserved" in tags:
        return None, problems, tags, [], [], resolved
    grouped = bool(ops) and isinstance(ops[0], list)
    flat = [o for g in ops for o in g] if grouped else ops
    out = chk.driver.run(["reset"] + flat)[1:] if flat else []
    chk.corr["model_lines"] += len(flat)
    if grouped:
        model, k = [], 0
        for g in ops:
            model.append("|".join(sorted(out[k:k + len(g)], key=parse_rats)))
            k += len(g)
    else:
        model = out
    # a case is exact when every draw was prescribed dyadic (or there is none); otherwise a stated tolerance
    exact = case["suite"] in EXACT or (case["suite"] in ("cont", "macont") and (not case.get("training") or case.get("noise") is not None)) \
        or (case["suite"] == "rescale") or (case["suite"] == "pgbox" and not case.get("squash"))
    diff = None
    if len(impl) != len(model):
        diff = min(len(impl), len(model))
    else:
        for i, (a, b) in enumerate(zip(impl, model)):
            if grouped and not exact:
                ok = len(a.split("|")) == len(b.split("|")) and all(close(x, y, False) for x, y in zip(a.split("|"), b.split("|")))
            else:
                ok = close(a, b, exact)
            if not ok:
                diff = i
                break
    return diff, problems, tags, impl, model, resolved


def shrink(chk: Check, case, want_problem: bool):
    """ddmin over the batch rows of the (resolved) case"""
    rows = case.get("rows")
    if not isinstance(rows, list) or len(rows) < 2:
        return case

    def fails(sub):
        c = dict(case, rows=sub, single=False)
        d, p, *_ = one_case(chk, c)
        return bool(p) if want_problem else d is not None
    small = ddmin(rows, fails)
    return dict(case, rows=small, single=False) if len(small) < len(rows) else case


FINDINGS = {
    "C14-ppo-eval-squash-typeerror": "PPO.get_action in evaluation mode with squash_output=True multiplies a numpy action by "
                                     "torch bounds (StochasticActor.scale_action) -> TypeError, no action is returned",
    "C14-ppo-box1-extra-axis": "PPO.get_action unsqueezes actions of a Box of shape (1,): a batch of B observations gives "
                               "shape (B, 1, 1); a row is not a member of the space",
    "C14-ippo-numpy-mask-valueerror": "IPPO.extract_action_masks tests `None in [mask, ...]`: with numpy masks of more than one "
                                      "action this raises ValueError, so masks as environments deliver them cannot be used",
    "C14-ma-eval-raw-actor-output": "MADDPG / MATD3.get_action clamp continuous actions only in training mode: with "
                                    "user-supplied actor networks (output not rescaled onto the Box) the evaluation-mode "
                                    "action is the raw actor output, outside an asymmetric Box",
    "C14-env-defined-infos-order": "MultiAgentRLAlgorithm.extract_agent_masks sizes the NaN placeholder of an agent without an "
                                   "env-defined action with action_dims[position in infos]: when infos lists the agents in "
                                   "another order than agent_ids and action dimensions differ, get_action raises",
    "C14-ippo-mask-infos-order": "IPPO.extract_action_masks stacks the masks of a homogeneous group in the iteration order of "
                                 "`infos`, while the group's observations are batched in agent_ids order: when infos lists "
                                 "agent_1 before agent_0 each agent is masked with the other's mask",
    "C14-cqn-explore-batch-from-len": "CQN.get_action sizes the exploring batch with len(obs): for Dict / Tuple observations "
                                      "that is the number of members, not the batch size",
}


def finding_id(case, problem: str):
    """specific, analysed defects other than D11 (each has a proposed fix under fixes/): id or None"""
    algo = case.get("algo")
    if problem.startswith("PPO-EVAL-SQUASH"):
        return "C14-ppo-eval-squash-typeerror"
    if algo == "PPO" and re.search(r"-> action shape \(\d+, 1, 1\)", problem):
        return "C14-ppo-box1-extra-axis"
    if algo == "IPPO" and "truth value of an array" in problem:
        return "C14-ippo-numpy-mask-valueerror"
    if algo == "CQN" and "-> action shape" in problem and case.get("family") in ("dict", "tuple") and case.get("eps", 0) > 0:
        return "C14-cqn-explore-batch-from-len"
    if case.get("order") and case.get("env_defined") and case.get("kind") == "box" and case.get("single") \
            and re.search(r"raised (IndexError|ValueError)", problem) and algo in ("MADDPG", "MATD3", "IPPO"):
        return "C14-env-defined-infos-order"
    if algo == "IPPO" and case.get("order") and case["order"].index("agent_1") < case["order"].index("agent_0") \
            and ("mask" in problem):
        return "C14-ippo-mask-infos-order"
    if algo in ("MADDPG", "MATD3") and not case.get("training") and (case.get("raw") or case.get("custom")) \
            and "not in Box" in problem:
        return "C14-ma-eval-raw-actor-output"
    return None


_SEEN: dict = {}


def first_of_its_kind(chk: Check, case, problem: str) -> bool:
    """report one replay per (suite, algorithm, kind of failure); count the rest"""
    key = (case.get("suite"), case.get("algo"), re.sub(r"[-+]?\d[\d.e+-]*", "#", problem)[:60])
    _SEEN[key] = _SEEN.get(key, 0) + 1
    return _SEEN[key] == 1


def report(chk: Check, case, diff, problems, impl, model, resolved) -> bool:
    """violation protocol; returns True when something was reported"""
    if diff is None and not problems:
        return False
    if problems:
        fid = finding_id(case, problems[0])
        if fid is not None:
            if first_of_its_kind(chk, case, fid):
                chk.finding(fid, FINDINGS[fid] + " :: " + problems[0], {"case": case, "oracle_problems": problems[:10]})
            return True
    what = problems[0] if problems else f"model-diff {case.get('suite')}"
    if not first_of_its_kind(chk, case, what):
        return True
    small = shrink(chk, resolved, bool(problems))
    d2, p2, _, impl2, model2, _ = one_case(chk, small)
    if not (p2 if problems else d2 is not None):
        small, d2, p2, impl2, model2 = resolved, diff, problems, impl, model
    replay = {"case": small, "impl": impl2, "model": model2, "diff_at": d2, "oracle_problems": p2,
              "correspondence": "harness/c14.py vs Model/Action.lean", "theorems": chk.gate["theorems"]}
    if problems:
        chk.violation((p2 or problems)[0], replay)
    else:
        i = diff if d2 is None else d2
        a = (impl2 or impl)[i] if i < len(impl2 or impl) else "<missing>"
        b = (model2 or model)[i] if i < len(model2 or model) else "<missing>"
        chk.violation(f"suite {case['suite']}: implementation and Action model disagree at line {i}: impl={a!r} "
                      f"model={b!r}; the property oracle holds on this case and its shrinks", replay, no_input=True)
    return True


def run_cases(chk: Check, name: str, cases, sink=None) -> int:
    """run a list of cases; report (or, with `sink`, only collect) disagreements; returns #flagged"""
    flagged = unobserved = 0
    for case in cases:
        diff, problems, tags, impl, model, resolved = one_case(chk, case)
        if "draws-unobserved" in tags:
            unobserved += 1
        if sink is None:
            nontrivial = any(t in tags for t in ("tie", "explore", "env-defined", "zero-draw")) or \
                case["suite"] not in ("dqn", "ma") or any(0 in (r.get("m") or [1]) for r in case["rows"])
            key = {k: v for k, v in case.items() if k != "seed"}
            chk.case(key, nontrivial=nontrivial, tags=[f"suite-{case['suite']}"] + sorted(set(tags)),
                     sample={"suite": case["suite"], **{k: case[k] for k in ("algo", "A", "eps", "training", "act") if k in case},
                             "rows": case["rows"][:2], "impl": impl[:2], "model": model[:2]})
        if diff is not None or problems:
            flagged += 1
            if sink is None:
                report(chk, case, diff, problems, impl, model, resolved)
            else:
                sink.append((case, diff, problems))
    if sink is None:
        chk.suite(name, len(cases), flagged)
        if cases and unobserved == len(cases):
            raise InfraError(f"C14 suite {name}: the random draws of the implementation could not be observed "
                             "(RNG call sites changed?) — the taps in harness/c14.py need updating")
        if unobserved:
            chk.notes.append(f"suite {name}: {unobserved} case(s) skipped because a draw was not observable")
    return flagged


# ============================================================================= suite plumbing (infos -> agent / env row)
#: agent ids whose order is NOT the lexicographic one; the two walkers are a homogeneous group
PL_IDS = ["walker_1", "walker_0", "adv_0"]
PL_DIMS = {"walker_1": 4, "walker_0": 4, "adv_0": 3}
PL_BOX = {"walker_1": ([-4.0, -2.0], [4.0, 2.0]), "walker_0": ([-4.0, -2.0], [4.0, 2.0]), "adv_0": ([-1.0], [3.0])}
PL_LEAN_PRE = """import Gen.MaPlumbGen
open MaPlumbGen
def amaxRow (r : List Int) (m : List Bool) : Int :=
  (((r.zip m).zipIdx.foldl (fun (best : Option (Int × Nat)) (p : (Int × Bool) × Nat) =>
      if p.1.2 then best else match best with
        | none => some (p.1.1, p.2)
        | some (v, i) => if p.1.1 > v then some (p.1.1, p.2) else some (v, i)) none).map (fun b => (b.2 : Int))).getD 0
def amax (a : Arr Int) (m : Arr Bool) : Option (Arr Int) :=
  match a, m with
  | Arr.a2 rs, Arr.none => some (Arr.a1 (rs.map (fun r => amaxRow r (r.map (fun _ => false)))))
  | Arr.a2 rs, Arr.a2 ms => if rs.length = ms.length then some (Arr.a1 ((rs.zip ms).map (fun p => amaxRow p.1 p.2))) else none
  | Arr.a2 rs, Arr.a1 m1 => some (Arr.a1 (rs.map (fun r => amaxRow r m1)))
  | _, _ => none
def showArr : Arr Int → String
  | Arr.none => "None" | Arr.num x => toString x | Arr.a1 xs => toString xs | Arr.a2 rs => toString rs
def showD (d : PyDict (Arr Int)) : String := " ".intercalate (d.map (fun p => p.1 ++ "=" ++ showArr p.2))
def showR (r : Option (PyDict (Arr Int) × Option (PyDict (Arr Int)))) : String :=
  match r with
  | none => "raise"
  | some (c, none) => "cont " ++ showD c
  | some (_, some d) => "disc " ++ showD d
def showM (r : Option (PyDict (Slot (Arr Bool)))) : String :=
  match r with
  | none => "raise"
  | some d => " ".intercalate (d.map (fun p => p.1 ++ "=" ++ (match p.2 with
      | Slot.none => "None"
      | Slot.tensor l => toString (l.map (fun (m : Arr Bool) => match m with
          | Arr.a1 xs => toString (xs.map (fun (b : Bool) => if b then (1 : Nat) else 0))
          | Arr.a2 rs => toString (rs.map (fun (r : List Bool) => r.map (fun (b : Bool) => if b then (1 : Nat) else 0)))
          | _ => "?"))
      | Slot.list _ => "?")))
"""


def plumb_agent(algo: str, kind: str):
    from gymnasium import spaces

    def make():
        ag = _agents()
        cls = ag.algo_class(algo)
        kw = dict(net_config=copy.deepcopy(ag.default_net_config(algo, "vector")), batch_size=8, device="cpu", accelerator=None)
        if algo == "IPPO":
            kw.update(learn_step=8, update_epochs=2)
        acts = [spaces.Discrete(PL_DIMS[a]) if kind == "disc" else box(*PL_BOX[a]) for a in PL_IDS]
        ag.seed_all(0)
        a = cls(observation_spaces=[ag.obs_space("vector") for _ in PL_IDS], action_spaces=acts, agent_ids=list(PL_IDS), **kw)
        if algo != "IPPO":
            for i in range(len(a.actors)):
                if kind == "disc":
                    a.actors[i].head_net = Table()
                else:
                    a.actors[i] = Table()
        return a
    return cached((algo, "plumb", kind), make)


def _pl_infos(case):
    """the `infos` dict of the case: key order, absent agents, empty / unrelated-key infos, masks, env-defined actions"""
    kind, B, single = case["kind"], case["B"], bool(case.get("single"))
    infos = {}
    for aid in case["order"]:
        e = case["entries"][aid]
        info = {}
        for key in e.get("keys", []):
            if key == "action_mask":
                m = [[0 if j == f else 1 for j in range(PL_DIMS[aid])] for f in e["mask"]]
                info[key] = np.array(m[0] if single else m, dtype=np.int64)
            elif key == "env_defined_actions":
                v = e["eda"]
                if v is None:
                    info[key] = None
                elif kind == "disc":
                    info[key] = (None if v[0] is None else int(v[0])) if single else \
                        np.array([np.nan if x is None else float(x) for x in v])
                else:
                    full = np.array([[np.nan if x is None else float(x) for x in row] for row in v], dtype=np.float64)
                    info[key] = full[0] if single else full
            else:
                info[key] = 3
        infos[aid] = info
    return infos


def _pl_lean_infos(case) -> str:
    kind, single = case["kind"], bool(case.get("single"))

    def b(x):
        return "true" if x else "false"

    def oi(x):
        return "none" if x is None else f"some ({int(x)})"
    items = []
    for aid in case["order"]:
        e = case["entries"][aid]
        keys = e.get("keys", [])
        mask, eda = "none", "Arr.none"
        if "action_mask" in keys:
            rows = ["[" + ", ".join(b(j != f) for j in range(PL_DIMS[aid])) + "]" for f in e["mask"]]
            mask = f"some (Arr.a1 {rows[0]})" if single else "some (Arr.a2 [" + ", ".join(rows) + "])"
        if "env_defined_actions" in keys and e["eda"] is not None:
            v = e["eda"]
            if kind == "disc":
                eda = ("Arr.none" if v[0] is None else f"Arr.num ({oi(v[0])})") if single else \
                    "Arr.a1 [" + ", ".join(oi(x) for x in v) + "]"
            else:
                rows = ["[" + ", ".join(oi(x) for x in row) + "]" for row in v]
                eda = f"Arr.a1 {rows[0]}" if single else "Arr.a2 [" + ", ".join(rows) + "]"
        ks = "[" + ", ".join(json.dumps(k) for k in keys) + "]"
        items.append(f'({json.dumps(aid)}, (⟨true, {b(bool(keys))}, {ks}, {mask}, {eda}⟩ : Info Int))')
    return "[" + ", ".join(items) + "]"


def _pl_show(d) -> str:
    return " ".join(f"{aid}={json.dumps(np.asarray(d[aid]).astype(np.int64).tolist())}" for aid in PL_IDS)


MISSING_ENTRY = "C14-missing-info-entry-vectorised"
ENV_ORDER = "C14-env-defined-actions-infos-order"


def missing_entry_cfg(case):
    """The configuration of the open finding C14-missing-info-entry-vectorised, decided from the INPUT alone:
    'KeyError'   — a known agent has no entry in `infos` at all;
    'IndexError' — env-defined actions are present (some listed info holds the key, not every info is empty), there are
                   >= 2 env rows, and some listed agent's entry is missing / None (its placeholder has one row);
    None         — any other input (a failure there is a violation, never this finding)."""
    if case.get("algo") not in ("MADDPG", "MATD3"):
        return None
    if any(a not in case["order"] for a in PL_IDS):
        return "KeyError"
    ents = [case["entries"][a] for a in case["order"]]
    present = any("env_defined_actions" in e.get("keys", []) for e in ents) and any(e.get("keys") for e in ents)
    if present and case["B"] >= 2 and not case.get("single") and \
            any("env_defined_actions" not in e.get("keys", []) or e.get("eda") is None for e in ents):
        return "IndexError"
    return None


def plumb_one(case):
    """-> (impl line, lean term, oracle problems, tags)"""
    algo, kind, B, single = case["algo"], case["kind"], case["B"], bool(case.get("single"))
    ag = plumb_agent(algo, kind)
    infos = _pl_infos(case)
    tags = [f"plumb-{algo}-{kind}", f"rows-{B}" + ("-single" if single else "")]
    if case["order"] != [a for a in PL_IDS if a in case["order"]]:
        tags.append("infos-reordered")
    problems = []
    ids = "[" + ", ".join(json.dumps(a) for a in PL_IDS) + "]"
    if algo == "IPPO":
        try:
            masks = ag.extract_action_masks(infos)
            impl = " ".join(f"{g}=" + ("None" if m is None else json.dumps(np.asarray(m).astype(np.int64).tolist()).replace('"', ""))
                            for g, m in masks.items())
        except Exception as e:
            masks, impl = None, "raise"
            tags.append(f"raised-{type(e).__name__}")
        term = f'showM (IPPO.extract_action_masks (α := Int) {ids} ["walker", "adv"] {_pl_lean_infos(case)})'
        if masks is not None:           # oracle: slot k of a group is the mask stored under the k-th agent of the group
            for g, members in ag.homogeneous_agents.items():
                m = masks[g]
                want = [case["entries"][a].get("mask") if "action_mask" in case["entries"][a].get("keys", []) and a in case["order"]
                        else None for a in members]
                if m is None:
                    if all(w is not None for w in want):
                        problems.append(f"IPPO group {g}: every agent sent a mask but the group got None")
                    continue
                for k, a in enumerate(members):
                    own = [[0 if j == f else 1 for j in range(PL_DIMS[a])] for f in (want[k] or [])]
                    got = np.asarray(m[k]).astype(int).tolist()
                    if (got if not single else [got]) != own:
                        problems.append(f"IPPO group {g}: slot {k} (agent {a}) holds {got}, the agent's own mask is {own}")
        return impl, term, problems, tags
    # MADDPG / MATD3: evaluation mode, stub actors returning the prescribed integer tables
    for aid, actor in zip(ag.agent_ids, ag.actors):
        (actor.head_net if kind == "disc" else actor).table = torch.tensor(case["p"][aid], dtype=torch.float32)
    obs = sample_obs(ag, algo, B, single, case.get("seed", 0))
    seed_all(case.get("seed", 0))
    try:
        cont, disc = ag.get_action(obs, training=False, infos=infos)
        out = disc if kind == "disc" else cont
        impl = ("disc " if kind == "disc" else "cont ") + _pl_show(out)
    except Exception as e:
        out, impl = None, "raise"
        tags.append(f"raised-{type(e).__name__}")
    pol = "[" + ", ".join(f"({json.dumps(a)}, Arr.a2 [" + ", ".join("[" + ", ".join(str(int(x)) for x in r) + "]" for r in case["p"][a]) + "])"
                          for a in PL_IDS) + "]"
    dims = "[" + ", ".join(str(PL_DIMS[a] if kind == "disc" else len(PL_BOX[a][0])) for a in PL_IDS) + "]"
    term = (f"showR ({algo}.get_action_plumbing amax {dims} {ids} {'true' if kind == 'disc' else 'false'} "
            f"(some {_pl_lean_infos(case)}) {pol})")
    expect_reject = None
    if out is None:
        cfg = missing_entry_cfg(case)
        if cfg is not None and tags[-1] == f"raised-{cfg}":
            tags.append("finding:" + MISSING_ENTRY)         # reported through chk.finding by run_plumbing
        else:
            problems.append(f"{algo}.get_action raised on infos {case['order']} ({tags[-1]})")
        return impl, term, problems, tags
    for aid in PL_IDS:
        o = np.asarray(out[aid])
        if o.shape[0] != B:
            problems.append(f"{algo} {aid}: {B} env rows -> action shape {o.shape}")
            continue
        e = case["entries"][aid] if aid in case["order"] else {}
        keys = e.get("keys", [])
        for r in range(B):
            row = o[r]
            if not legal(ag.action_space[aid], row):
                problems.append(f"{algo} {aid} env {r}: action {np.asarray(row).tolist()} is not in {ag.action_space[aid]}")
                continue
            env = e["eda"][r] if ("env_defined_actions" in keys and e.get("eda") is not None) else None
            if kind == "disc":
                a = int(np.asarray(row).reshape(-1)[0])
                p = case["p"][aid][r]
                if env is not None:
                    tags.append("env-defined")
                    if a != int(env):
                        problems.append(f"{algo} {aid} env {r}: env-defined action {env} not returned (got {a}); infos order {case['order']}")
                elif env is None:
                    f = e["mask"][r] if "action_mask" in keys else None
                    best = max(range(len(p)), key=lambda j: (p[j] if j != f else -10 ** 9, -j))
                    if a != best:
                        problems.append(f"{algo} {aid} env {r}: action {a}, but under the agent's OWN mask (forbidden: {f}) the best "
                                        f"allowed action is {best}; infos order {case['order']}")
            else:
                envr = env if env is not None else [None] * len(case["p"][aid][r])
                for j, x in enumerate(envr):
                    want = x if x is not None else case["p"][aid][r][j]
                    if x is not None:
                        tags.append("env-defined")
                    if float(np.asarray(row)[j]) != float(want):
                        problems.append(f"{algo} {aid} env {r} dim {j}: {float(np.asarray(row)[j])} returned, expected "
                                        f"{'the env-defined' if x is not None else 'the policy'} value {want}; infos order {case['order']}")
    return impl, term, problems, tags


def gen_plumb(rng: random.Random, tier: str):
    cases = []
    n = 14 if tier == "quick" else 80
    for algo in ("MADDPG", "MATD3", "IPPO"):
        for it in range(n if algo != "IPPO" else max(6, n // 2)):
            kind = "disc" if (algo == "IPPO" or it % 3 != 2) else "cont"
            single = it % 5 == 4
            B = 1 if single else 1 + it % 3
            order = list(PL_IDS)
            rng.shuffle(order)
            with_env = algo != "IPPO" and rng.random() < 0.7
            mask_mode = rng.choice(["all", "all", "some", "none"])
            entries, p = {}, {}
            for k, aid in enumerate(PL_IDS):
                A = PL_DIMS[aid]
                lo, hi = PL_BOX[aid]
                keys = []
                forb = None
                if kind == "disc":
                    # the preferred action is the one the agent's OWN mask forbids; the forbidden index differs per agent
                    forb = [(k + r + 1) % A for r in range(B)]
                    p[aid] = [[7 if j == forb[r] else rng.choice([0, 1, 2, 2, 5]) for j in range(A)] for r in range(B)]
                else:
                    p[aid] = [[rng.randint(int(lo[j]), int(hi[j])) for j in range(len(lo))] for r in range(B)]
                has_mask = kind == "disc" and (mask_mode == "all" or (mask_mode == "some" and rng.random() < 0.5))
                if algo == "IPPO" and aid.startswith("walker"):
                    has_mask = mask_mode != "none"          # all-or-none inside a homogeneous group
                if has_mask:
                    keys.append("action_mask")
                eda = None
                if with_env:
                    if kind == "disc":
                        eda = [rng.choice([j for j in range(A) if not (has_mask and j == forb[r])]) if rng.random() < 0.5 else None
                               for r in range(B)]
                    else:
                        eda = [[rng.randint(int(lo[j]), int(hi[j])) if rng.random() < 0.5 else None for j in range(len(lo))]
                               for r in range(B)]
                    keys.append("env_defined_actions")
                    if single and (all(x is None for x in eda) if kind == "disc" else False):
                        eda = None                      # non-vectorised: None stands for "no env-defined action"
                    elif single and kind == "cont" and rng.random() < 0.3:
                        eda = None
                if with_env and B == 1 and k > 0 and rng.random() < 0.35:
                    # one env row: an agent may leave the entry out (its one-row placeholder fits); with more rows that is
                    # the open finding C14-missing-info-entry-vectorised, which only the dedicated probes below exercise
                    keys.remove("env_defined_actions")
                    eda = None
                if rng.random() < 0.3:
                    keys.insert(rng.randrange(len(keys) + 1), "step_count")
                entries[aid] = {"keys": keys, "mask": forb if has_mask else None, "eda": eda}
            case = {"suite": "plumb", "algo": algo, "kind": kind, "B": B, "single": single, "order": order, "entries": entries,
                    "p": p, "seed": rng.randrange(1 << 30)}
            if missing_entry_cfg(case) is not None:
                raise InfraError("C14 gen_plumb: a generated case is in the configuration of " + MISSING_ENTRY)
            cases.append(case)
    for algo in ("MADDPG", "MATD3"):
        one = {"suite": "plumb", "algo": algo, "kind": "disc", "B": 1, "single": False, "seed": 5,
               "p": {a: [[7 if j == 1 else 0 for j in range(PL_DIMS[a])]] for a in PL_IDS}}
        # regression probe of the REPAIRED finding C14-env-defined-actions-infos-order: the first listed info is a dict
        # without the "env_defined_actions" key, a later one holds it -> the env-defined action must be played
        ent1 = {"walker_1": {"keys": ["action_mask"], "mask": [1], "eda": None},
                "walker_0": {"keys": ["env_defined_actions"], "mask": None, "eda": [2]},
                "adv_0": {"keys": ["env_defined_actions"], "mask": None, "eda": [None]}}
        for order in (["walker_1", "walker_0", "adv_0"], ["adv_0", "walker_1", "walker_0"]):
            cases.append(dict(one, order=order, entries=ent1, probe="env-first-info"))
        # probes of the OPEN finding C14-missing-info-entry-vectorised (exactly its two configurations)
        two = dict(one, B=2, p={a: [[7 if j == 1 else 0 for j in range(PL_DIMS[a])] for _ in range(2)] for a in PL_IDS})
        ent2 = {"walker_1": {"keys": ["action_mask"], "mask": [1, 1], "eda": None},
                "walker_0": {"keys": ["env_defined_actions"], "mask": None, "eda": [2, None]},
                "adv_0": {"keys": ["env_defined_actions"], "mask": None, "eda": [None, None]}}
        cases.append(dict(two, order=["walker_0", "adv_0", "walker_1"], entries=ent2, probe="missing-entry"))
        ent3 = {a: {"keys": ["action_mask"], "mask": [1, 1], "eda": None} for a in PL_IDS}
        cases.append(dict(two, order=["adv_0", "walker_1"], entries=ent3, probe="agent-absent"))
    return cases


def run_plumbing(chk: Check, cases, sink=None) -> int:
    """real `get_action` / `extract_action_masks` against the definitions GENERATED from the source (evaluated by Lean)"""
    import subprocess
    import tempfile
    from common import LEAN_DIR
    if not cases:
        return 0
    results = [plumb_one(c) for c in cases]
    text = PL_LEAN_PRE + "\n".join(f"#eval IO.println ({r[1]})" for r in results) + "\n"
    model = None
    with tempfile.NamedTemporaryFile("w", suffix=".lean", prefix="c14_plumb_", delete=False) as f:
        f.write(text)
        path = f.name
    try:
        pr = subprocess.run(["lake", "env", "lean", path], cwd=LEAN_DIR, capture_output=True, text=True, timeout=600)
        lines = [ln for ln in pr.stdout.splitlines() if ln.strip()]
        if pr.returncode == 0 and len(lines) == len(cases):
            model = lines
        else:
            chk.notes.append("suite plumbing: lean/Gen/MaPlumbGen.lean could not be evaluated (see the gate problems); "
                             "only the oracle was applied: " + (pr.stdout + pr.stderr).strip()[:300])
    finally:
        try:
            import os
            os.unlink(path)
        except OSError:
            pass
    if model is None and not chk.gate.get("problems") and "error" not in (pr.stdout + pr.stderr):
        raise InfraError("C14 suite plumbing: cannot evaluate Gen/MaPlumbGen.lean although the gate reported no problem: "
                         + (pr.stdout + pr.stderr).strip()[:400])
    # (a Lean error without a gate problem: the generated definitions changed their parameter list — the source reads other
    #  attributes than before; the terms built here no longer fit, the oracle below still judges every case)
    flagged = 0
    known = 0
    for i, (case, (impl, term, problems, tags)) in enumerate(zip(cases, results)):
        m = model[i] if model is not None else None
        diff = m is not None and m != impl
        if "finding:" + MISSING_ENTRY in tags:
            known += 1
            if sink is None:
                chk.finding(MISSING_ENTRY, f"{case['algo']}.get_action raised {tags[-2][7:]} on infos {case['order']} with "
                            f"{case['B']} env rows ({missing_entry_cfg(case)} configuration); the generated model "
                            + ("raises too" if m == "raise" else f"gives {m!r}"), {"case": case, "impl": impl, "model": m})
        if case.get("probe") == "env-first-info" and sink is None and any("env-defined action" in q for q in problems):
            # the repaired finding is back: the env-defined action of a later info is dropped again
            chk.finding(ENV_ORDER, problems[0], {"case": case, "impl": impl, "model": m, "oracle_problems": problems})
            flagged += 1
            continue
        if sink is None:
            chk.case({k: v for k, v in case.items() if k != "seed"}, nontrivial=True, tags=["suite-plumbing"] + sorted(set(tags)),
                     sample={"suite": "plumb", "algo": case["algo"], "order": case["order"], "impl": impl, "model": m})
        if not diff and not problems:
            continue
        flagged += 1
        if sink is not None:
            sink.append((case, diff, problems))
            continue
        what = problems[0] if problems else f"suite plumbing: implementation and generated plumbing disagree: impl={impl!r} model={m!r}"
        if not first_of_its_kind(chk, case, what):
            continue
        replay = {"case": case, "impl": impl, "model": m, "oracle_problems": problems,
                  "correspondence": "harness/c14.py vs Gen/MaPlumbGen.lean", "theorems": chk.gate["theorems"]}
        if problems:
            chk.violation(what, replay)
        else:
            chk.violation(what + "; the property oracle holds on this case", replay, no_input=True)
    if sink is None:
        chk.suite("plumbing", len(cases), flagged)
        if known:
            chk.notes.append(f"suite plumbing: {known} case(s) in the configuration of {MISSING_ENTRY} raised and were reported "
                             "through chk.finding")
    return flagged


# ============================================================================= oracle sweep (real networks)
def sweep_spaces(algo: str, kind: str, rng: random.Random):
    from gymnasium import spaces
    ag = _agents()
    if kind == "box":
        table = BOUNDS_IPPO if ag.is_multi_agent(algo) else BOUNDS
        i = rng.randrange(len(table))
        j = rng.choice([k for k in range(len(table)) if k != i])       # other_0 never shares the Box of agent_0/1
        one = lambda k: box(*table[k])
    elif kind == "discrete":
        i, j = rng.choice([2, 3, 5]), rng.choice([2, 4])
        one = lambda k: spaces.Discrete(k)
    elif kind == "multidiscrete":
        i, j = [2, 3], [3, 2, 2]
        one = lambda k: spaces.MultiDiscrete(k)
    else:
        i, j = 3, 2
        one = lambda k: spaces.MultiBinary(k)
    if ag.is_multi_agent(algo):
        return [one(i), one(i), one(j)]
    return one(i)


def rand_mask(space, rng: random.Random, B: int, single: bool):
    """a mask with at least one legal action per (sub-)distribution, or None"""
    from gymnasium import spaces
    if isinstance(space, spaces.Discrete):
        rows = [rng.choice(all_masks(int(space.n))[1:]) for _ in range(B)]
    elif isinstance(space, spaces.MultiDiscrete):
        rows = [sum((rng.choice(all_masks(int(k))[1:]) for k in space.nvec), []) for _ in range(B)]
    elif isinstance(space, spaces.MultiBinary):
        rows = [rng.choice(all_masks(int(space.n))) for _ in range(B)]
    else:
        return None
    arr = np.array(rows, dtype=np.int64)
    return arr[0] if single else arr


def mask_ok(space, m, a) -> bool:
    from gymnasium import spaces
    m = [int(x) for x in np.asarray(m).reshape(-1)]
    a = np.asarray(a).reshape(-1).astype(int)
    if isinstance(space, spaces.Discrete):
        return bool(m[a[0]])
    if isinstance(space, spaces.MultiDiscrete):
        off = 0
        for j, k in enumerate(space.nvec):
            if not m[off + a[j]]:
                return False
            off += int(k)
        return True
    return all(m[j] or a[j] == 0 for j in range(len(m)))


def greedy_problems(agent, algo, obs, out, mask, B, single, what):
    """the chosen index has the largest value among the allowed ones according to the agent's own network"""
    probs = []
    actor = agent.actor
    was = actor.training
    try:
        if algo != "DQN":
            actor.eval()
        with torch.no_grad():
            q = actor(agent.preprocess_observation(obs)).detach().cpu().numpy()
    finally:
        actor.train(was)
    out = np.asarray(out)
    if q.shape[0] != B or out.shape != (B,):
        return probs
    for b in range(B):
        m = np.ones(q.shape[1], bool) if mask is None else np.asarray(mask if single else mask[b]).astype(bool)
        if not m.any() or not 0 <= int(out[b]) < q.shape[1] or not m[int(out[b])]:
            continue
        best = q[b][m].max()
        if q[b][int(out[b])] < best - 1e-6 * max(1.0, abs(float(best))):
            probs.append(f"{what} row {b}: greedy action {int(out[b])} has value {float(q[b][int(out[b])]):.6g} < best allowed "
                         f"{float(best):.6g} (mask {m.astype(int).tolist()})")
    return probs


def sweep_one(cfg, agent=None):
    """run the real agent of one configuration (or the given, e.g. mutated, agent); returns (problems, tags)"""
    from gymnasium import spaces
    ag = _agents()
    algo, fam, kind, seed = cfg["algo"], cfg["family"], cfg["kind"], cfg["seed"]
    rng = random.Random(seed)
    key = ("sweep", algo, fam, kind, cfg.get("space_seed", 0))
    if agent is not None:
        pass
    elif cfg.get("custom"):
        # user-supplied plain-MLP actor(s): the output (Tanh / unbounded) is not rescaled onto the Box
        bi, bj = cfg["custom"]["bounds"]
        agent = custom_agent(algo, bi, cfg["custom"]["act"], bj)
    else:
        agent = cached(key, lambda: mk_agent(algo, fam, sweep_spaces(algo, kind, random.Random(cfg.get("space_seed", 0))),
                                             seed=cfg.get("space_seed", 0)))
    problems, tags = [], [f"sweep-{algo}", f"kind-{kind}", f"obs-{fam}"] + (["custom-actor"] if cfg.get("custom") else [])
    B = cfg["B"]
    single = cfg["single"]
    if single:
        B = 1
    train = cfg["training"]
    seed_all(seed)

    def check_rows(space, out, what, mask=None, expect_legal=True):
        out_a = np.asarray(out)
        if out_a.shape[:1] != (B,):
            problems.append(f"{what}: batch of {B} observation(s) -> action shape {out_a.shape}")
            return
        for b in range(B):
            if expect_legal and not legal(space, out_a[b]):
                problems.append(f"{what} row {b}: {np.asarray(out_a[b]).tolist()} is not in {space}")
            elif mask is not None and expect_legal:
                mb = mask if single else mask[b]
                if not mask_ok(space, mb, out_a[b]):
                    problems.append(f"{what} row {b}: action {np.asarray(out_a[b]).tolist()} is masked (mask {np.asarray(mb).tolist()})")

    if ag.is_bandit(algo):
        for _ in range(B):
            ctx = ag.sample_obs(agent, algo, fam, seed=rng.randrange(1 << 30))
            m = rand_mask(agent.action_space, rng, 1, True) if cfg["mask"] and kind == "discrete" else None
            a = agent.get_action(ctx, action_mask=m)
            if np.ndim(a) != 0 or not 0 <= int(a) < int(agent.action_dim):
                problems.append(f"{algo}: arm {a!r} outside range({int(agent.action_dim)})")
            elif m is not None and not m[int(a)]:
                problems.append(f"{algo}: masked arm {int(a)} chosen (mask {m.tolist()})")
        return problems, tags
    obs = sample_obs(agent, algo, B, single, seed)
    if algo in ("DQN", "CQN"):
        m = rand_mask(agent.action_space, rng, B, single) if cfg["mask"] else None
        eps = cfg["eps"]
        out = agent.get_action(obs, epsilon=eps, action_mask=m)
        tags.append(f"eps-{eps}")
        check_rows(agent.action_space, out, f"{algo} eps={eps} obs={fam}", m)
        if eps == 0 and cfg.get("greedy"):
            problems.extend(greedy_problems(agent, algo, obs, out, m, B, single, f"{algo} eps=0 obs={fam}"))
    elif algo == "RainbowDQN":
        m = rand_mask(agent.action_space, rng, B, single) if cfg["mask"] else None
        out = agent.get_action(obs, action_mask=m, training=train)
        check_rows(agent.action_space, out, f"{algo} training={train} obs={fam}", m)
        if not train and cfg.get("greedy"):
            problems.extend(greedy_problems(agent, algo, obs, out, m, B, single, f"{algo} training=False obs={fam}"))
    elif algo in ("DDPG", "TD3"):
        out = agent.get_action(obs, training=train)
        tags.append("noise-on" if train else "noise-off")
        check_rows(agent.action_space, out, f"{algo} training={train} obs={fam}")
    elif algo == "PPO":
        agent.set_training_mode(train)
        try:
            m = rand_mask(agent.action_space, rng, B, single) if cfg["mask"] else None
            out = agent.get_action(obs, action_mask=m)[0]
        finally:
            agent.set_training_mode(True)
        # Box actions of a training-mode policy-gradient agent are clipped by the training loop, not here
        check_rows(agent.action_space, out, f"PPO {kind} training={train} obs={fam}", m,
                   expect_legal=(kind != "box" or not train))
    else:
        infos = None
        masks = {}
        if cfg["mask"] and kind != "box" and (algo == "IPPO" or kind == "discrete"):
            infos = {}
            # all agents, or a random non-empty strict subset, report a mask (IPPO: whole homogeneous groups)
            units = ["agent", "other"] if algo == "IPPO" else list(agent.agent_ids)
            chosen = set(units) if rng.random() < 0.4 else set(rng.sample(units, rng.randint(1, len(units) - 1)))
            tags.append("masks-all" if len(chosen) == len(units) else "masks-partial")
            for aid in agent.agent_ids:
                if (aid.rsplit("_", 1)[0] if algo == "IPPO" else aid) in chosen:
                    masks[aid] = rand_mask(agent.action_space[aid], rng, B, single)
                    infos[aid] = {"action_mask": masks[aid]}
                else:
                    infos[aid] = {} if rng.random() < 0.5 else {"step_count": 3}
        envdef = {}
        if cfg.get("env_defined") and kind in ("discrete", "box"):
            infos = infos or {aid: {} for aid in agent.agent_ids}
            for aid in agent.agent_ids:
                sp = agent.action_space[aid]
                if kind == "discrete":
                    vals = [float(rng.randrange(int(sp.n))) if rng.random() < 0.5 else np.nan for _ in range(B)]
                    if single:
                        infos[aid]["env_defined_actions"] = None if np.isnan(vals[0]) else int(vals[0])
                    else:
                        infos[aid]["env_defined_actions"] = np.array(vals)
                else:
                    vals = [sp.sample() if rng.random() < 0.5 else np.full(sp.shape, np.nan) for _ in range(B)]
                    if single:
                        infos[aid]["env_defined_actions"] = None if np.isnan(vals[0]).all() else vals[0]
                    else:
                        infos[aid]["env_defined_actions"] = np.array(vals, dtype=np.float64)
                envdef[aid] = vals
            tags.append("env-defined")
        # the environment may list its agents in another order than agent_ids
        if cfg.get("order"):
            infos = reorder(infos, cfg["order"])
            tags.append("infos-reordered")
        obs = reorder(obs, cfg.get("obs_order"))
        if algo == "IPPO":
            agent.set_training_mode(train)
            try:
                out = agent.get_action(obs, infos=infos)[0]
            finally:
                agent.set_training_mode(True)
            for aid in agent.agent_ids:
                check_rows(agent.action_space[aid], out[aid], f"IPPO {kind} {aid} training={train} obs={fam}",
                           masks.get(aid) if aid not in envdef else None,
                           expect_legal=(kind != "box" or not train))
        else:
            cont, disc = agent.get_action(obs, training=train, infos=infos)
            out = disc if kind == "discrete" else cont
            tags.append("noise-on" if train else "noise-off")
            for aid in agent.agent_ids:
                check_rows(agent.action_space[aid], out[aid], f"{algo} {kind} {aid} training={train} obs={fam}",
                           masks.get(aid) if aid not in envdef else None)
        for aid, vals in envdef.items():
            o = np.asarray(out[aid])
            for b in range(B):
                v = np.asarray(vals[b], dtype=np.float64).reshape(-1)
                got = np.asarray(o[b], dtype=np.float64).reshape(-1)
                if o.shape[:1] == (B,) and got.shape == v.shape and not np.all(np.isnan(v) | (got == v.astype(np.float32))):
                    problems.append(f"{algo} {aid} env {b}: env-defined action {v.tolist()} not returned (got {got.tolist()})")
    return problems, tags


# ============================================================================= history dimension
#: chain operations: what a population member goes through between two calls of get_action
HIST_OPS = ["clone", "arch", "arch:latent+", "arch:latent-", "arch:encoder", "arch:head", "param", "act", "rlhp", "ckpt"]


def hist_agent(cfg):
    """a fresh (never cached: the chain changes it) real agent of the configuration"""
    ag = _agents()
    algo, fam, kind = cfg["algo"], cfg["family"], cfg["kind"]
    nc = ag.default_net_config(algo, fam)
    if cfg.get("squash"):
        nc["squash_output"] = True
    return mk_agent(algo, fam, sweep_spaces(algo, kind, random.Random(cfg.get("space_seed", 0))), seed=cfg.get("space_seed", 0),
                    net_config=nc, hp_config=ag.default_hp_config(algo))


def _mutations(kind: str, seed: int):
    from agilerl.hpo.mutation import Mutations
    p = {"none": 0, "arch": 0, "param": 0, "act": 0, "rl_hp": 0}
    p[kind] = 1
    return Mutations(no_mutation=p["none"], architecture=p["arch"], new_layer_prob=0.5, parameters=p["param"],
                     activation=p["act"], rl_hp=p["rl_hp"], mutation_sd=0.1, rand_seed=seed, device="cpu")


def apply_op(agent, op: str, seed: int):
    """one step of a history, through the public API the training loops / HPO use; returns (agent, what happened)"""
    import tempfile
    import agilerl.hpo.mutation as mut_mod
    if op == "clone":
        return agent.clone(), "clone"
    if op == "ckpt":
        with tempfile.TemporaryDirectory(prefix="c14ck") as d:
            path = f"{d}/agent.pt"
            agent.save_checkpoint(path)
            return type(agent).load(path, device="cpu"), "ckpt"
    if op in ("param", "act", "rlhp"):
        m = _mutations({"param": "param", "act": "act", "rlhp": "rl_hp"}[op], seed)
        out = m.mutation([agent])[0]
        return out, f"{op}:{getattr(out, 'mut', None)}"
    m = _mutations("arch", seed)
    if op == "arch":
        out = m.mutation([agent])[0]
        return out, f"arch:{getattr(out, 'mut', None)}"
    want = op.split(":", 1)[1]
    orig = mut_mod.get_architecture_mut_method
    chosen = {}

    def targeted(ev, new_layer_prob, rng):
        net = ev[0] if isinstance(ev, list) else ev
        names = list(net.mutation_methods)
        if want == "latent+":
            cand = [n for n in names if n == "add_latent_node"]
        elif want == "latent-":
            cand = [n for n in names if n == "remove_latent_node"]
        else:
            pre = "encoder." if want == "encoder" else "head_net."
            cand = [n for n in names if n.startswith(pre)]
        if not cand:
            return orig(ev, new_layer_prob, rng)
        chosen["name"] = cand[int(rng.integers(len(cand)))]
        return chosen["name"]

    mut_mod.get_architecture_mut_method = targeted
    try:
        out = m.mutation([agent])[0]
    finally:
        mut_mod.get_architecture_mut_method = orig
    return out, f"arch[{chosen.get('name', 'sampled')}]:{getattr(out, 'mut', None)}"


def history_one(cfg):
    """build a fresh agent, walk it through the chain, then ask for actions: (problems, tags, log)"""
    agent = hist_agent(cfg)
    log, problems = [], []
    tags = [f"hist-{cfg['algo']}", f"kind-{cfg['kind']}"] + (["squash"] if cfg.get("squash") else [])
    for k, op in enumerate(cfg["chain"]):
        try:
            seed_all(cfg["seed"] + k)
            agent, what = apply_op(agent, op, cfg["seed"] + k)
        except InfraError:
            raise
        except Exception as e:
            # a history step that raises is another property's business (C01 / C03 / C07); C14 needs an agent to ask
            return [], tags + ["history-step-raised"], log + [f"{op} raised {type(e).__name__}: {str(e)[:120]}"]
        log.append(what)
        tags.append("op-" + op.split(":")[0] + (":" + op.split(":")[1] if ":" in op else ""))
    r = random.Random(cfg["seed"])
    for j in range(cfg.get("asks", 4)):
        # stochastic policies on a Box: a large batch, so that a sample outside the bounds shows with near certainty
        big = cfg["algo"] in ("PPO", "IPPO") and cfg["kind"] == "box"
        sub = dict(cfg, suite="sweep", seed=r.randrange(1 << 30), B=32 if big else r.randint(2, 4), single=(j % 2 == 1 and not (big and j == 1)),
                   training=(j % 4 >= 2), mask=(r.random() < 0.7), eps=[0.0, 0.0, 0.5, 1.0][j % 4], greedy=True,
                   env_defined=False, order=None, obs_order=None)
        try:
            p, t = sweep_one(sub, agent=agent)
        except InfraError:
            raise
        except Exception as e:
            p, t = [f"{cfg['algo']} {cfg['kind']} after {log}: get_action raised {type(e).__name__}: {str(e)[:200]}"], []
        problems += [f"after history {log}: {x}" for x in p]
        tags += [x for x in t if x.startswith(("eps-", "noise-", "masks-"))]
    return problems, tags, log


def gen_history(rng: random.Random, tier: str):
    ag = _agents()
    cfgs = []
    chains_per_cfg = 3 if tier == "quick" else 10
    for algo in ag.ALGOS:
        for kind in ag.ACTION_KINDS[algo]:
            variants = [False, True] if (algo == "PPO" and kind == "box") else [False]
            for squash in variants:
                fam = "vector" if tier == "quick" or rng.random() < 0.6 else rng.choice(["image", "dict", "discrete"])
                for c in range(chains_per_cfg):
                    if c == 0:          # every configuration is asked right after a network-level latent mutation
                        chain = ["clone", rng.choice(["arch:latent+", "arch:latent-"])]      # (a later clone would rebuild the nets)
                    elif c == 1:        # ... sees an encoder / head mutation and a checkpoint round trip, either order
                        chain = [rng.choice(["arch:encoder", "arch:head"]), "ckpt"]
                        rng.shuffle(chain)
                    elif c % 2 == 0:    # ... and a random chain that ends in an architecture mutation
                        chain = [rng.choice(HIST_OPS) for _ in range(rng.randint(0, 3))] + \
                                [rng.choice(["arch", "arch:latent+", "arch:latent-", "arch:encoder", "arch:head"])]
                    else:
                        chain = [rng.choice(HIST_OPS) for _ in range(rng.randint(1, 4))]
                    cfgs.append({"suite": "history", "algo": algo, "kind": kind, "family": fam, "squash": squash,
                                 "space_seed": rng.randrange(3), "chain": chain, "seed": rng.randrange(1 << 30),
                                 "asks": 4 if tier == "quick" else 6})
    return cfgs


def run_history(chk: Check, cfgs, sink=None) -> int:
    flagged = raised = 0
    for cfg in cfgs:
        problems, tags, log = history_one(cfg)
        raised += "history-step-raised" in tags
        if sink is None:
            chk.case({k: v for k, v in cfg.items()}, nontrivial=True, tags=sorted(set(tags)) + ["suite-history"],
                     sample={"suite": "history", "algo": cfg["algo"], "kind": cfg["kind"], "chain": cfg["chain"], "log": log})
        if "history-step-raised" in tags and sink is None:
            chk.notes.append(f"history: {cfg['algo']}/{cfg['kind']} chain {cfg['chain']}: {log[-1]} (not judged by C14)")
        if problems:
            flagged += 1
            if sink is None:
                fid = finding_id(cfg, problems[0])
                if fid is not None:
                    if first_of_its_kind(chk, cfg, fid):
                        chk.finding(fid, FINDINGS[fid] + " :: " + problems[0], {"case": cfg, "log": log, "oracle_problems": problems[:10]})
                elif first_of_its_kind(chk, cfg, re.sub(r"after history \[.*?\]: ", "", problems[0])):
                    chk.violation(problems[0], {"case": cfg, "log": log, "oracle_problems": problems[:10]})
            else:
                sink.append((cfg, None, problems))
    if sink is None:
        chk.suite("history", len(cfgs), flagged)
        if cfgs and raised > len(cfgs) // 2:
            raise InfraError(f"C14 history suite: {raised} of {len(cfgs)} chains raised inside a history step")
    return flagged


def gen_sweep(rng: random.Random, tier: str):
    ag = _agents()
    cfgs = []
    for algo in ag.ALGOS:
        for kind in ag.ACTION_KINDS[algo]:
            fams = list(ag.OBS_FAMILIES) if tier == "thorough" else ["vector"] + rng.sample(["image", "dict", "tuple", "discrete"], 2)
            for fam in fams:
                reps = 4 if tier == "quick" else 24
                space_seed = rng.randrange(3)
                for rep in range(reps):
                    cfgs.append({"suite": "sweep", "algo": algo, "kind": kind, "family": fam, "space_seed": space_seed,
                                 "seed": rng.randrange(1 << 30), "B": rng.randint(2, 4), "single": rep % 2 == 1,
                                 "training": rep % 4 < 2, "mask": rng.random() < 0.7, "eps": [0.0, 0.5, 1.0, 1.0][rep % 4],
                                 "env_defined": rng.random() < 0.4,
                                 "order": rand_order(rng, 0.5) if ag.is_multi_agent(algo) else None,
                                 "obs_order": rand_order(rng, 0.3) if ag.is_multi_agent(algo) else None})
    # user-supplied actor networks whose raw output range exceeds the (asymmetric, per-dimension) Box,
    # training and evaluation mode
    for algo in ("DDPG", "TD3", "MADDPG", "MATD3"):
        for rep in range(4 if tier == "quick" else 16):
            ma = algo in ("MADDPG", "MATD3")
            bi, bj = rng.choice(MA_BOUND_PAIRS) if ma else (rng.choice([0, 2, 3, 4]), 0)
            cfgs.append({"suite": "sweep", "algo": algo, "kind": "box", "family": "vector", "space_seed": 0,
                         "custom": {"bounds": [bi, bj], "act": ["Tanh", None][rep % 2]},
                         "seed": rng.randrange(1 << 30), "B": rng.randint(2, 4), "single": rng.random() < 0.3,
                         "training": rep % 4 < 2, "mask": False, "eps": 0.0, "env_defined": False})
    return cfgs


def run_sweep(chk: Check, cfgs, sink=None) -> int:
    flagged = 0
    for cfg in cfgs:
        try:
            problems, tags = sweep_one(cfg)
        except InfraError:
            raise
        except Exception as e:
            problems, tags = [f"{cfg['algo']} {cfg['kind']} obs={cfg['family']} training={cfg['training']} single={cfg['single']}: "
                              f"get_action raised {type(e).__name__}: {e}"], ["raised"]
        if sink is None:
            chk.case({k: v for k, v in cfg.items()}, nontrivial=True, tags=tags + ["suite-sweep"])
        if problems:
            flagged += 1
            if sink is None:
                fid = finding_id(cfg, problems[0])
                if fid is not None:
                    if first_of_its_kind(chk, cfg, fid):
                        chk.finding(fid, FINDINGS[fid] + " :: " + problems[0], {"case": cfg, "oracle_problems": problems[:10]})
                elif first_of_its_kind(chk, cfg, problems[0]):
                    chk.violation(problems[0], {"case": cfg, "oracle_problems": problems[:10]})
            else:
                sink.append((cfg, None, problems))
    if sink is None:
        chk.suite("oracle-sweep", len(cfgs), flagged)
    return flagged


# ============================================================================= reuse dimension (aliased, in-place rewritten inputs)
#: An environment (or a vectorising wrapper) may keep ONE pre-allocated observation buffer, ONE mask buffer and ONE
#: `infos` dict and rewrite them in place before every step.  The action returned by a call of get_action must depend
#: only on the VALUES handed to that call (plus the random draws of that call): a history of calls on aliased buffers
#: is compared, step by step, with the same history on a twin agent (same constructor seed) that gets a fresh copy of
#: every input on every call; every step is also judged by the legality oracle against the CURRENT mask values; and
#: get_action must leave the caller's objects as it found them.
REUSE_DTYPES = ["int8", "int64", "float32", "bool"]
REUSE_PARTS = ["mask", "obs", "infos", "envdef"]
_REUSE_KEY = {"action_mask": "mask", "env_defined_actions": "envdef"}      # which part an `infos` entry belongs to


def _np_equal(a, b) -> bool:
    """same structure, dtypes and values (NaN == NaN)"""
    if isinstance(a, dict) or isinstance(b, dict):
        return isinstance(a, dict) and isinstance(b, dict) and list(a) == list(b) and all(_np_equal(a[k], b[k]) for k in a)
    if isinstance(a, (tuple, list)) or isinstance(b, (tuple, list)):
        return type(a) is type(b) and len(a) == len(b) and all(_np_equal(x, y) for x, y in zip(a, b))
    if a is None or b is None:
        return a is None and b is None
    if isinstance(a, torch.Tensor) or isinstance(b, torch.Tensor):
        return isinstance(a, torch.Tensor) and isinstance(b, torch.Tensor) and a.dtype == b.dtype and \
            _np_equal(a.detach().cpu().numpy(), b.detach().cpu().numpy())
    x, y = np.asarray(a), np.asarray(b)
    if x.shape != y.shape or x.dtype != y.dtype:
        return False
    return bool(np.array_equal(x, y, equal_nan=(x.dtype.kind in "fc")))


def _rewrite(dst, src, alias: bool):
    """what the environment hands out for the next step: `dst` rewritten in place with the values of `src` (same object,
    same nested objects) when `alias`, else a fresh deep copy of `src`"""
    if not alias or dst is None:
        return copy.deepcopy(src)
    if isinstance(dst, np.ndarray) and isinstance(src, np.ndarray) and dst.shape == src.shape and dst.dtype == src.dtype:
        dst[...] = src
        return dst
    if isinstance(dst, dict) and isinstance(src, dict):
        for k in [k for k in dst if k not in src]:
            del dst[k]
        for k, v in src.items():
            dst[k] = _rewrite(dst.get(k), v, True)
        if list(dst) != list(src):                      # keep the key order of the values of this step
            items = [(k, dst[k]) for k in src]
            dst.clear()
            dst.update(items)
        return dst
    if isinstance(dst, tuple) and isinstance(src, tuple) and len(dst) == len(src):
        return tuple(_rewrite(a, b, True) for a, b in zip(dst, src))
    return copy.deepcopy(src)


def reuse_mask(space, rng: random.Random, B: int, prev, style: str):
    """(B, n) 0/1 rows with at least one legal action per sub-distribution; every row differs from the previous step's row;
    style `onehot`: exactly one legal action per sub-distribution (a stale mask then certainly shows)"""
    from gymnasium import spaces
    if isinstance(space, spaces.Discrete):
        parts = [int(space.n)]
    elif isinstance(space, spaces.MultiDiscrete):
        parts = [int(k) for k in space.nvec]
    else:
        parts = [int(space.n)]
    binary = isinstance(space, spaces.MultiBinary)
    rows = []
    for b in range(B):
        for _ in range(50):
            row = []
            for k in parts:
                if style == "onehot" and not binary:
                    j = rng.randrange(k)
                    row += [1 if i == j else 0 for i in range(k)]
                else:
                    row += rng.choice(all_masks(k) if binary else all_masks(k)[1:])
            if prev is None or list(prev[b]) != row or (len(row) == 1 and not binary):
                break
        rows.append(row)
    return rows


def reuse_values(agent, cfg, t: int, prev):
    """the VALUES of step t of the history: {"obs", "mask" (single-agent) | "infos" (multi-agent), "legal": rows per agent}"""
    ag = _agents()
    algo, kind, fam = cfg["algo"], cfg["kind"], cfg["family"]
    B = 1 if cfg["single"] else cfg["B"]
    rng = random.Random(cfg["seed"] * 1009 + t)
    dt = np.dtype(cfg["mask_dtype"])
    style = cfg.get("style", "onehot")
    v = {"rows": {}, "envdef": {}}

    def as_mask(rows):
        arr = np.array(rows, dtype=np.int64).astype(dt)
        return arr[0] if cfg["single"] else arr

    if ag.is_bandit(algo):
        v["obs"] = ag.sample_obs(agent, algo, fam, seed=rng.randrange(1 << 30))
        if cfg["mask"]:
            rows = reuse_mask(agent.action_space, rng, 1, prev and prev["rows"].get(None), style)
            v["rows"][None] = rows
            v["mask"] = np.array(rows[0], dtype=np.int64).astype(dt)
        else:
            v["mask"] = None
        return v
    v["obs"] = sample_obs(agent, algo, B, cfg["single"], rng.randrange(1 << 30))
    if not ag.is_multi_agent(algo):
        if cfg["mask"] and kind != "box" and algo not in ("DDPG", "TD3"):
            rows = reuse_mask(agent.action_space, rng, B, prev and prev["rows"].get(None), style)
            v["rows"][None] = rows
            v["mask"] = as_mask(rows)
        else:
            v["mask"] = None
        return v
    infos = {aid: {} for aid in agent.agent_ids}
    if cfg["mask"] and kind != "box" and (algo == "IPPO" or kind == "discrete"):
        for aid in agent.agent_ids:
            rows = reuse_mask(agent.action_space[aid], rng, B, prev and prev["rows"].get(aid), style)
            v["rows"][aid] = rows
            infos[aid]["action_mask"] = as_mask(rows)
    if cfg.get("env_defined") and kind in ("discrete", "box"):
        for aid in agent.agent_ids:
            sp = agent.action_space[aid]
            if kind == "discrete":
                vals = [float(rng.randrange(int(sp.n))) if rng.random() < 0.5 else np.nan for _ in range(B)]
                infos[aid]["env_defined_actions"] = (None if np.isnan(vals[0]) else int(vals[0])) if cfg["single"] else np.array(vals)
            else:
                srng = np.random.default_rng(rng.randrange(1 << 30))
                vals = [_agents()._sample_space(sp, srng, None).astype(np.float64) if rng.random() < 0.5
                        else np.full(sp.shape, np.nan) for _ in range(B)]
                infos[aid]["env_defined_actions"] = (None if np.isnan(vals[0]).all() else vals[0]) if cfg["single"] \
                    else np.array(vals, dtype=np.float64)
            v["envdef"][aid] = vals
    for aid in agent.agent_ids:
        infos[aid]["step_count"] = t
    v["infos"] = infos
    return v


def reuse_call(agent, cfg, obs, mask, infos, t: int):
    """one call of get_action of step t -> the action(s) as numpy (multi-agent: {agent: array})"""
    ag = _agents()
    algo, kind = cfg["algo"], cfg["kind"]
    train = cfg["training"] if cfg.get("flip") is None else bool((t + cfg["flip"]) % 2)
    seed_all(cfg["seed"] + 7919 * t)
    if ag.is_bandit(algo):
        return np.asarray(agent.get_action(obs, action_mask=mask))
    if algo in ("DQN", "CQN"):
        return np.asarray(agent.get_action(obs, epsilon=cfg["eps"], action_mask=mask))
    if algo == "RainbowDQN":
        return np.asarray(agent.get_action(obs, action_mask=mask, training=train))
    if algo in ("DDPG", "TD3"):
        return np.asarray(agent.get_action(obs, training=train))
    if algo in ("PPO", "IPPO"):
        agent.set_training_mode(train)
        try:
            out = agent.get_action(obs, action_mask=mask)[0] if algo == "PPO" else agent.get_action(obs, infos=infos)[0]
        finally:
            agent.set_training_mode(True)
        return np.asarray(out) if algo == "PPO" else {a: np.asarray(x) for a, x in out.items()}
    cont, disc = agent.get_action(obs, training=train, infos=infos)
    return {a: np.asarray(x) for a, x in (disc if kind == "discrete" else cont).items()}


def reuse_one(cfg):
    """-> (problems, tags): the aliased history against the fresh-copy history on a twin agent, the legality oracle per
    step on the aliased history, and `the caller's objects are not modified` on both"""
    ag = _agents()
    algo, kind, fam = cfg["algo"], cfg["kind"], cfg["family"]
    parts = set(cfg.get("reuse", REUSE_PARTS))
    tags = [f"reuse-{algo}", f"kind-{kind}", f"obs-{fam}", f"maskdtype-{cfg['mask_dtype']}"] + [f"alias-{p}" for p in sorted(parts)]
    problems: list = []
    B = 1 if cfg["single"] else cfg["B"]

    def make():
        return mk_agent(algo, fam, sweep_spaces(algo, kind, random.Random(cfg.get("space_seed", 0))), seed=cfg.get("space_seed", 0))
    twin_a, twin_f = make(), make()
    ma = ag.is_multi_agent(algo)
    buf = {"obs": None, "mask": None, "infos": None}
    prev, prev_rows = None, {}
    label = f"{algo} {kind} obs={fam} mask dtype {cfg['mask_dtype']}"
    for t in range(cfg["steps"]):
        v = reuse_values(twin_a, cfg, t, prev)
        prev = v
        # ---- the aliased history: every input named in `reuse` is the same object as on the previous step
        obs_a = _rewrite(buf["obs"], v["obs"], "obs" in parts)
        mask_a = _rewrite(buf["mask"], v.get("mask"), "mask" in parts)
        if ma:
            if buf["infos"] is None:
                infos_a = copy.deepcopy(v["infos"])
            else:
                old = buf["infos"]
                infos_a = old if "infos" in parts else {aid: {} for aid in v["infos"]}
                for aid, ent in v["infos"].items():
                    inner = infos_a[aid]
                    for k in [k for k in inner if k not in ent]:
                        del inner[k]
                    for k, x in ent.items():
                        inner[k] = _rewrite(old[aid].get(k), x, _REUSE_KEY.get(k, "infos") in parts)
        else:
            infos_a = None
        buf = {"obs": obs_a, "mask": mask_a, "infos": infos_a}
        if not (_np_equal(obs_a, v["obs"]) and _np_equal(mask_a, v.get("mask")) and (not ma or _np_equal(infos_a, v["infos"]))):
            raise InfraError("C14 reuse suite: the in-place rewritten buffers do not hold the values of the step")
        try:
            out_a = reuse_call(twin_a, cfg, obs_a, mask_a, infos_a, t)
        except InfraError:
            raise
        except Exception as e:
            problems.append(f"{label}, step {t} on re-used input objects: get_action raised {type(e).__name__}: {str(e)[:200]}")
            break
        for name, got, want in (("observation", obs_a, v["obs"]), ("action mask", mask_a, v.get("mask")),
                                ("infos", infos_a, v.get("infos") if ma else None)):
            if not _np_equal(got, want):
                problems.append(f"{label}, step {t}: get_action modified the caller's {name} object "
                                f"(passed {_brief(want)}, afterwards {_brief(got)})")
        # ---- the same values as fresh copies on the twin agent
        obs_f, mask_f, infos_f = copy.deepcopy(v["obs"]), copy.deepcopy(v.get("mask")), copy.deepcopy(v.get("infos"))
        try:
            out_f = reuse_call(twin_f, cfg, obs_f, mask_f, infos_f, t)
        except InfraError:
            raise
        except Exception as e:
            problems.append(f"{label}, step {t} on fresh inputs: get_action raised {type(e).__name__}: {str(e)[:200]}")
            break
        # ---- legality of the aliased history against the CURRENT values
        for aid in (twin_a.agent_ids if ma else [None]):
            space = twin_a.action_space[aid] if ma else twin_a.action_space
            o = np.asarray(out_a[aid] if ma else out_a)
            who = f"{label}{'' if aid is None else ' ' + aid}, step {t} (inputs are the step-{max(t - 1, 0)} objects rewritten in place)"
            if ag.is_bandit(algo):
                if o.ndim != 0 or not 0 <= int(o) < int(twin_a.action_dim):
                    problems.append(f"{who}: arm {o.tolist()!r} outside range({int(twin_a.action_dim)})")
                elif v["rows"].get(None) is not None and not v["rows"][None][0][int(o)]:
                    problems.append(f"{who}: masked arm {int(o)} chosen (current mask {v['rows'][None][0]})")
                continue
            if o.shape[:1] != (B,):
                problems.append(f"{who}: batch of {B} observation(s) -> action shape {o.shape}")
                continue
            pg_train_box = algo in ("PPO", "IPPO") and kind == "box"      # judged in evaluation mode by the other suites
            rows = v["rows"].get(aid)
            env = v["envdef"].get(aid)
            for b in range(B):
                if env is not None and not np.all(np.isnan(np.asarray(env[b], dtype=np.float64))):
                    e = np.asarray(env[b], dtype=np.float64).reshape(-1)
                    g = np.asarray(o[b], dtype=np.float64).reshape(-1)
                    if g.shape != e.shape or not np.all(np.isnan(e) | (g == e.astype(np.float32))):
                        problems.append(f"{who} env {b}: current env-defined action {e.tolist()} not returned (got {g.tolist()})")
                    continue
                if pg_train_box:
                    continue
                if not legal(space, o[b]):
                    problems.append(f"{who} row {b}: {np.asarray(o[b]).tolist()} is not in {space}")
                elif rows is not None and env is None and not mask_ok(space, rows[b], o[b]):
                    problems.append(f"{who} row {b}: action {np.asarray(o[b]).tolist()} is masked by the CURRENT mask {rows[b]}"
                                    + (f" (previous step's mask {prev_rows[aid][b]})" if t and aid in prev_rows else ""))
        prev_rows = {aid: r for aid, r in v["rows"].items()}
        # ---- value-only dependence
        if not _np_equal(out_a, out_f) and not problems:
            problems.append(f"{label}, step {t}: the action for re-used input objects rewritten in place "
                            f"({_brief(out_a)}) differs from the action of the same history with a fresh copy of every input "
                            f"({_brief(out_f)}); same values, same seeds")
        for name, got, want in (("observation", obs_f, v["obs"]), ("action mask", mask_f, v.get("mask")),
                                ("infos", infos_f, v.get("infos") if ma else None)):
            if not _np_equal(got, want) and not any("modified the caller" in p for p in problems):
                problems.append(f"{label}, step {t}: get_action modified the caller's {name} object "
                                f"(passed {_brief(want)}, afterwards {_brief(got)})")
        if problems:
            break
    return problems, tags


def _brief(x) -> str:
    if isinstance(x, dict):
        return "{" + ", ".join(f"{k}: {_brief(v)}" for k, v in x.items()) + "}"
    if isinstance(x, tuple):
        return "(" + ", ".join(_brief(v) for v in x) + ")"
    if x is None:
        return "None"
    a = np.asarray(x)
    return (str(a.tolist()) if a.size <= 16 else f"array{a.shape}") + (f":{a.dtype}" if a.dtype.kind in "biu" else "")


def gen_reuse(rng: random.Random, tier: str):
    ag = _agents()
    cfgs = []
    for algo in ag.ALGOS:
        for kind in ag.ACTION_KINDS[algo]:
            masked = kind != "box" and (algo not in ("MADDPG", "MATD3") or kind == "discrete")
            dts = list(REUSE_DTYPES) if masked else [rng.choice(REUSE_DTYPES)]
            # (DQN used to raise on a bool mask — `(1 - mask).bool()` on a bool tensor; repaired in /repo, finding
            #  C14-dqn-bool-mask — so bool masks are generated for DQN like for every other algorithm)
            reps = 1 if tier == "quick" else 4
            for rep in range(reps):
                for i, dt in enumerate(dts):
                    # (without masks the observation is the aliased input that matters: any family, so that the conversion copies)
                    fam = "vector" if (tier == "quick" and i % 2 == 0 and masked) else rng.choice(list(ag.OBS_FAMILIES))
                    if ag.known_broken(algo, fam, kind) or not ag.supported(algo, fam, kind):
                        fam = "vector"
                    single = (i + rep) % 4 == 3
                    cfgs.append({"suite": "reuse", "algo": algo, "kind": kind, "family": fam, "space_seed": rng.randrange(3),
                                 "seed": rng.randrange(1 << 30), "B": rng.randint(2, 3), "single": single,
                                 "steps": 3 if tier == "quick" else rng.randint(3, 5), "mask": masked, "mask_dtype": dt,
                                 "style": "onehot" if (i + rep) % 2 == 0 else "random",
                                 "training": rng.random() < 0.5, "flip": rng.choice([None, None, 0, 1]),
                                 "eps": rng.choice([0.0, 0.0, 0.5, 1.0]),
                                 "env_defined": ag.is_multi_agent(algo) and kind in ("discrete", "box") and rng.random() < 0.5,
                                 "reuse": list(REUSE_PARTS)})
    return cfgs


def shrink_reuse(cfg):
    """fewer aliased parts, fewer steps, while the history still fails"""
    def fails(c):
        try:
            return bool(reuse_one(c)[0])
        except InfraError:
            raise
        except Exception:
            return False
    cur = dict(cfg)
    for p in list(cur.get("reuse", REUSE_PARTS)):
        c = dict(cur, reuse=[x for x in cur["reuse"] if x != p])
        if c["reuse"] and fails(c):
            cur = c
    for steps in range(2, cur["steps"]):
        c = dict(cur, steps=steps)
        if fails(c):
            cur = c
            break
    return cur


def run_reuse(chk: Check, cfgs, sink=None) -> int:
    flagged = 0
    if sink is None and cfgs:
        try:
            probe = dqn_agent("vector", 3)
            probe.actor.table = torch.zeros((1, 3))
            probe.get_action(sample_obs(probe, "DQN", 1, False, 0), epsilon=0.0, action_mask=np.array([[True, False, True]]))
        except RuntimeError as e:
            chk.finding("C14-dqn-bool-mask", f"DQN.get_action raised on a bool action mask [[True, False, True]]: {str(e)[:120]}",
                        {"kind": "probe", "probe": "dqn-bool-mask"})
    for cfg in cfgs:
        try:
            problems, tags = reuse_one(cfg)
        except InfraError:
            raise
        except Exception as e:
            problems, tags = [f"{cfg['algo']} {cfg['kind']} obs={cfg['family']} reuse history: raised {type(e).__name__}: {e}"], ["raised"]
        if sink is None:
            chk.case({k: v for k, v in cfg.items()}, nontrivial=True, tags=tags + ["suite-reuse"],
                     sample={"suite": "reuse", **{k: cfg[k] for k in ("algo", "kind", "family", "mask_dtype", "steps", "reuse")}})
        if problems:
            flagged += 1
            if sink is not None:
                sink.append((cfg, None, problems))
            elif finding_id(cfg, problems[0]) is not None:
                fid = finding_id(cfg, problems[0])
                if first_of_its_kind(chk, cfg, fid):
                    chk.finding(fid, FINDINGS[fid] + " :: " + problems[0], {"case": cfg, "oracle_problems": problems[:10]})
            elif first_of_its_kind(chk, cfg, re.sub(r"obs=\w+ mask dtype \w+|, step \d+.*?:", "", problems[0])):
                small = shrink_reuse(cfg)
                p2 = reuse_one(small)[0] or problems
                chk.violation(p2[0], {"case": small, "oracle_problems": p2[:10]})
    if sink is None:
        chk.suite("reuse-aliased-inputs", len(cfgs), flagged)
    return flagged


# ============================================================================= check
def pre_gate(chk: Check) -> None:
    """Regenerate lean/Gen/ActionGen.lean from the source text of the learners of the tree under test (before the Lean
    gate) and re-check `generated = model` (Proofs/ActionGenEq.lean) and the theorems over the generated definitions
    (Props/C14.lean, `C14_source_translation_*`)."""
    import common
    import py2lean_action
    import py2lean_maplumb
    # both generated files are rewritten from the tree under test BEFORE either gate builds Props.C14 (which imports both):
    # otherwise the first gate would check the theorems against a stale translation left by an earlier run on another tree
    for tr, rel in ((py2lean_action, "Gen/ActionGen.lean"), (py2lean_maplumb, "Gen/MaPlumbGen.lean")):
        try:
            tr.write_if_changed(tr.translate(common.REPO)[0], common.LEAN_DIR / rel)
        except tr.Unsupported:
            pass                                    # reported by the gate below
    common.translation_gate(chk, py2lean_action, "Gen/ActionGen.lean", ["Gen.ActionGen", "Proofs.ActionGenEq", "Props.C14"],
                            "action-selection arithmetic of get_action of DQN / CQN / RainbowDQN / DDPG / TD3 / PPO, the "
                            "per-agent loop body of IPPO / MADDPG / MATD3, DeterministicActor.forward / rescale_action and "
                            "StochasticActor.scale_action")
    common.translation_gate(chk, py2lean_maplumb, "Gen/MaPlumbGen.lean", ["Gen.MaPlumbGen", "Proofs.MaPlumbGenEq", "Props.C14"],
                            "multi-agent mask / env-defined-action plumbing: key_in_nested_dict, extract_action_masks, "
                            "extract_agent_masks, process_infos, disassemble_homogeneous_outputs and the statements of "
                            "get_action around the per-agent loop of IPPO / MADDPG / MATD3")


def run(chk: Check) -> None:
    rng = chk.rng
    chk.rule = ("stubbed networks returning dyadic q-values / head outputs / logits with ties and +-2^20; every 0/1 mask for "
                "1..5 actions; eps in {0,1/2,1}; random draws recorded from the seeded RNG or injected (zeros, ties, u on both "
                "sides of eps); Box bounds finite, asymmetric, per-dimension; multi-agent per-agent masks and env-defined "
                "actions through infos; plus a sweep of the real networks over every algorithm x action kind x observation "
                "family x training flag x single/batched; plus histories of calls on re-used, in-place rewritten mask / observation / "
                "infos objects (mask dtypes int8, int64, float32, bool) against the same histories on fresh copies; "
                "distinct = distinct case description; non-trivial = a mask with a "
                "masked action, a tie, an exploring row, an env-defined action or a continuous case")
    chk.assumptions = [
        "masks are 0/1 arrays of the action space's shape; q-values / logits are finite (no NaN)",
        "exploring rows are judged under the hypothesis of C14_explore_legal_partial (some allowed action drew a score > 0); "
        "the all-zero draw is C14_explore_zero_draw_witness and is only checked for model agreement",
        "DQN with eps = 0 explores when the uniform draw is exactly 0 (C14_eps0_zero_draw_witness); such rows are judged as exploring",
        "policy-gradient agents: Box actions are required inside the bounds in evaluation mode only (the property's wording); "
        "a masked logit is -1e8, so masked actions have float32 probability 0 whenever some allowed logit exceeds -1e8 + 104",
        "env-defined actions supplied by the environment are themselves legal",
        "float32 arithmetic is exact on the dyadic inputs used; recorded Gaussian noise / squashed samples are compared with "
        f"relative tolerance {TOL}",
    ]
    torch.set_num_threads(1)
    # 1. corpus
    corpus = []
    for f in sorted((ROOT / "corpus" / "C14").glob("*.json")):
        c = json.loads(f.read_text())
        corpus.append(c.get("replay", c).get("case", c.get("replay", c)))
    sweep_corpus = [c for c in corpus if c.get("suite") == "sweep"]
    run_cases(chk, "corpus", [c for c in corpus if c.get("suite") not in ("sweep", "history", "plumb", "reuse")])
    if sweep_corpus:
        run_sweep(chk, sweep_corpus)
    # 2. generated suites
    run_cases(chk, "dqn-exhaustive-masks", gen_dqn(rng, chk.tier))
    run_cases(chk, "masked-array", gen_ma(rng, chk.tier))
    run_cases(chk, "continuous-clip-rescale", gen_cont(rng, chk.tier))
    run_cases(chk, "multi-agent", gen_ma_multi(rng, chk.tier))
    run_cases(chk, "policy-gradient", gen_pg(rng, chk.tier))
    run_plumbing(chk, [c for c in corpus if c.get("suite") == "plumb"] + gen_plumb(rng, chk.tier))
    # 3. property oracle on the real networks
    run_sweep(chk, gen_sweep(rng, chk.tier))
    # 4. the same oracle along histories: after clone / mutations of every kind / checkpoint round trips
    run_history(chk, [c for c in corpus if c.get("suite") == "history"] + gen_history(rng, chk.tier))
    # 5. histories of calls on RE-USED input objects rewritten in place (mask / observation / infos buffers) against the
    #    same histories with fresh copies, the legality oracle on the current values, and `inputs are not modified`
    run_reuse(chk, [c for c in corpus if c.get("suite") == "reuse"] + gen_reuse(rng, chk.tier))
    repeats = {k: n for k, n in _SEEN.items() if n > 1}
    if repeats:
        chk.notes.append("failures reported once per (suite, algorithm, kind): " +
                         "; ".join(f"{k[0]}/{k[1]}/{k[2][:40]} x{n}" for k, n in repeats.items()))
    if chk.tier == "thorough":
        selftest(chk)


# ============================================================================= self-test (seeded faults)
def selftest(chk: Check) -> None:
    from agilerl.algorithms import dqn as dqn_mod
    from agilerl.algorithms import ddpg as ddpg_mod
    from agilerl.networks import actors as actors_mod
    rng = random.Random(12345)
    detected = []

    # fault 1: the greedy branch ignores the mask
    orig = dqn_mod.DQN._get_action

    def no_mask_greedy(self, obs, epsilon, action_mask):
        with torch.no_grad():
            q_values = self.actor(obs)
        rnd = torch.argmax(torch.rand_like(q_values) * action_mask, dim=-1)
        pol = torch.argmax(q_values, dim=-1)
        use = torch.empty(pol.shape).uniform_().gt(epsilon)
        return torch.where(use, pol, rnd)
    dqn_mod.DQN._get_action = no_mask_greedy
    try:
        sink: list = []
        fixed = [{"suite": "dqn", "A": 3, "eps": 0.0, "seed": 1,
                  "rows": [{"q": [7.0, 0.0, 1.0], "m": [0, 1, 1]}, {"q": [0.0, BIG, 1.0], "m": [1, 0, 1]}]}]
        run_cases(chk, "selftest", fixed + [c for c in gen_dqn(rng, "quick") if c["eps"] == 0.0][:6], sink)
    finally:
        dqn_mod.DQN._get_action = orig
    if not any(p and "masked action" in p[0] for _, _, p in sink):
        raise InfraError("C14 self-test: a greedy branch that ignores the mask was not noticed")
    detected.append("mask ignored in the greedy branch")

    # fault 2: the clip is removed
    orig2 = ddpg_mod.DDPG.get_action

    def no_clip(self, obs, training=True):
        obs = self.preprocess_observation(obs)
        with torch.no_grad():
            action = self.actor(obs).cpu().numpy()
        if training:
            action = action + self.action_noise()
        return action
    ddpg_mod.DDPG.get_action = no_clip
    try:
        sink = []
        cases = [c for c in gen_cont(rng, "quick") if c["suite"] == "cont" and c["algo"] == "DDPG" and c["training"]
                 and c.get("noise") is not None]
        for c in cases:
            c["noise"] = [16.0] * len(c["noise"])
        fixed = [{"suite": "cont", "algo": "DDPG", "act": "Tanh", "bounds": 0, "training": True, "seed": 2,
                  "noise": [16.0, 16.0, -16.0], "rows": [{"h": [0.0, 0.5, -1.0]}, {"h": [1.0, 1.0, 1.0]}]}]
        run_cases(chk, "selftest", fixed + cases[:4], sink)
    finally:
        ddpg_mod.DDPG.get_action = orig2
    if not any(p for _, _, p in sink):
        raise InfraError("C14 self-test: a DDPG.get_action without clip was not noticed")
    detected.append("clip removed")

    # fault 3: rescale uses the wrong (first dimension's) upper bound
    orig3 = actors_mod.DeterministicActor.__dict__["rescale_action"]

    def bad_rescale(action, low, high, output_activation=None):
        if output_activation in ["Tanh", "Softsign"]:
            pmin, pmax = -1.0, 1.0
        elif output_activation in ["Sigmoid", "Softmax", "GumbelSoftmax"]:
            pmin, pmax = 0.0, 1.0
        else:
            return action
        return low + (high[0] - low) * (action - pmin) / (pmax - pmin)
    actors_mod.DeterministicActor.rescale_action = staticmethod(bad_rescale)
    try:
        sink = []
        cases = [c for c in gen_cont(rng, "quick") if c["suite"] == "rescale" and c["act"] in ACTS
                 and all(isinstance(x, float) for x in c["lo"] + c["hi"]) and len(c["lo"]) > 1]
        fixed = [{"suite": "rescale", "act": "Tanh", "lo": BOUNDS[0][0], "hi": BOUNDS[0][1], "rows": [[1.0, 1.0, 1.0]]}]
        run_cases(chk, "selftest", fixed + cases[:6], sink)
        sink_b: list = []
        row = {"agent_0": {"h": [1.0, 1.0], "env": None}, "agent_1": {"h": [0.0, 1.0], "env": None},
               "other_0": {"h": [1.0, 1.0, 1.0], "env": None}}
        fixed_b = [{"suite": "macont", "algo": a, "bounds": [2, 0], "act": "Tanh", "rows": [row], "training": False,
                    "single": False, "noise": None, "seed": 3} for a in ("MADDPG", "MATD3")]
        run_cases(chk, "selftest", fixed_b, sink_b)
    finally:
        actors_mod.DeterministicActor.rescale_action = orig3
    # (through the agents the per-dimension clamp hides the fault from the oracle; the model diff must flag it)
    if not sink or not sink_b:
        raise InfraError("C14 self-test: a rescale that uses the wrong bound was not noticed "
                         f"(static: {len(sink)} flagged, through MADDPG/MATD3 eval: {len(sink_b)} flagged)")
    detected.append("rescale with the wrong bound")

    # faults 4-8: the reuse dimension (inputs that are the same objects as on the previous call, rewritten in place)
    from agilerl.algorithms import dqn_rainbow as rb_mod, cqn as cqn_mod, maddpg as maddpg_mod
    from agilerl.networks import distributions as dist_mod
    pool = gen_reuse(rng, "quick") + gen_reuse(rng, "quick")

    def flagged_with(pred, words):
        sink: list = []
        run_reuse(chk, [c for c in pool if pred(c)][:6], sink)
        return any(any(w in p[0] for w in words) for _, _, p in sink)

    # 4: the numpy.ma path keeps a private copy of the mask per source OBJECT
    o_rb = rb_mod.RainbowDQN.get_action

    def rb_cached(self, obs, action_mask=None, training=True):
        if action_mask is not None:
            if getattr(self, "_st_src", None) is not action_mask or self._st_copy.shape != action_mask.shape:
                self._st_src, self._st_copy = action_mask, np.array(action_mask, copy=True)
            action_mask = self._st_copy
        return o_rb(self, obs, action_mask=action_mask, training=training)
    rb_mod.RainbowDQN.get_action = rb_cached
    try:
        ok = flagged_with(lambda c: c["algo"] == "RainbowDQN", ["masked by the CURRENT mask", "differs from the action"])
    finally:
        rb_mod.RainbowDQN.get_action = o_rb
    if not ok:
        raise InfraError("C14 self-test: a mask copy cached per source object (RainbowDQN) was not noticed by the reuse suite")
    detected.append("mask cached per source object (numpy.ma path)")

    # 5: the policy-gradient head keeps the converted mask tensor per source object
    o_am = dist_mod.EvolvableDistribution.apply_mask

    def am_cached(self, logits, mask):
        c = getattr(self, "_st_cache", None)
        if c is None or c[0] is not mask or c[1].numel() != logits.numel():
            c = (mask, torch.as_tensor(mask, dtype=torch.bool, device=self.device).clone())
            object.__setattr__(self, "_st_cache", c)
        return o_am(self, logits, c[1])
    dist_mod.EvolvableDistribution.apply_mask = am_cached
    try:
        ok = flagged_with(lambda c: c["algo"] == "PPO" and c["kind"] != "box", ["masked by the CURRENT mask", "differs from the action"])
    finally:
        dist_mod.EvolvableDistribution.apply_mask = o_am
    if not ok:
        raise InfraError("C14 self-test: a mask tensor cached per source object (PPO head) was not noticed by the reuse suite")
    detected.append("mask tensor cached per source object (policy-gradient head)")

    # 6: the preprocessed observation is cached per source object
    o_pre = ddpg_mod.DDPG.preprocess_observation

    def pre_cached(self, observation):
        c = getattr(self, "_st_obs", None)
        if c is None or c[0] is not observation:
            c = (observation, copy.deepcopy(o_pre(self, observation)))     # (a device copy; from_numpy alone shares memory)
            self._st_obs = c
        return c[1]
    own = "preprocess_observation" in ddpg_mod.DDPG.__dict__
    ddpg_mod.DDPG.preprocess_observation = pre_cached
    try:
        ok = flagged_with(lambda c: c["algo"] == "DDPG", ["differs from the action"])
    finally:
        if own:
            ddpg_mod.DDPG.preprocess_observation = o_pre
        else:
            del ddpg_mod.DDPG.preprocess_observation
    if not ok:
        raise InfraError("C14 self-test: a preprocessed observation cached per source object (DDPG) was not noticed by the reuse suite")
    detected.append("observation cached per source object")

    # 7: get_action writes into the caller's mask;  8: ... removes the mask entries from the caller's infos
    o_cq = cqn_mod.CQN.get_action

    def cq_writes(self, obs, epsilon=0, action_mask=None):
        out = o_cq(self, obs, epsilon=epsilon, action_mask=action_mask)
        if action_mask is not None:
            action_mask[...] = 1
        return out
    cqn_mod.CQN.get_action = cq_writes
    try:
        ok = flagged_with(lambda c: c["algo"] == "CQN", ["modified the caller's action mask"])
    finally:
        cqn_mod.CQN.get_action = o_cq
    if not ok:
        raise InfraError("C14 self-test: a get_action that overwrites the caller's mask (CQN) was not noticed by the reuse suite")
    o_md = maddpg_mod.MADDPG.get_action

    def md_pops(self, obs, training=True, infos=None):
        out = o_md(self, obs, training=training, infos=infos)
        for ent in (infos or {}).values():
            if isinstance(ent, dict):
                ent.pop("action_mask", None)
        return out
    maddpg_mod.MADDPG.get_action = md_pops
    try:
        ok = flagged_with(lambda c: c["algo"] == "MADDPG" and c["kind"] == "discrete", ["modified the caller's infos"])
    finally:
        maddpg_mod.MADDPG.get_action = o_md
    if not ok:
        raise InfraError("C14 self-test: a get_action that pops entries of the caller's infos (MADDPG) was not noticed by the reuse suite")
    detected.append("caller's mask overwritten / infos entries removed")
    chk.corr["suites"].pop("selftest", None)
    chk.notes.append("self-test: detected " + "; ".join(detected))


# ============================================================================= replay
def replay(chk: Check, path: str) -> int:
    c = json.loads(open(path).read())
    c = c.get("replay", c)
    case = c.get("case", c)
    torch.set_num_threads(1)
    if case.get("suite") == "history":
        problems, _, log = history_one(case)
        print(json.dumps({"case": case, "log": log, "oracle_problems": problems[:10]}, indent=1, default=str))
        if problems:
            print(f"VIOLATION property=C14 replay={path}")
            print(f"  -> {problems[0]}"[:600])
            return 1
        return 0
    if case.get("suite") == "reuse":
        try:
            problems = reuse_one(case)[0]
        except InfraError:
            raise
        except Exception as e:
            problems = [f"reuse history raised {type(e).__name__}: {e}"]
        print(json.dumps({"case": case, "oracle_problems": problems[:10]}, indent=1, default=str))
        if problems:
            print(f"VIOLATION property=C14 replay={path}")
            print(f"  -> {problems[0]}"[:600])
            return 1
        return 0
    if case.get("suite") == "plumb":
        sink: list = []
        run_plumbing(chk, [case], sink)
        print(json.dumps({"case": case, "flagged": [(d, p) for _, d, p in sink]}, indent=1, default=str))
        if sink:
            _, d, p = sink[0]
            print(f"VIOLATION property=C14 replay={path}" + ("" if p else " no-failing-input-found"))
            if p:
                print(f"  -> {p[0]}"[:600])
            return 1
        return 0
    if case.get("suite") == "sweep":
        try:
            problems, _ = sweep_one(case)
        except Exception as e:
            problems = [f"get_action raised {type(e).__name__}: {e}"]
        print(json.dumps({"case": case, "oracle_problems": problems[:10]}, indent=1, default=str))
        if problems:
            print(f"VIOLATION property=C14 replay={path}")
            print(f"  -> {problems[0]}"[:600])
            return 1
        return 0
    diff, problems, _, impl, model, _ = one_case(chk, case)
    print(json.dumps({"diff_at": diff, "oracle_problems": problems, "impl": impl, "model": model}, indent=1, default=str))
    if problems:
        print(f"VIOLATION property=C14 replay={path}")
        print(f"  -> {problems[0]}"[:600])
        return 1
    if diff is not None:
        print(f"VIOLATION property=C14 replay={path} no-failing-input-found")
        return 1
    return 0
