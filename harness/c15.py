"""
C15 — observation handling is value-correct and batch-, agent- and env-consistent.

Correspondence (exact diff against `Model/Obs.lean` through the driver token `obs`):
  * `preprocess_observation(obs, space, normalize_images)` and the same call through
    `RLAlgorithm.preprocess_observation` (a real DQN) for Box rank 0..4 (several dtypes, uint8 images
    with normalisation on/off, finite / infinite bounds), Discrete (incl. n = 1), MultiDiscrete,
    MultiBinary and one-level Dict / Tuple of these; inputs as numpy arrays, torch tensors,
    TensorDicts and Python numbers; unbatched, batched, batch-of-one, (step, env), column and
    wrong-rank forms;
  * `maybe_add_batch_dim` (numpy and torch), `get_vect_dim`, `obs_to_tensor`;
  * `MultiAgentRLAlgorithm.preprocess_observation` (MADDPG), `IPPO.preprocess_observation`,
    `assemble_/disassemble_homogeneous_outputs`, `stack_critic_observations` on real agents.
Oracle (independent of Lean; the statement itself): dtype/shape = batch + network shape; one-hot at
the value's position; min-max scaled value; `preprocess(batch)[i] == preprocess(single_i)[0]`;
`get_vect_dim` = number of environments; at agent level `get_action(batch)` with exploration off
equals `get_action` of each element alone, under permutations of the batch, of the environments and
of the agents' order in the observation dictionary (DQN greedy action + Q-values, IPPO value
estimates through the shared policy, MADDPG actions and centralised-critic values);
`obs_channels_to_first` moves the channel axis of rank-3 / rank-4 arrays (values included), leaves other
ranks alone, rejects non-arrays.

Encoder-consistency suite (`consist`): DQN/CQN/DDPG/TD3/PPO/MADDPG/MATD3/IPPO are built with normalising
encoders (CNN / multi-input layer_norm=True -> BatchNorm, MLP layer_norm), go through training mode and one real
learn() step, then — through public entry points only — the Q-values / greedy action / value estimate of one
observation alone (unbatched, batch of one) must equal those inside batches of other size, composition, order.
Values (round 5), suites `normalise-values`, `agent-routing` and the `ma_het` part of `multi-agent-preprocess`:
  * `preprocess_observation` on image Boxes with per-pixel bounds (negative lows, different ranges per element), bounds
    (0, 1), `+inf` in high only / `-inf` in low only / both, DEGENERATE pixels (low == high), rank-4 Boxes (must not be
    scaled), space dtypes uint8 / int8 / int16 / float32 with observations in the space's dtype or float32, numpy and
    torch, bounds broadcast over [], [B], [T, E] — against `obs normv 1` (Model `applyNormV true`, proved equal to the
    generated `apply_image_normalization`) and the statement (finite, in [0, 1], exact value up to float32 rounding);
  * `get_homo_id`, `_agent_position`, `assemble_/disassemble_homogeneous_outputs` called on an object carrying the
    attributes `__init__` derives (11..13 agents, ids that do not sort lexicographically, nested prefixes, an id without
    `_`, groups of size 1 / 3 / 9 / 10, 1..3 environment rows, unknown ids, agents absent from the call) — against
    `obs homo`, `obs pos`, `obs asm`, `obs dis`;
  * MADDPG / MATD3 `preprocess_observation` when the groups' spaces have the same class but different bounds / sizes.
A second translator, `py2lean_obsval.py`, translates the VALUE logic (`maybe_add_batch_dim`,
`apply_image_normalization`, the leaf chain of `preprocess_observation`, the routing functions) into
`lean/Gen/ObsValGen.lean`; `Proofs/ObsValGenEq.lean` proves it equal to the model.
Source translation (`pre_gate`, before the Lean gate): `py2lean_obs.py` translates the source text of
`obs_channels_to_first`, `obs_to_tensor`, `maybe_add_batch_dim`, `get_vect_dim`, `preprocess_observation`
(agilerl/utils/algo_utils.py of the tree under test; the SHAPE logic, values are cut) into
`lean/Gen/ObsGen.lean`; `Proofs/ObsGenEq.lean` proves the generated definitions equal to the shape projection
of the model (`maybeAddBatchDim`, `getVectDim(All)`, `preprocess`, `preprocessAll`) and `Props/C15.lean`
restates the shape theorems over the generated definitions (`C15_source_translation_*`).  If the translator
rejects the source or those proofs stop checking, that is a gate problem naming the broken declaration; the
suites below then supply the failing input if there is one (else the VIOLATION line ends with
no-failing-input-found).
"""
from __future__ import annotations

import json
import random
import warnings
from fractions import Fraction

import numpy as np
import torch

import common
import py2lean_obs
import py2lean_obsval
import py2lean_obsma
from common import ROOT, Check, InfraError, ddmin, frac

warnings.filterwarnings("ignore")

HALF_ULP32 = Fraction(1, 2 ** 24)
# agent-id sets; the non-alphabetical ones matter: gymnasium's Dict space sorts its keys, agent_ids do not
ID_SETS = {
    "abc": ["a_0", "a_1", "b_0"],
    "sl": ["speaker_0", "listener_0"],                       # environment order, not alphabetical
    "zb": ["z_1", "z_0", "b_0"],                             # group z listed 1, 0; group b after z
    "drones": [f"drone_{i}" for i in range(11)],             # "drone_10" sorts before "drone_2"
}
AGENTS = list(ID_SETS["abc"])
GROUPS = {"a": ["a_0", "a_1"], "b": ["b_0"]}


def use_ids(key) -> None:
    """select the agent-id set the multi-agent runners work with"""
    global AGENTS, GROUPS
    AGENTS = list(ID_SETS[key or "abc"])
    GROUPS = {}
    for a in AGENTS:
        GROUPS.setdefault(a.rsplit("_", 1)[0], []).append(a)

def pre_gate(chk: Check) -> None:
    """Regenerate lean/Gen/ObsGen.lean from the source text of the tree under test (before the Lean gate) and
    re-check `generated = shape projection of the model` (Proofs/ObsGenEq.lean) and the theorems over the
    generated definitions (Props/C15.lean).  A failure is a gate problem; the suites then look for the input."""
    # both generated files are written first: Props.C15 imports both, and the first gate's build must not see a
    # stale Gen/ObsValGen.lean left by a run against another tree
    try:
        _t, _ = py2lean_obsval.translate(common.REPO)
        py2lean_obsval.write_if_changed(_t, common.LEAN_DIR / "Gen" / "ObsValGen.lean")
    except py2lean_obsval.Unsupported:
        pass        # reported by the second gate below
    try:
        _t, _ = py2lean_obsma.translate(common.REPO)
        py2lean_obsma.write_if_changed(_t, common.LEAN_DIR / "Gen" / "ObsMaGen.lean")
    except py2lean_obsma.Unsupported:
        pass        # reported by the third gate below
    common.translation_gate(chk, py2lean_obs, "Gen/ObsGen.lean", ["Gen.ObsGen", "Proofs.ObsGenEq", "Props.C15"],
                            "obs_channels_to_first, obs_to_tensor, maybe_add_batch_dim, get_vect_dim, "
                            "preprocess_observation: shape logic")
    # the VALUE logic: normalisation (bypasses, guarded scale, broadcast), one-hot values, batch dimension with data,
    # agent-id grouping / positions, assemble / disassemble / critic stacking
    common.translation_gate(chk, py2lean_obsval, "Gen/ObsValGen.lean",
                            ["Gen.ObsValGen", "Proofs.ObsValGenEq", "Props.C15"],
                            "maybe_add_batch_dim, apply_image_normalization, preprocess_observation leaf chain, "
                            "get_homo_id, _agent_position, assemble/disassemble_homogeneous_outputs, "
                            "stack_critic_observations: values")
    # the multi-agent dict loops: which space is paired with which agent, group sums, group order
    common.translation_gate(chk, py2lean_obsma, "Gen/ObsMaGen.lean",
                            ["Gen.ObsMaGen", "Proofs.ObsMaGenEq", "Props.C15"],
                            "MultiAgentRLAlgorithm.preprocess_observation, sum_shared_rewards, "
                            "IPPO.preprocess_observation, IPPO.assemble_shared_inputs: dict loops")


# findings analysed in the build round; each is probed on exactly its own input class.  A failing probe is a
# VIOLATION unless known_findings.json lists the id as open.
F_VECT_MB = "C15-vectdim-multibinary"
F_VECT_NUM = "C15-vectdim-python-number"
F_MD_STEPENV = "C15-multidiscrete-step-env"
F_NONCONTIG = "C15-noncontiguous-step-env"
F_AGENT_ORDER = "C15-agent-order"
F_BOX0 = "C15-box-rank0"
F_DQN_EVAL = "C15-dqn-eval-mode"
F_PPO_EVAL = "C15-ppo-eval-mode"
F_NORM_DEGEN = "C15-normalize-degenerate-bound"


# ----------------------------------------------------------------------------- spaces and observations
def numel(shape) -> int:
    n = 1
    for d in shape:
        n *= int(d)
    return n


def build_space(sd):
    from gymnasium import spaces
    k = sd["kind"]
    if k == "box":
        shape = tuple(sd["shape"])
        dt = np.dtype(sd.get("sdtype", "float32"))
        low = np.array([float(x) for x in sd["low"]], dtype=np.float64).reshape(shape).astype(dt)
        high = np.array([float(x) for x in sd["high"]], dtype=np.float64).reshape(shape).astype(dt)
        return spaces.Box(low=low, high=high, shape=shape, dtype=dt)
    if k == "disc":
        return spaces.Discrete(sd["n"])
    if k == "mdisc":
        return spaces.MultiDiscrete(sd["nvec"])
    if k == "mbin":
        return spaces.MultiBinary(sd["n"])
    if k == "dict":
        return spaces.Dict({key: build_space(m) for key, m in sd["members"]})
    if k == "tuple":
        return spaces.Tuple(tuple(build_space(m) for _, m in sd["members"]))
    raise InfraError(f"space kind {k}")


def obs_shape(sd):
    k = sd["kind"]
    return {"box": lambda: list(sd["shape"]), "disc": lambda: [], "mdisc": lambda: [len(sd["nvec"])],
            "mbin": lambda: [sd["n"]]}[k]()


def net_shape(sd):
    """the network's input shape (a scalar Box is ONE input feature: networks use spaces.flatdim)"""
    k = sd["kind"]
    return {"box": lambda: list(sd["shape"]) or [1], "disc": lambda: [sd["n"]], "mdisc": lambda: [sum(sd["nvec"])],
            "mbin": lambda: [sd["n"]]}[k]()


def bound_word(x) -> str:
    x = float(x)
    if x == float("inf"):
        return "inf"
    if x == float("-inf"):
        return "-inf"
    return frac(x)


def space_sections(sd) -> str:
    k = sd["kind"]
    if k == "box":
        sp = build_space(sd)
        lo = " ".join(bound_word(v) for v in np.asarray(sp.low, dtype=np.float64).reshape(-1))
        hi = " ".join(bound_word(v) for v in np.asarray(sp.high, dtype=np.float64).reshape(-1))
        return f"box {' '.join(map(str, sd['shape']))} | {lo} | {hi}"
    if k == "disc":
        return f"disc {sd['n']}"
    if k == "mdisc":
        return "mdisc " + " ".join(map(str, sd["nvec"]))
    if k == "mbin":
        return f"mbin {sd['n']}"
    raise InfraError(k)


def make_leaf_obs(sd, lead, rows, container, dtype):
    """the observation object handed to the implementation"""
    shape = list(lead) + obs_shape(sd)
    flat = [v for r in rows for v in r]
    if container == "number":
        v = flat[0]
        return int(v) if float(v) == int(v) and dtype != "float" else float(v)
    arr = np.array([float(v) for v in flat], dtype=np.float64).reshape(shape).astype(np.dtype(dtype))
    if container == "numpy":
        return arr
    if container == "npscalar":
        return arr.reshape(()).astype(np.dtype(dtype))[()]
    if container == "torch":
        return torch.from_numpy(arr.copy())
    raise InfraError(container)


def float32_values(sd, rows, dtype):
    """what obs_to_tensor makes of the values (exact)"""
    flat = [float(v) for r in rows for v in r]
    a = np.array(flat, dtype=np.float64).astype(np.dtype(dtype) if dtype != "float" else np.float64)
    return [Fraction(float(x)) for x in a.astype(np.float32)]


def canon_tensor(t):
    t = t.detach().cpu()
    return list(t.shape), [Fraction(float(x)) for x in t.reshape(-1).to(torch.float64).tolist()]


def parse_model(line: str):
    if line == "reject":
        return "reject"
    if not line.startswith("ok"):
        return ("bad", line)
    body = line[2:].split("|")
    shape = [int(w) for w in body[0].split()]
    data = [Fraction(w) for w in body[1].split()] if len(body) > 1 else []
    return shape, data


def same_values(impl, model, exact: bool) -> bool:
    if len(impl) != len(model):
        return False
    for a, b in zip(impl, model):
        if a == b:
            continue
        if exact or abs(a - b) > HALF_ULP32 * max(abs(b), Fraction(1, 2 ** 100)):
            return False
    return True


def normalised(sd, norm) -> bool:
    if sd["kind"] != "box" or len(sd["shape"]) != 3 or not norm:
        return False
    sp = build_space(sd)
    return not (np.isinf(sp.high).any() or np.isinf(sp.low).any())


# ----------------------------------------------------------------------------- value oracle (no Lean)
def expected_row(sd, norm, row32):
    """independent Python statement of what one observation must become (exact rationals)"""
    k = sd["kind"]
    if k == "box":
        if normalised(sd, norm):
            sp = build_space(sd)
            lo = [Fraction(float(x)) for x in np.asarray(sp.low, np.float64).reshape(-1)]
            hi = [Fraction(float(x)) for x in np.asarray(sp.high, np.float64).reshape(-1)]
            return [(x - l) / (h - l) for x, l, h in zip(row32, lo, hi)]
        return list(row32)
    if k == "disc":
        v = int(row32[0])           # truncation towards zero like .long()
        return [Fraction(1 if i == v else 0) for i in range(sd["n"])]
    if k == "mdisc":
        out = []
        for n, x in zip(sd["nvec"], row32):
            v = int(x)
            out += [Fraction(1 if i == v else 0) for i in range(n)]
        return out
    if k == "mbin":
        return list(row32)
    raise InfraError(k)


def row_valid(sd, row32) -> bool:
    k = sd["kind"]
    if k == "disc":
        return 0 <= int(row32[0]) < sd["n"]
    if k == "mdisc":
        return all(0 <= int(x) < n for n, x in zip(sd["nvec"], row32))
    return True


# ----------------------------------------------------------------------------- DQN agents (single-agent entry point)
_AGENTS: dict = {}


def mlp_cfg():
    return {"encoder_config": {"hidden_size": [8]}, "head_config": {"hidden_size": [8]}}


def cnn_cfg():
    return {"encoder_config": {"channel_size": [2], "kernel_size": [2], "stride_size": [1]},
            "head_config": {"hidden_size": [8]}}


def dqn_for(sd, norm: bool, seed: int = 7):
    from gymnasium import spaces
    from agilerl.algorithms.dqn import DQN
    key = ("dqn", json.dumps(sd, sort_keys=True), norm, seed)
    if key not in _AGENTS:
        torch.manual_seed(seed)
        np.random.seed(seed)
        cfg = None
        if sd["kind"] == "box" and len(sd["shape"]) == 3:
            cfg = cnn_cfg()
        elif sd["kind"] in ("box", "disc", "mdisc", "mbin") and not (sd["kind"] == "box" and len(sd["shape"]) == 4):
            cfg = mlp_cfg()
        _AGENTS[key] = DQN(build_space(sd), spaces.Discrete(3), net_config=cfg, normalize_images=norm)
    return _AGENTS[key]


# ----------------------------------------------------------------------------- op: prep (leaf or composite)
def leaf_members(case):
    sd = case["space"]
    if sd["kind"] in ("dict", "tuple"):
        return [(key, m, case["rows"][i], case["dtypes"][i]) for i, (key, m) in enumerate(sd["members"])]
    return [(None, sd, case["rows"], case["dtype"])]


def build_obs(case, lead=None, rows_sel=None):
    """observation object for the whole case (or for a single row when rows_sel is given)"""
    sd = case["space"]
    lead = case["lead"] if lead is None else lead
    cont = case["container"]
    members = leaf_members(case)
    if sd["kind"] in ("dict", "tuple"):
        leaf_cont = {"tensordict": "torch", "dict-numpy": "numpy", "dict-torch": "torch", "dict-number": "number",
                     "tuple-numpy": "numpy", "tuple-torch": "torch"}[cont]
        objs = []
        for key, m, rows, dt in members:
            rr = rows if rows_sel is None else [rows[rows_sel]]
            c = leaf_cont
            if c == "number" and (obs_shape(m) != [] or lead != []):
                c = "numpy"
            objs.append(make_leaf_obs(m, lead, rr, c, dt))
        if sd["kind"] == "tuple":
            return tuple(objs)
        pairs = [(key, o) for (key, _, _, _), o in zip(members, objs)]
        if case.get("dict_order"):
            pairs = [pairs[i] for i in case["dict_order"]]    # the environment's insertion order, not the sorted one
        elif case.get("dict_reversed"):
            pairs.reverse()                  # member-by-member must not depend on the dict's key order
        d = dict(pairs)
        if cont == "tensordict":
            from tensordict import TensorDict
            bs = [lead[0]] if len(lead) >= 1 else []
            return TensorDict(d, batch_size=bs)
        return d
    _, m, rows, dt = members[0]
    rr = rows if rows_sel is None else [rows[rows_sel]]
    return make_leaf_obs(m, lead, rr, cont, dt)


def snapshot(obs):
    """deep copy of the caller's observation object as plain numpy"""
    if hasattr(obs, "keys"):
        return {k: snapshot(obs[k]) for k in obs.keys()}
    if isinstance(obs, tuple):
        return tuple(snapshot(o) for o in obs)
    if isinstance(obs, torch.Tensor):
        return obs.detach().clone().numpy()
    return np.array(obs, copy=True)


def unchanged(obs, snap) -> bool:
    if hasattr(obs, "keys"):
        return list(obs.keys()) == list(snap.keys()) and all(unchanged(obs[k], snap[k]) for k in snap)
    if isinstance(obs, tuple):
        return len(obs) == len(snap) and all(unchanged(o, s) for o, s in zip(obs, snap))
    cur = obs.detach().numpy() if isinstance(obs, torch.Tensor) else np.asarray(obs)
    return cur.shape == snap.shape and cur.dtype == snap.dtype and np.array_equal(cur, snap)


def call_prep(case, obs):
    from agilerl.utils.algo_utils import preprocess_observation
    if case.get("via") == "dqn":
        return dqn_for(case["space"], case["norm"]).preprocess_observation(obs)
    return preprocess_observation(obs, build_space(case["space"]), normalize_images=case["norm"])


def split_result(case, out):
    sd = case["space"]
    if sd["kind"] == "dict":
        return [out[key] for key, _ in sd["members"]]
    if sd["kind"] == "tuple":
        return list(out)
    return [out]


def accepted_form(m, lead) -> bool:
    return len(lead) <= 2


def run_prep(case):
    """returns (impl observable per member | 'reject', model op lines, oracle problems, tags)"""
    members = leaf_members(case)
    lead = case["lead"]
    norm = case["norm"]
    problems, tags = [], []
    model_ops = []
    for _, m, rows, dt in members:
        vals = float32_values(m, rows, dt)
        shape = list(lead) + obs_shape(m)
        model_ops.append(f"obs prep {1 if norm else 0} | {space_sections(m)} | {' '.join(map(str, shape))} | "
                         + " ".join(frac(v) for v in vals))
    valid = all(accepted_form(m, lead) and all(row_valid(m, float32_values(m, [r], dt)) for r in rows)
                for _, m, rows, dt in members)
    pure_problem = None
    try:
        obs = build_obs(case)
        snap = snapshot(obs)
        out = call_prep(case, obs)
        outs = split_result(case, out)
        impl = [canon_tensor(o) for o in outs]
        raised = None
        # preparing is a pure function of the observation: the caller's object is untouched and preparing the
        # SAME object again gives the same tensors
        if not unchanged(obs, snap):
            pure_problem = "preparing the observation modified the caller's object in place"
        else:
            again = [canon_tensor(o) for o in split_result(case, call_prep(case, obs))]
            if again != impl:
                pure_problem = "preparing the same observation object a second time gives different values"
            elif not unchanged(obs, snap):
                pure_problem = "the second preparation modified the caller's object in place"
    except Exception as e:  # noqa: BLE001
        impl, raised, outs = "reject", e, None
    nobs = numel(lead)
    tags.append("prep-" + case["space"]["kind"])
    tags.append("form-" + case["form"])
    tags.append("in-" + case["container"])
    if pure_problem:
        problems.append(pure_problem)
        tags.append("purity-violated")
    elif raised is None:
        tags.append("purity-checked")
    if valid:
        if raised is not None:
            problems.append(f"a legal {case['form']} {case['space']['kind']} observation was rejected: "
                            f"{type(raised).__name__}: {str(raised)[:120]}")
        else:
            for (key, m, rows, dt), o, (shp, data) in zip(members, outs, impl):
                want = [nobs] + net_shape(m)
                if o.dtype != torch.float32:
                    problems.append(f"member {key}: dtype {o.dtype} is not float32")
                if shp != want:
                    problems.append(f"member {key}: result shape {shp} != batch + network shape {want}")
                    continue
                exp = []
                for r in rows:
                    exp += expected_row(m, norm, float32_values(m, [r], dt))
                if not same_values(data, exp, exact=not normalised(m, norm)):
                    problems.append(f"member {key}: values differ from the specification "
                                    f"(one-hot / scaling / identity): got {[str(x) for x in data[:12]]} "
                                    f"want {[str(x) for x in exp[:12]]}")
                if normalised(m, norm):
                    tags.append("normalised")
            # row-wise: preprocess(batch)[i] == preprocess(single_i)[0]
            if not problems and case["form"] != "unbatched":
                for i in range(nobs):
                    try:
                        single = split_result(case, call_prep(case, build_obs(case, lead=[], rows_sel=i)))
                    except Exception as e:  # noqa: BLE001
                        problems.append(f"row {i} alone was rejected: {type(e).__name__}: {str(e)[:100]}")
                        break
                    for (key, m, _, _), o, s in zip(members, outs, single):
                        if list(s.shape) != [1] + net_shape(m) or not torch.equal(o[i], s[0]):
                            problems.append(f"member {key}: row {i} of the batch differs from the observation "
                                            f"prepared alone ({o[i].reshape(-1).tolist()[:8]} vs "
                                            f"{s.reshape(-1).tolist()[:8]})")
                            break
                    if problems:
                        break
                tags.append("rowwise-checked")
    return impl, model_ops, problems, tags


def diff_prep(case, impl, model_lines):
    """None if implementation and model agree"""
    members = leaf_members(case)
    parsed = [parse_model(ln) for ln in model_lines]
    if any(isinstance(p, tuple) and p and p[0] == "bad" for p in parsed):
        raise InfraError(f"driver answered {model_lines} for a prep op")
    model_reject = any(p == "reject" for p in parsed)
    if impl == "reject" or model_reject:
        if impl == "reject" and model_reject:
            return None
        return f"implementation {'rejects' if impl == 'reject' else 'accepts'}, model " \
               f"{'rejects' if model_reject else 'accepts'}"
    for (key, m, _, _), (ishape, idata), (mshape, mdata) in zip(members, impl, parsed):
        if ishape != mshape:
            return f"member {key}: shape impl={ishape} model={mshape}"
        if not same_values(idata, mdata, exact=not normalised(m, case["norm"])):
            return f"member {key}: values impl={[str(x) for x in idata[:10]]} model={[str(x) for x in mdata[:10]]}"
    return None


def has_rank0_box(case) -> bool:
    return any(m["kind"] == "box" and m["shape"] == [] for _, m, _, _ in leaf_members(case))


# ----------------------------------------------------------------------------- op: vect / batchdim / totensor
def deciding_member(case):
    """get_vect_dim looks at the first member of the observation (dict order / tuple position 0)"""
    members = leaf_members(case)
    if case["space"]["kind"] == "dict" and case.get("dict_order"):
        return members[case["dict_order"][0]][1]
    return members[-1][1] if case.get("dict_reversed") and case["space"]["kind"] == "dict" else members[0][1]


def run_vect(case):
    from agilerl.utils.algo_utils import get_vect_dim
    sd = case["space"]
    m0 = deciding_member(case)
    lead = case["lead"]
    shape0 = list(lead) + obs_shape(m0)
    model_ops = [f"obs vect | {' '.join(map(str, shape0))} | {' '.join(map(str, obs_shape(m0)))}"]
    problems = []
    want = lead[0] if len(lead) >= 1 else 1
    try:
        got = int(get_vect_dim(build_obs(case), build_space(sd)))
        impl = [str(got)]
        if got != want:
            problems.append(f"get_vect_dim = {got} for {want} environment(s)")
    except Exception as e:  # noqa: BLE001
        impl = ["raised"]
        problems.append(f"get_vect_dim raised {type(e).__name__}: {str(e)[:120]}")
    return impl, model_ops, problems, ["vect-" + sd["kind"], "in-" + case["container"]]


def run_batchdim(case):
    from agilerl.utils.algo_utils import maybe_add_batch_dim
    shape, p = case["shape"], case["space_shape"]
    arr = np.arange(numel(shape), dtype=np.float32).reshape(shape)
    obs = arr if case["container"] == "numpy" else torch.from_numpy(arr)
    model_ops = [f"obs batchdim | {' '.join(map(str, shape))} | {' '.join(map(str, p))}"]
    problems = []
    extra = len(shape) - len(p)
    try:
        out = maybe_add_batch_dim(obs, tuple(p))
        impl = ["ok " + " ".join(map(str, out.shape))]
        flat = np.asarray(out).reshape(-1) if case["container"] == "numpy" else out.reshape(-1).numpy()
        if not np.array_equal(flat, arr.reshape(-1)):
            problems.append("maybe_add_batch_dim changed the row-major data")
        if 0 <= extra <= 2 and shape[extra:] == p and list(out.shape) != [numel(shape[:extra])] + p:
            problems.append(f"shape {list(out.shape)} != [{numel(shape[:extra])}] + {p}")
        if not 0 <= extra <= 2:
            problems.append(f"rank {len(shape)} accepted for a rank-{len(p)} space")
    except Exception as e:  # noqa: BLE001
        impl = ["reject"]
        if 0 <= extra <= 2 and shape[extra:] == p:
            problems.append(f"maybe_add_batch_dim raised {type(e).__name__} on a legal shape {shape} for {p}")
    return impl, model_ops, problems, [f"batchdim-extra{extra}", "in-" + case["container"]]


def run_totensor(case):
    """obs_to_tensor: float32, same shape, same values — for every container (no model op: conversion only)"""
    from agilerl.utils.algo_utils import obs_to_tensor
    problems = []
    obs = build_obs(case)
    out = obs_to_tensor(obs, "cpu")
    for (key, m, rows, dt), o in zip(leaf_members(case), split_result(case, out)):
        if case["container"] == "tensordict":
            o = obs_to_tensor(o, "cpu")     # members are converted when preprocess recurses
        shp, data = canon_tensor(o)
        if o.dtype != torch.float32 or shp != list(case["lead"]) + obs_shape(m) \
                or data != float32_values(m, rows, dt):
            problems.append(f"obs_to_tensor member {key}: dtype={o.dtype} shape={shp}")
    return [], [], problems, ["totensor", "in-" + case["container"]]


# ----------------------------------------------------------------------------- multi-agent agents
def ma_spaces(kind):
    from gymnasium import spaces
    if kind == "vector":
        return [spaces.Box(-4, 4, (3,), dtype=np.float32) for _ in AGENTS]
    if kind == "discrete":
        return [spaces.Discrete(4) for _ in AGENTS]
    if kind == "image":
        return [spaces.Box(0, 255, (1, 3, 3), dtype=np.uint8) for _ in AGENTS]
    if kind == "mbin":
        return [spaces.MultiBinary(3) for _ in AGENTS]
    if kind == "dict":      # members of different rank; gymnasium sorts the keys: lane < pos
        return [spaces.Dict({"pos": spaces.Box(-4, 4, (3,), dtype=np.float32), "lane": spaces.Discrete(4)})
                for _ in AGENTS]
    raise InfraError(kind)


def ma_space_desc(kind):
    if kind == "vector":
        return {"kind": "box", "shape": [3], "low": [-4] * 3, "high": [4] * 3, "sdtype": "float32"}
    if kind == "discrete":
        return {"kind": "disc", "n": 4}
    if kind == "mbin":
        return {"kind": "mbin", "n": 3}
    return {"kind": "box", "shape": [1, 3, 3], "low": [0] * 9, "high": [255] * 9, "sdtype": "uint8"}


def ma_agent(algo, kind, seed=11):
    """the agent for the currently selected id set (use_ids)"""
    from gymnasium import spaces
    key = (algo, kind, seed, tuple(AGENTS))
    if key not in _AGENTS:
        torch.manual_seed(seed)
        np.random.seed(seed)
        cfg = cnn_cfg() if kind == "image" else (None if kind == "dict" else mlp_cfg())
        if algo == "ippo":
            from agilerl.algorithms.ippo import IPPO
            ag = IPPO(ma_spaces(kind), [spaces.Discrete(2) for _ in AGENTS], agent_ids=list(AGENTS), net_config=cfg)
        else:
            from agilerl.algorithms.maddpg import MADDPG
            ag = MADDPG(ma_spaces(kind), [spaces.Box(-1, 1, (2,), dtype=np.float32) for _ in AGENTS],
                        agent_ids=list(AGENTS), net_config=cfg)
        _AGENTS[key] = ag
    return _AGENTS[key]


def ma_obs(kind, E, seed, vect=True):
    r = np.random.default_rng(seed)
    out = {}
    for a in AGENTS:
        if kind == "vector":
            x = (r.integers(-16, 17, (E, 3)) / 4.0).astype(np.float32)
        elif kind == "discrete":
            x = r.integers(0, 4, (E,)).astype(np.int64)
        elif kind == "mbin":
            x = r.integers(0, 2, (E, 3)).astype(np.int8)
        elif kind == "dict":
            # insertion order pos, lane: NOT the sorted key order of the space
            x = {"pos": (r.integers(-16, 17, (E, 3)) / 4.0).astype(np.float32),
                 "lane": r.integers(0, 4, (E,)).astype(np.int64)}
        else:
            # odd seeds: float32 frames (obs_to_tensor does not copy those), even seeds: uint8
            x = r.integers(0, 256, (E, 1, 3, 3)).astype(np.float32 if seed % 2 else np.uint8)
        out[a] = x if vect else sel(x, 0)
    return out


def sel(x, idx):
    """index the environment dimension of one agent's observation (array or dict of arrays)"""
    if isinstance(x, dict):
        return {k: v[idx] for k, v in x.items()}
    return x[idx]


def ma_rows(kind, arr, vect=True):
    a = np.asarray(arr, dtype=np.float64)
    sd = ma_space_desc(kind)
    k = numel(obs_shape(sd))
    flat = a.reshape(-1)
    return [list(map(float, flat[i * k:(i + 1) * k])) for i in range(len(flat) // k)]


def run_ma_prep(case):
    """MultiAgentRLAlgorithm.preprocess_observation (MADDPG) / IPPO.preprocess_observation vs the model"""
    use_ids(case.get("ids"))
    algo, kind, E, vect = case["algo"], case["kind"], case["E"], case["vect"]
    ag = ma_agent(algo, kind)
    obs = ma_obs(kind, E, case["seed"], vect)
    sd = ma_space_desc(kind)
    lead = [E] if vect else []
    problems, model_ops, impl = [], [], []
    per_agent = {}
    for a in AGENTS:
        rows = ma_rows(kind, obs[a], vect)
        dt = {"vector": "float32", "discrete": "int64", "mbin": "int8",
              "image": "float32" if case["seed"] % 2 else "uint8"}[kind]
        vals = float32_values(sd, rows, dt)
        model_ops.append(f"obs prep 1 | {space_sections(sd)} | {' '.join(map(str, lead + obs_shape(sd)))} | "
                         + " ".join(frac(v) for v in vals))
        per_agent[a] = rows
    out = ag.preprocess_observation(obs)
    nrows = E if vect else 1
    if algo == "maddpg":
        for a in AGENTS:
            impl.append(canon_tensor(out[a]))
        if list(out.keys()) != AGENTS:
            problems.append(f"preprocess_observation returns the agents in order {list(out.keys())}; agent_ids / "
                            f"actors / critics are ordered {AGENTS}")
    else:
        # a group's tensor is the concatenation (assemble order) of its members' tensors
        for g, mem in GROUPS.items():
            impl.append(canon_tensor(out[g]))
            want = [nrows * len(mem)] + net_shape(sd)
            if list(out[g].shape) != want:
                problems.append(f"group {g}: shape {list(out[g].shape)} != {want}")
    return impl, model_ops, problems, [f"ma-prep-{algo}-{kind}", "ma-vect" if vect else "ma-single"]


def diff_ma_prep(case, impl, model_lines):
    use_ids(case.get("ids"))
    parsed = [parse_model(ln) for ln in model_lines]
    if any(p == "reject" or (isinstance(p, tuple) and p[0] == "bad") for p in parsed):
        return f"model answered {model_lines[:1]}"
    sd = ma_space_desc(case["kind"])
    exact = not normalised(sd, True)
    by_agent = dict(zip(AGENTS, parsed))
    if case["algo"] == "maddpg":
        for a, (ishape, idata) in zip(AGENTS, impl):
            if ishape != by_agent[a][0] or not same_values(idata, by_agent[a][1], exact):
                return f"agent {a}: impl shape {ishape} model {by_agent[a][0]}"
        return None
    for (g, mem), (ishape, idata) in zip(GROUPS.items(), impl):
        mshape = [sum(by_agent[a][0][0] for a in mem)] + by_agent[mem[0]][0][1:]
        mdata = [v for a in mem for v in by_agent[a][1]]       # = assembleHomogeneous of the members
        if ishape != mshape or not same_values(idata, mdata, exact):
            return f"group {g}: impl shape {ishape} model {mshape}"
    return None


def run_asm(case):
    """assemble_/disassemble_homogeneous_outputs on a real IPPO: values are small integers"""
    use_ids(case.get("ids"))
    ag = ma_agent("ippo", "vector")
    E, f, seed = case["E"], case["f"], case["seed"]
    r = np.random.default_rng(seed)
    outs = {a: (r.integers(-9, 10, (E,)) if f == 0 else r.integers(-9, 10, (E, f))).astype(np.int64)
            for a in AGENTS}
    fw = max(f, 1)
    model_ops, impl, problems = [], [], []
    asm = ag.assemble_homogeneous_outputs({a: v.copy() for a, v in outs.items()}, E)
    for g, mem in GROUPS.items():
        model_ops.append("obs asm | " + " | ".join(" ".join(str(int(x)) for x in outs[a].reshape(-1)) for a in mem))
        impl.append(" ".join(str(int(x)) for x in asm[g].reshape(-1)))
        if list(asm[g].shape) != [len(mem) * E, fw]:
            problems.append(f"assembled shape {list(asm[g].shape)} != {[len(mem) * E, fw]}")
        for i, a in enumerate(mem):
            for e in range(E):
                if not np.array_equal(asm[g][i * E + e].reshape(-1), outs[a][e].reshape(-1)):
                    problems.append(f"assembled row {i * E + e} is not (agent {a}, env {e})")
    dis = ag.disassemble_homogeneous_outputs({g: v.copy() for g, v in asm.items()}, E)
    for g, mem in GROUPS.items():
        model_ops.append(f"obs dis {len(mem)} | " + " ".join(str(int(x)) for x in asm[g].reshape(-1)))
        impl.append(" | ".join(" ".join(str(int(x)) for x in dis[a].reshape(-1)) for a in mem))
    for a in AGENTS:
        if not np.array_equal(dis[a].reshape(E, fw), outs[a].reshape(E, fw)):
            problems.append(f"disassemble(assemble(x)) != x for agent {a}")
    re = ag.assemble_homogeneous_outputs({a: v.copy() for a, v in dis.items()}, E)
    for g in GROUPS:
        if not np.array_equal(re[g], asm[g]):
            problems.append(f"assemble(disassemble(y)) != y for group {g}")
    return impl, model_ops, problems, ["asm-dis", f"asm-E{min(E, 3)}", f"asm-f{min(f, 2)}"]


def run_critic(case):
    """stack_critic_observations on a real MADDPG: row b is built from row b of every agent"""
    use_ids(case.get("ids"))
    kind, E, seed = case["kind"], case["E"], case["seed"]
    ag = ma_agent("maddpg", kind)
    obs = ma_obs(kind, E, seed, True)
    if case.get("raw"):
        pre = {a: torch.as_tensor(np.asarray(obs[a], dtype=np.float32)) for a in AGENTS}   # no scaling: exact ints
    else:
        pre = ag.preprocess_observation(obs)
    st = ag.stack_critic_observations(pre)
    ishape, idata = canon_tensor(st)
    problems = []
    if kind == "image":
        C, H, W = 1, 3, 3
        model_ops = [f"obs criticimg {E} {C} {H} {W} | " + " | ".join(
            " ".join(frac(float(x)) for x in pre[a].reshape(-1).tolist()) for a in AGENTS)]
        for b in range(E):
            for i, a in enumerate(AGENTS):
                if not torch.equal(st[b, :, i], pre[a][b]):
                    problems.append(f"critic row {b}, agent slot {i} is not row {b} of {a}")
    else:
        d = pre[AGENTS[0]].shape[1]
        model_ops = [f"obs critic {E} | " + " | ".join(
            f"{d} " + " ".join(frac(float(x)) for x in pre[a].reshape(-1).tolist()) for a in AGENTS)]
        for b in range(E):
            want = torch.cat([pre[a][b] for a in AGENTS])
            if not torch.equal(st[b], want):
                problems.append(f"critic row {b} is not the concatenation of row {b} of every agent")
    impl = ["ok " + " ".join(map(str, ishape)) + " | " + " ".join(frac(x) for x in idata)]
    return impl, model_ops, problems, [f"critic-{kind}"]


# ----------------------------------------------------------------------------- agent-level oracles (no model)
def run_dqn_action(case):
    """greedy action / Q-values of a batch = those of each element alone, under any permutation"""
    sd, norm = case["space"], case["norm"]
    ag = dqn_for(sd, norm)
    problems = []
    n = numel(case["lead"])
    obs = build_obs(case)
    snap = snapshot(obs)
    try:
        with torch.no_grad():
            q = ag.actor(ag.preprocess_observation(obs)).detach()
        act = ag.get_action(obs, epsilon=0.0)
        if q.dim() != 2 or q.shape[0] != n:
            raise ValueError(f"Q-values of shape {list(q.shape)} for {n} observation(s)")
        # acting on an observation leaves it intact; evaluating the same object again gives the same Q-values
        with torch.no_grad():
            q_again = ag.actor(ag.preprocess_observation(obs)).detach()
        if not unchanged(obs, snap):
            return [], [], ["acting on the observation modified the caller's object in place"], ["dqn-action"]
        if not torch.equal(q, q_again):
            return [], [], ["Q-values of the same observation object differ when it is evaluated again"], \
                ["dqn-action"]
    except Exception as e:  # noqa: BLE001
        return [], [], [f"the network rejects a prepared batch of {n} legal observation(s): "
                        f"{type(e).__name__}: {str(e)[:120]}"], ["dqn-action"]
    top2 = torch.topk(q, 2, dim=-1).values
    clear = ((top2[:, 0] - top2[:, 1]) > 1e-4).tolist()
    if list(act.shape) != [n]:
        problems.append(f"get_action returned shape {list(act.shape)} for {n} observation(s)")
        return [], [], problems, ["dqn-action"]
    for i in range(n):
        o1 = build_obs(case, lead=[], rows_sel=i)
        with torch.no_grad():
            q1 = ag.actor(ag.preprocess_observation(o1)).detach()
        a1 = ag.get_action(o1, epsilon=0.0)
        if list(q1.shape) != [1, q.shape[1]] or not torch.allclose(q1[0], q[i], atol=1e-5, rtol=1e-5):
            problems.append(f"Q-values of observation {i} alone {q1.reshape(-1).tolist()} != in the batch {q[i].tolist()}")
        elif clear[i] and int(a1.reshape(-1)[0]) != int(act[i]):
            problems.append(f"greedy action of observation {i} alone {a1} != in the batch {act[i]}")
    perm = case.get("perm")
    if perm and len(perm) == n and not problems:
        pc = dict(case)
        if sd["kind"] in ("dict", "tuple"):
            pc["rows"] = [[rows[j] for j in perm] for rows in case["rows"]]
        else:
            pc["rows"] = [case["rows"][j] for j in perm]
        actp = ag.get_action(build_obs(pc), epsilon=0.0)
        for k, j in enumerate(perm):
            if clear[j] and int(actp[k]) != int(act[j]):
                problems.append(f"greedy action of observation {j} changes when the batch is permuted")
    return [], [], problems, ["dqn-action", "dqn-" + sd["kind"], f"dqn-batch{min(n, 3)}"]


def ippo_values(ag, obs):
    torch.manual_seed(0)
    return ag.get_action(obs)[3]


def maddpg_eval(ag, obs):
    act, _ = ag.get_action(obs, training=False)
    pre = ag.preprocess_observation(obs)
    n = pre[AGENTS[0]].shape[0]
    acts = torch.cat([torch.as_tensor(act[a]).reshape(n, -1) for a in AGENTS], dim=1)
    with torch.no_grad():
        q = ag.critics[0](ag.stack_critic_observations(pre), acts).detach().reshape(-1)
    return act, q.numpy()


def run_ma_action(case):
    use_ids(case.get("ids"))
    try:
        return _run_ma_action(case)
    except Exception as e:  # noqa: BLE001
        return [], [], [f"get_action raised on legal observations: {type(e).__name__}: {str(e)[:120]}"], \
            [f"ma-action-{case['algo']}-{case['kind']}"]


def own_network_reference(ag, algo, obs):
    """what each agent's OWN network says about its OWN observation, computed one agent at a time with the
    function-level preprocess_observation (no multi-agent routing involved)"""
    from agilerl.utils.algo_utils import preprocess_observation
    ref = {}
    for i, a in enumerate(AGENTS):
        x = preprocess_observation(obs[a], ag.observation_spaces[i], normalize_images=ag.normalize_images)
        if algo == "ippo":
            net = ag.critics[ag.shared_agent_ids.index(ag.get_homo_id(a))]
        else:
            net = ag.actors[i]
        net.eval()
        with torch.no_grad():
            ref[a] = net(x).detach().numpy()
    return ref


def _run_ma_action(case):
    """IPPO value estimates (shared policy) / MADDPG actions and centralised-critic values:
    (agent a, env e) gets what a's own network says about that observation, whatever else shares the call"""
    algo, kind, E, seed = case["algo"], case["kind"], case["E"], case["seed"]
    ag = ma_agent(algo, kind)
    obs = ma_obs(kind, E, seed, True)
    order = case.get("order") or list(AGENTS)
    env_perm = case.get("env_perm") or list(range(E))
    problems = []
    tol = dict(atol=2e-5, rtol=1e-4)
    tags = [f"ma-action-{algo}-{kind}", f"ids-{case.get('ids') or 'abc'}",
            "agent-reordered" if order != AGENTS else "agent-order-id"]

    def reorder(o, keys, envs=None):
        return {a: (o[a] if envs is None else sel(o[a], envs)) for a in keys}

    snap = snapshot(obs)
    ref = own_network_reference(ag, algo, obs)
    if algo == "ippo":
        base = ippo_values(ag, reorder(obs, AGENTS))
        if not unchanged(obs, snap):
            return [], [], ["IPPO.get_action modified the caller's observations in place"], tags
        for a in AGENTS:
            if list(base[a].shape)[0] != E:
                problems.append(f"IPPO values of {a}: shape {list(base[a].shape)} for {E} envs")
        if not problems:
            bad = [a for a in AGENTS if not np.allclose(base[a].reshape(-1), ref[a].reshape(-1), **tol)]
            if bad:
                problems.append(f"IPPO values reported for {bad[:4]} are not what the group's critic gives for "
                                f"their own observations (agent_ids {AGENTS[:4]}…): e.g. {bad[0]} got "
                                f"{base[bad[0]].reshape(-1)[:3]} want {ref[bad[0]].reshape(-1)[:3]}")
        if not problems:
            for e in range(E):            # one environment alone, unvectorised
                v1 = ippo_values(ag, {a: sel(obs[a], e) for a in AGENTS})
                for a in AGENTS:
                    if not np.allclose(v1[a].reshape(-1), base[a][e].reshape(-1), **tol):
                        problems.append(f"IPPO value of ({a}, env {e}) alone {v1[a].reshape(-1)} != in the batch "
                                        f"{base[a][e].reshape(-1)}")
                        break
            vp = ippo_values(ag, reorder(obs, AGENTS, env_perm))
            for a in AGENTS:
                if not np.allclose(vp[a].reshape(E, -1), base[a].reshape(E, -1)[env_perm], **tol):
                    problems.append(f"IPPO values of {a} change when the environments are permuted {env_perm}")
            vo = ippo_values(ag, reorder(obs, order))
            bad = [a for a in AGENTS if not np.allclose(vo[a].reshape(-1), base[a].reshape(-1), **tol)]
            if bad:
                problems.append(f"AGENT-ORDER: IPPO values of {bad} change when the observation dict is ordered {order}")
    else:
        act, q = maddpg_eval(ag, reorder(obs, AGENTS))
        if not unchanged(obs, snap):
            return [], [], ["MADDPG.get_action modified the caller's observations in place"], tags
        bad = [a for a in AGENTS if not np.allclose(act[a].reshape(-1), ref[a].reshape(-1), **tol)]
        if bad:
            problems.append(f"MADDPG actions reported for {bad} are not what their own actors give for their own "
                            f"observations (agent_ids {AGENTS})")
        pre = ag.preprocess_observation(reorder(obs, AGENTS))
        if list(pre.keys()) != AGENTS:
            problems.append(f"preprocessed observations are ordered {list(pre.keys())}, agents/actors/critics are "
                            f"ordered {AGENTS}")
        for e in range(E):
            a1, q1 = maddpg_eval(ag, {a: sel(obs[a], slice(e, e + 1)) for a in AGENTS})
            for a in AGENTS:
                if not np.allclose(a1[a].reshape(-1), act[a][e].reshape(-1), **tol):
                    problems.append(f"MADDPG action of ({a}, env {e}) alone != in the batch")
            if not np.allclose(q1[0], q[e], **tol):
                problems.append(f"centralised critic value of env {e} alone {q1[0]} != in the batch {q[e]}")
            au, _ = ag.get_action({a: sel(obs[a], e) for a in AGENTS}, training=False)      # unvectorised call
            for a in AGENTS:
                if not np.allclose(au[a].reshape(-1), act[a][e].reshape(-1), **tol):
                    problems.append(f"MADDPG action of ({a}, env {e}) unbatched != in the batch")
        ap, qp = maddpg_eval(ag, reorder(obs, AGENTS, env_perm))
        for a in AGENTS:
            if not np.allclose(ap[a], act[a][env_perm], **tol):
                problems.append(f"MADDPG actions of {a} change when the environments are permuted")
        if not np.allclose(qp, q[env_perm], **tol):
            problems.append("centralised critic values change when the environments are permuted")
        ao, qo = maddpg_eval(ag, reorder(obs, order))
        bad = [a for a in AGENTS if not np.allclose(ao[a], act[a], **tol)]
        if bad or not np.allclose(qo, q, **tol):
            problems.append(f"AGENT-ORDER: MADDPG actions of {bad} / critic values change when the observation "
                            f"dict is ordered {order}")
    return [], [], problems, tags


# ----------------------------------------------------------------------------- op: consist
# Batch-composition independence on REAL agents for every encoder configuration: what an agent reports with
# exploration off for ONE observation (greedy action, Q-values, value estimate) must not depend on which other
# observations / environments share the call — also when the encoder has layers that ARE batch-dependent in
# train mode (CNN layer_norm=True -> BatchNorm), after the agent has been in training mode and has learned once
# (so BatchNorm running statistics differ from the statistics of any batch).  Only public entry points are used.
CONSIST_SINGLE = ("dqn", "cqn", "ddpg", "td3", "ppo")
CONSIST_MULTI = ("maddpg", "matd3", "ippo")
WARM_NOTES: list = []


def enc_cfg(kind, enc):
    norm = enc == "norm"
    head = {"hidden_size": [8]}
    if kind == "image":
        return {"encoder_config": {"channel_size": [2], "kernel_size": [2], "stride_size": [1], "layer_norm": norm},
                "head_config": head}
    if kind == "vector":
        return {"encoder_config": {"hidden_size": [8], "layer_norm": norm}, "head_config": head}
    if kind == "dict":
        return {"encoder_config": {"cnn_config": {"channel_size": [2], "kernel_size": [2], "stride_size": [1],
                                                  "layer_norm": norm},
                                   "mlp_config": {"hidden_size": [8], "layer_norm": norm}},
                "head_config": head}
    raise InfraError(kind)


def consist_space(kind):
    from gymnasium import spaces
    img = spaces.Box(0, 255, (1, 4, 4), dtype=np.uint8)
    vec = spaces.Box(-4, 4, (3,), dtype=np.float32)
    return {"image": img, "vector": vec, "dict": spaces.Dict({"img": img, "vec": vec})}[kind]


def consist_rows(kind, n, seed):
    """n unbatched observations"""
    r = np.random.default_rng(seed)

    def one():
        img = r.integers(0, 256, (1, 4, 4)).astype(np.uint8)
        vec = (r.integers(-16, 17, (3,)) / 4.0).astype(np.float32)
        return {"image": img, "vector": vec, "dict": {"vec": vec, "img": img}}[kind]
    return [one() for _ in range(n)]


def stack_rows(rows):
    if isinstance(rows[0], dict):
        return {k: np.stack([r[k] for r in rows]) for k in rows[0]}
    return np.stack(rows)


def module_norm_layers(net):
    return sorted({type(m).__name__ for m in torch.nn.Module.modules(net) if "Norm" in type(m).__name__})


def warm_up(ag, algo, kind, seed):
    """the agent goes through training mode and learns once on a small synthetic batch / rollout"""
    from tensordict import TensorDict
    r = np.random.default_rng(seed + 1)
    ag.set_training_mode(True)
    how = "learn"
    try:
        if algo in ("dqn", "cqn", "ddpg", "td3"):
            B = 6
            obs, nxt = stack_rows(consist_rows(kind, B, seed + 2)), stack_rows(consist_rows(kind, B, seed + 3))
            t = (lambda x: {k: torch.as_tensor(v) for k, v in x.items()} if isinstance(x, dict) else torch.as_tensor(x))
            act = torch.as_tensor(r.integers(0, 3, (B, 1))) if algo in ("dqn", "cqn") else \
                torch.as_tensor(r.uniform(-1, 1, (B, 2)).astype(np.float32))
            exp = TensorDict({"obs": t(obs), "action": act,
                              "reward": torch.as_tensor(r.normal(size=(B, 1)).astype(np.float32)),
                              "next_obs": t(nxt), "done": torch.zeros(B, 1)}, batch_size=[B])
            ag.learn(exp)
        elif algo == "ppo":
            T, E = 3, 2
            S, A, L, R, D, V = [], [], [], [], [], []
            for t_ in range(T):
                o = stack_rows(consist_rows(kind, E, seed + 10 + t_))
                a, lp, _, v = ag.get_action(o)
                S.append(o); A.append(a); L.append(lp); V.append(v)
                R.append(r.normal(size=(E,)).astype(np.float32)); D.append(np.zeros(E, dtype=np.float32))
            ag.learn((S, A, L, R, D, V, stack_rows(consist_rows(kind, E, seed + 20)), np.zeros(E, dtype=np.float32)))
        elif algo in ("maddpg", "matd3"):
            B = 6
            st = {a: torch.as_tensor(stack_rows(consist_rows(kind, B, seed + 30 + i))) for i, a in enumerate(AGENTS)}
            nx = {a: torch.as_tensor(stack_rows(consist_rows(kind, B, seed + 40 + i))) for i, a in enumerate(AGENTS)}
            ac = {a: torch.as_tensor(r.uniform(-1, 1, (B, 2)).astype(np.float32)) for a in AGENTS}
            rw = {a: torch.as_tensor(r.normal(size=(B, 1)).astype(np.float32)) for a in AGENTS}
            dn = {a: torch.zeros(B, 1) for a in AGENTS}
            ag.learn((st, ac, rw, nx, dn))
        elif algo == "ippo":
            T, E = 3, 2
            keys = ("S", "A", "L", "R", "D", "V")
            buf = {k: {a: [] for a in AGENTS} for k in keys}
            for t_ in range(T):
                o = {a: stack_rows(consist_rows(kind, E, seed + 50 + 7 * t_ + i)) for i, a in enumerate(AGENTS)}
                act, lp, _, v = ag.get_action(o)
                for a in AGENTS:
                    buf["S"][a].append(o[a]); buf["A"][a].append(act[a]); buf["L"][a].append(lp[a])
                    buf["V"][a].append(v[a]); buf["R"][a].append(r.normal(size=(E,)).astype(np.float32))
                    buf["D"][a].append(np.zeros(E, dtype=np.float32))
            nxt = {a: stack_rows(consist_rows(kind, E, seed + 90 + i)) for i, a in enumerate(AGENTS)}
            ag.learn((buf["S"], buf["A"], buf["L"], buf["R"], buf["D"], buf["V"], nxt,
                      {a: np.zeros(E, dtype=np.float32) for a in AGENTS}))
    except Exception as e:  # noqa: BLE001  (format of learn() changed?  fall back, and say so in the evidence)
        how = "forward"
        note = f"consist warm-up: {algo}/{kind}.learn on synthetic data raised {type(e).__name__}: {str(e)[:100]}; " \
               f"used train-mode forward passes instead"
        if note not in WARM_NOTES:
            WARM_NOTES.append(note)
        nets = [n for n in (getattr(ag, "actor", None), getattr(ag, "critic", None)) if n is not None]
        nets += list(getattr(ag, "actors", [])) + list(getattr(ag, "critics", []))
        from agilerl.utils.algo_utils import preprocess_observation
        sp = consist_space(kind)
        for n in nets:
            n.train()
            for j in range(3):
                x = preprocess_observation(stack_rows(consist_rows(kind, 5, seed + 100 + j)), sp)
                try:
                    with torch.no_grad():
                        n(x)
                except Exception:  # noqa: BLE001  (critics that need actions, …)
                    break
    return how


def consist_agent(algo, kind, enc, seed=5):
    from gymnasium import spaces
    key = ("consist", algo, kind, enc, seed, tuple(AGENTS) if algo in CONSIST_MULTI else ())
    if key not in _AGENTS:
        torch.manual_seed(seed)
        np.random.seed(seed)
        sp, cfg = consist_space(kind), enc_cfg(kind, enc)
        disc, cont = spaces.Discrete(3), spaces.Box(-1, 1, (2,), dtype=np.float32)
        if algo == "dqn":
            from agilerl.algorithms.dqn import DQN
            ag = DQN(sp, disc, net_config=cfg)
        elif algo == "cqn":
            from agilerl.algorithms.cqn import CQN
            ag = CQN(sp, disc, net_config=cfg)
        elif algo == "ddpg":
            from agilerl.algorithms.ddpg import DDPG
            ag = DDPG(sp, cont, net_config=cfg)
        elif algo == "td3":
            from agilerl.algorithms.td3 import TD3
            ag = TD3(sp, cont, net_config=cfg)
        elif algo == "ppo":
            from agilerl.algorithms.ppo import PPO
            ag = PPO(sp, disc, net_config=cfg, batch_size=4)
        elif algo == "maddpg":
            from agilerl.algorithms.maddpg import MADDPG
            ag = MADDPG([sp for _ in AGENTS], [cont for _ in AGENTS], agent_ids=list(AGENTS), net_config=cfg)
        elif algo == "matd3":
            from agilerl.algorithms.matd3 import MATD3
            ag = MATD3([sp for _ in AGENTS], [cont for _ in AGENTS], agent_ids=list(AGENTS), net_config=cfg)
        elif algo == "ippo":
            from agilerl.algorithms.ippo import IPPO
            ag = IPPO([sp for _ in AGENTS], [spaces.Discrete(2) for _ in AGENTS], agent_ids=list(AGENTS),
                      net_config=cfg, batch_size=4)
        else:
            raise InfraError(algo)
        how = warm_up(ag, algo, kind, seed)
        main_net = ag.actors[0] if algo in CONSIST_MULTI else ag.actor
        _AGENTS[key] = (ag, how, module_norm_layers(main_net))
    return _AGENTS[key]


class _Capture:
    """records what a network returns while a public entry point runs (the Q-values get_action decides on)"""

    def __init__(self, net):
        self.net, self.out, self.h = net, [], None

    def __enter__(self):
        # (EvolvableNetwork.__call__ goes straight to forward(), so forward hooks do not fire: wrap forward)
        orig = self.net.forward

        def fwd(*a, **k):
            o = orig(*a, **k)
            self.out.append(o.detach().clone())
            return o
        self.net.__dict__["forward"] = fwd
        return self

    def __exit__(self, *a):
        self.net.__dict__.pop("forward", None)


def consist_report(ag, algo, rows, batched=True):
    """per observation: the numbers the agent reports with exploration off, as an [n, k] array
    (+ greedy actions where the algorithm has them).  `rows` = list of unbatched observations (single-agent) or
    {agent: list of unbatched observations} (multi-agent); batched=False sends ONE observation without batch dim."""
    def pack(rs):
        return stack_rows(rs) if batched else rs[0]
    if algo in ("dqn", "cqn"):
        with _Capture(ag.actor) as cap:
            act = ag.get_action(pack(rows), epsilon=0.0)
        q = cap.out[-1].reshape(len(rows), -1).numpy()
        return q, np.asarray(act).reshape(-1)
    if algo in ("ddpg", "td3"):
        return np.asarray(ag.get_action(pack(rows), training=False)).reshape(len(rows), -1), None
    if algo == "ppo":
        ag.set_training_mode(False)
        torch.manual_seed(0)
        v = ag.get_action(pack(rows))[3]
        ag.set_training_mode(True)
        return np.asarray(v).reshape(len(rows), -1), None
    n = len(rows[AGENTS[0]])
    obs = {a: pack(rows[a]) for a in AGENTS}
    if algo in ("maddpg", "matd3"):
        act, _ = ag.get_action(obs, training=False)
        return np.concatenate([np.asarray(act[a]).reshape(n, -1) for a in AGENTS], axis=1), None
    ag.set_training_mode(False)
    torch.manual_seed(0)
    v = ag.get_action(obs)[3]
    ag.set_training_mode(True)
    return np.concatenate([np.asarray(v[a]).reshape(n, -1) for a in AGENTS], axis=1), None


def run_consist(case):
    algo, kind, enc, n, seed = case["algo"], case["kind"], case["enc"], case["n"], case["seed"]
    multi = algo in CONSIST_MULTI
    if multi:
        use_ids(case.get("ids"))
    ag, how, norms = consist_agent(algo, kind, enc)
    tags = [f"consist-{algo}-{kind}-{enc}", f"warm-{how}"] + [f"has-{x}" for x in norms]
    tol = dict(atol=2e-5, rtol=1e-4)
    problems = []
    if multi:
        rows = {a: consist_rows(kind, n, seed + 13 * i) for i, a in enumerate(AGENTS)}
        pick = lambda idx: {a: [rows[a][j] for j in idx] for a in AGENTS}    # noqa: E731
    else:
        rows = consist_rows(kind, n, seed)
        pick = lambda idx: [rows[j] for j in idx]                            # noqa: E731
    what = {"dqn": "Q-values", "cqn": "Q-values", "ddpg": "greedy action", "td3": "greedy action",
            "ppo": "value estimate", "maddpg": "greedy actions", "matd3": "greedy actions",
            "ippo": "value estimates"}[algo]
    full, act_full = consist_report(ag, algo, pick(list(range(n))))
    if full.shape[0] != n or not np.isfinite(full).all():
        return [], [], [f"{algo} reports an array of shape {full.shape} / non-finite numbers for {n} observation(s)"], tags
    clear = None
    if act_full is not None:
        top = np.sort(full, axis=1)
        clear = (top[:, -1] - top[:, -2]) > 1e-4

    def compare(label, idx, batched=True):
        got, act = consist_report(ag, algo, pick(idx), batched)
        for k, j in enumerate(idx):
            if not np.allclose(got[k], full[j], **tol):
                problems.append(f"{algo} ({kind} observations, encoder with {norms or 'no norm layers'}): the {what} "
                                f"reported for observation {j} {label} {np.round(got[k], 5).tolist()[:4]} differ from "
                                f"those inside the batch of {n} {np.round(full[j], 5).tolist()[:4]}")
                return False
            if act is not None and clear[j] and int(act[k]) != int(act_full[j]):
                problems.append(f"{algo}: the greedy action for observation {j} {label} is {int(act[k])}, inside the "
                                f"batch of {n} it is {int(act_full[j])}")
                return False
        return True

    ok = True
    for j in range(n):
        ok = ok and compare("alone (unbatched)", [j], batched=False)
        ok = ok and compare("alone (batch of one)", [j])
        if not ok:
            break
    if ok and n > 1:
        sub = case.get("subset") or list(range(0, n, 2))
        perm = case.get("perm") or list(reversed(range(n)))
        ok = compare(f"in the sub-batch {sub}", sub) and compare(f"in the permuted batch {perm}", perm) \
            and compare("in a batch that repeats it", [0, 0, n - 1, 0])
    return [], [], problems, tags


def run_noncontig(case):
    """a (step, env) tensor that is a transposed view (env-major storage) must be prepared like its contiguous copy"""
    from agilerl.utils.algo_utils import preprocess_observation
    sd = case["space"]
    T, E = case["lead"]
    p = obs_shape(sd)
    base = torch.arange(numel([E, T] + p), dtype=torch.float32).reshape([E, T] + p) % 2
    x = base.transpose(0, 1)                   # shape [T, E] + p, not contiguous
    problems = []
    try:
        a = preprocess_observation(x, build_space(sd), normalize_images=False)
        b = preprocess_observation(x.contiguous(), build_space(sd), normalize_images=False)
        if not torch.equal(a, b):
            problems.append("non-contiguous (step, env) tensor prepared differently from its contiguous copy")
    except Exception as e:  # noqa: BLE001
        problems.append(f"non-contiguous (step, env) tensor rejected: {type(e).__name__}: {str(e)[:100]}")
    return [], [], problems, ["noncontiguous"]


def run_chfirst(case):
    """obs_channels_to_first: the last axis of a rank-3 / rank-4 ndarray moves in front of the two spatial axes
    (values included); other ranks pass unchanged; a dict is handled member by member (never expanded);
    anything else is a TypeError.  Oracle only (the function has no counterpart in the hand model; its
    source translation is checked by the Lean gate)."""
    from agilerl.utils.algo_utils import obs_channels_to_first
    shape, expand, cont = case["shape"], case["expand"], case["container"]
    arr = np.arange(numel(shape), dtype=np.float32).reshape(shape)
    problems = []

    def expected(a, ex):
        if ex:
            a = a[None]
        if a.ndim in (3, 4):
            perm = list(range(a.ndim - 3)) + [a.ndim - 1, a.ndim - 3, a.ndim - 2]
            return np.transpose(a, perm)
        return a
    try:
        if cont == "numpy":
            out = obs_channels_to_first(arr, expand)
            want = expected(arr, expand)
            if not isinstance(out, np.ndarray) or out.shape != want.shape or not np.array_equal(out, want):
                problems.append(f"obs_channels_to_first({shape}, expand_dims={expand}) has shape "
                                f"{list(getattr(out, 'shape', []))}, want {list(want.shape)} (channel axis moved, "
                                f"values kept)")
        elif cont == "dict":
            out = obs_channels_to_first({"a": arr, "b": arr[..., :1] if arr.ndim else arr}, expand)
            for key, src in (("a", arr), ("b", arr[..., :1] if arr.ndim else arr)):
                want = expected(src, False)          # members are converted without expand_dims
                if out[key].shape != want.shape or not np.array_equal(out[key], want):
                    problems.append(f"obs_channels_to_first(dict)[{key!r}] has shape {list(out[key].shape)}, "
                                    f"want {list(want.shape)}")
        else:
            try:
                obs_channels_to_first(torch.from_numpy(arr), expand)
                problems.append("obs_channels_to_first accepted a torch tensor (documented: ndarray or dict)")
            except TypeError:
                pass
    except Exception as e:  # noqa: BLE001
        problems.append(f"obs_channels_to_first raised {type(e).__name__}: {str(e)[:100]}")
    return [], [], problems, [f"chfirst-rank{len(shape)}", "in-" + cont]



# ----------------------------------------------------------------------------- values: normalisation, routing (round 5)
def _fl_word(x: float) -> str:
    if x != x:
        return "nan"
    if x in (float("inf"), float("-inf")):
        return "inf" if x > 0 else "-inf"
    return frac(x)


def _fl_parse(w: str):
    return w if w in ("nan", "inf", "-inf") else Fraction(w)


def normv_space(case):
    from gymnasium import spaces
    shape = tuple(case["shape"])
    dt = np.dtype(case["sdtype"])
    low = np.array([float(x) for x in case["low"]], dtype=np.float64).reshape(shape).astype(dt)
    high = np.array([float(x) for x in case["high"]], dtype=np.float64).reshape(shape).astype(dt)
    return spaces.Box(low=low, high=high, shape=shape, dtype=dt)


def run_normv(case):
    """preprocess_observation on an image Box with per-pixel / infinite / unit / degenerate bounds, several space
    and observation dtypes, bounds broadcast over batch and (step, env) — against `obs normv 1` (Model `applyNormV
    true`, proved equal to the generated apply_image_normalization) and the statement itself"""
    from agilerl.utils.algo_utils import preprocess_observation
    sp = normv_space(case)
    shape, lead, norm = list(case["shape"]), list(case["lead"]), case["norm"]
    k = numel(shape)
    flat = [float(v) for r in case["rows"] for v in r]
    arr = np.array(flat, dtype=np.float64).reshape(lead + shape).astype(np.dtype(case["odtype"]))
    obs = torch.from_numpy(arr.copy()) if case["container"] == "torch" else arr
    lo = [float(x) for x in np.asarray(sp.low, np.float64).reshape(-1)]
    hi = [float(x) for x in np.asarray(sp.high, np.float64).reshape(-1)]
    problems, model_ops = [], []
    try:
        out = preprocess_observation(obs, sp, normalize_images=norm)
    except Exception as e:  # noqa: BLE001
        return ["raised"], [], [f"preprocess_observation raised {type(e).__name__}: {str(e)[:120]}"], ["normv-raised"]
    vals = [float(x) for x in out.detach().reshape(-1).to(torch.float64).tolist()]
    n = numel(lead)
    if list(out.shape) != [n] + shape:
        problems.append(f"result shape {list(out.shape)} != {[n] + shape}")
    applies = norm and len(shape) == 3
    bypass = any(h == float("inf") for h in hi) or any(l == float("-inf") for l in lo)
    x32 = [float(np.float32(v)) for v in arr.astype(np.float64).reshape(-1)]
    kinds = set()
    for j, (x, y) in enumerate(zip(x32, vals)):
        l, h = lo[j % k], hi[j % k]
        if not applies or bypass:
            want = Fraction(x)
            kinds.add("identity")
        elif h == l:
            want = Fraction(x) - Fraction(l)         # the only legal value is x = l: 0
            kinds.add("degenerate")
        else:
            want = (Fraction(x) - Fraction(l)) / (Fraction(h) - Fraction(l))
            kinds.add("scaled")
        if y != y or y in (float("inf"), float("-inf")):
            problems.append(f"non-finite value {y} at element {j} (x={x}, low={l}, high={h}) for a legal observation")
            break
        if abs(Fraction(y) - want) > HALF_ULP32 * max(abs(want), Fraction(1, 2 ** 100)):
            problems.append(f"element {j}: x={x} low={l} high={h} normalise={applies and not bypass}: got {y}, "
                            f"the statement says {float(want)}")
            break
        if applies and not bypass and l <= x <= h and not (0 <= y <= 1):
            problems.append(f"element {j}: x={x} in [{l}, {h}] maps to {y}, outside [0, 1]")
            break
    impl = ["ok " + " ".join(map(str, lead + shape)) + " | " + " ".join(_fl_word(v) for v in vals)]
    if applies:
        model_ops.append("obs normv 1 | " + " ".join(map(str, shape)) + " | " + " ".join(bound_word(v) for v in lo)
                         + " | " + " ".join(bound_word(v) for v in hi) + " | " + " ".join(map(str, lead + shape))
                         + " | " + " ".join(frac(v) for v in x32))
    tags = ["normv-" + kd for kd in sorted(kinds)] + [f"normv-rank{len(shape)}", "normv-" + case["sdtype"],
                                                        "normv-lead%d" % len(lead)]
    return impl, model_ops, problems, tags


def diff_normv(impl, model_lines):
    if not model_lines:
        return None
    m, i = model_lines[0], impl[0]
    if not m.startswith("ok") or not i.startswith("ok"):
        return f"impl {i[:60]} model {m[:60]}"
    ms, md = m[2:].split("|")
    is_, id_ = i[2:].split("|")
    if ms.split() != is_.split():
        return f"shape impl {is_} model {ms}"
    a, b = [_fl_parse(w) for w in id_.split()], [_fl_parse(w) for w in md.split()]
    if len(a) != len(b):
        return "length"
    for j, (x, y) in enumerate(zip(a, b)):
        if isinstance(x, str) or isinstance(y, str):
            if x != y:
                return f"element {j}: impl {x} model {y}"
        elif x != y and abs(x - y) > HALF_ULP32 * max(abs(y), Fraction(1, 2 ** 100)):
            return f"element {j}: impl {float(x)} model {float(y)}"
    return None


class _RouteStub:
    """the attributes `MultiAgentRLAlgorithm.__init__` derives from `agent_ids`, built with the class's own
    `get_homo_id` — the routing methods are then called unbound on this object (no networks needed)"""

    def __init__(self, ids):
        from agilerl.algorithms.core.base import MultiAgentRLAlgorithm as M
        self.agent_ids = list(ids)
        self.n_agents = len(ids)
        self.shared_agent_ids, self.homogeneous_agents = [], {}
        for a in ids:
            g = M.get_homo_id(self, a)
            if g in self.homogeneous_agents:
                self.homogeneous_agents[g].append(a)
            else:
                self.shared_agent_ids.append(g)
                self.homogeneous_agents[g] = [a]

    def get_homo_id(self, a):
        from agilerl.algorithms.core.base import MultiAgentRLAlgorithm as M
        return M.get_homo_id(self, a)


def run_route(case):
    """get_homo_id / _agent_position / assemble / disassemble on many agents, ids that do not sort lexicographically,
    groups of different sizes, 1..3 environment rows, a subset of agents present"""
    from agilerl.algorithms.core.base import MultiAgentRLAlgorithm as M
    ids, E, f, seed = case["agents"], case["E"], case["f"], case["seed"]
    st = _RouteStub(ids)
    r = np.random.default_rng(seed)
    impl, model_ops, problems = [], [], []
    for a in ids + case.get("unknown", []):
        impl.append(str(M.get_homo_id(st, a)))
        model_ops.append(f"obs homo | {a}")
        impl.append(str(M._agent_position(st, a)))
        model_ops.append(f"obs pos {a} | " + " ".join(ids))
        want = a.rsplit("_", 1)[0]
        if impl[-2] != want:
            problems.append(f"get_homo_id({a!r}) = {impl[-2]!r}, the group is {want!r}")
        wp = ids.index(a) if a in ids else len(ids)
        if impl[-1] != str(wp):
            problems.append(f"_agent_position({a!r}) = {impl[-1]}, its index in agent_ids is {wp}")
    present = [a for a in ids if a not in case.get("absent", [])]
    outs = {a: (r.integers(-9, 10, (E, f)) if f else r.integers(-9, 10, (E,))).astype(np.int64) for a in present}
    fw = max(f, 1)
    keys = list(outs)
    random.Random(seed).shuffle(keys)            # the dictionary's order is not the order of agent_ids
    asm = M.assemble_homogeneous_outputs(st, {a: outs[a].copy() for a in keys}, E)
    for g in st.shared_agent_ids:
        mem = [a for a in st.homogeneous_agents[g] if a in outs]
        if not mem:
            if g in asm:
                problems.append(f"group {g} has no agent in the call but appears in the assembled output")
            continue
        model_ops.append("obs asm | " + " | ".join(" ".join(str(int(x)) for x in outs[a].reshape(-1)) for a in mem))
        impl.append(" ".join(str(int(x)) for x in asm[g].reshape(-1)))
        if list(asm[g].shape) != [len(mem) * E, fw]:
            problems.append(f"assembled shape {list(asm[g].shape)} != {[len(mem) * E, fw]}")
        for i, a in enumerate(mem):
            for e in range(E):
                if not np.array_equal(np.asarray(asm[g][i * E + e]).reshape(-1), np.asarray(outs[a][e]).reshape(-1)):
                    problems.append(f"assembled row {i * E + e} of group {g} is not (agent {a}, env {e})")
    if not case.get("absent"):
        dis = M.disassemble_homogeneous_outputs(st, {g: v.copy() for g, v in asm.items()}, E)
        for g in st.shared_agent_ids:
            mem = st.homogeneous_agents[g]
            model_ops.append(f"obs dis {len(mem)} | " + " ".join(str(int(x)) for x in asm[g].reshape(-1)))
            impl.append(" | ".join(" ".join(str(int(x)) for x in dis[a].reshape(-1)) for a in mem))
        for a in ids:
            if not np.array_equal(dis[a].reshape(E, fw), outs[a].reshape(E, fw)):
                problems.append(f"disassemble(assemble(x)) != x for agent {a}")
    # the dict loops of Gen/ObsMaGen.lean (property as oracle): `sum_shared_rewards` sums exactly the rewards of each
    # group's agents, env by env; IPPO's grouped inputs list a group's agents in `agent_ids` order whatever the order
    # of the input dictionary
    rew = {a: r.integers(-9, 10, (E,)).astype(np.int64) for a in present}
    summed = M.sum_shared_rewards(st, {a: rew[a].copy() for a in keys})
    for g in st.shared_agent_ids:
        want_sum = sum((rew[a] for a in st.homogeneous_agents[g] if a in rew), np.zeros(E, dtype=np.int64))
        got_sum = np.broadcast_to(np.asarray(summed.get(g, 0)), (E,))
        if not np.array_equal(got_sum, want_sum):
            problems.append(f"sum_shared_rewards: group {g} got {got_sum.tolist()}, the sum of its agents' rewards is "
                            f"{want_sum.tolist()}")
    if set(summed) != set(st.shared_agent_ids):
        problems.append(f"sum_shared_rewards: keys {sorted(summed)} are not the groups {sorted(st.shared_agent_ids)}")
    try:
        from agilerl.algorithms.ippo import IPPO
        st._agent_position = lambda a: M._agent_position(st, a)
        grouped = IPPO.assemble_shared_inputs(st, {a: outs[a].copy() for a in keys})
        for g in st.shared_agent_ids:
            want_order = [a for a in ids if a in outs and a.rsplit("_", 1)[0] == g]
            if list(grouped[g].keys()) != want_order:
                problems.append(f"assemble_shared_inputs: group {g} lists {list(grouped[g].keys())}, agent_ids order is "
                                f"{want_order} (input order {keys})")
            for a in want_order:
                if a in grouped[g] and not np.array_equal(np.asarray(grouped[g][a]).reshape(-1), outs[a].reshape(-1)):
                    problems.append(f"assemble_shared_inputs: group {g} holds another agent's data under {a}")
    except ImportError:
        pass
    return impl, model_ops, problems, ["route", f"route-n{min(len(ids), 12)}", f"route-E{E}", f"route-f{min(f, 2)}",
                                       "route-groups%d" % len(st.shared_agent_ids)]


HET_IDS = ["a_0", "a_1", "z_0", "b_0"]
HET_SPACES = {
    # same class and shape, DIFFERENT bounds / sizes per group (dyadic ranges: float32 results are exact)
    "image": {"a": {"kind": "box", "shape": [1, 2, 2], "low": [0] * 4, "high": [64] * 4, "sdtype": "uint8"},
              "z": {"kind": "box", "shape": [1, 2, 2], "low": [-8, -8, 0, 0], "high": [8, 8, 16, 4], "sdtype": "float32"},
              "b": {"kind": "box", "shape": [1, 2, 2], "low": [0] * 4, "high": [1] * 4, "sdtype": "float32"}},
    "discrete": {"a": {"kind": "disc", "n": 4}, "z": {"kind": "disc", "n": 2}, "b": {"kind": "disc", "n": 3}},
}


def het_agent(algo, kind):
    from gymnasium import spaces
    key = ("het", algo, kind)
    if key not in _AGENTS:
        torch.manual_seed(5)
        sps = [build_space(HET_SPACES[kind][a.rsplit("_", 1)[0]]) for a in HET_IDS]
        cfg = cnn_cfg() if kind == "image" else mlp_cfg()
        if algo == "matd3":
            from agilerl.algorithms.matd3 import MATD3 as A
        else:
            from agilerl.algorithms.maddpg import MADDPG as A
        _AGENTS[key] = A(sps, [spaces.Box(-1, 1, (2,), dtype=np.float32) for _ in HET_IDS], agent_ids=list(HET_IDS),
                         net_config=cfg)
    return _AGENTS[key]


def run_ma_het(case):
    """MultiAgentRLAlgorithm.preprocess_observation (MADDPG / MATD3) when the agents' spaces have the same class but
    different bounds / sizes: every agent's observation must be prepared with ITS OWN space"""
    algo, kind, E, seed = case["algo"], case["kind"], case["E"], case["seed"]
    ag = het_agent(algo, kind)
    r = random.Random(seed)
    obs, model_ops, problems, impl, want_rows = {}, [], [], [], {}
    order = list(HET_IDS)
    r.shuffle(order)
    for a in order:
        sd = HET_SPACES[kind][a.rsplit("_", 1)[0]]
        rows = [gen_row(r, sd) for _ in range(E)]
        dt = "int64" if kind == "discrete" else sd["sdtype"]
        obs[a] = make_leaf_obs(sd, [E], rows, "numpy", dt)
        vals = float32_values(sd, rows, dt)
        k = numel(obs_shape(sd))
        want_rows[a] = [expected_row(sd, True, vals[i * k:(i + 1) * k]) for i in range(E)]
    for a in HET_IDS:
        sd = HET_SPACES[kind][a.rsplit("_", 1)[0]]
        dt = "int64" if kind == "discrete" else sd["sdtype"]
        k = numel(obs_shape(sd))
        vals = [Fraction(float(x)) for x in np.asarray(obs[a], np.float64).reshape(-1)]
        model_ops.append(f"obs prep 1 | {space_sections(sd)} | {' '.join(map(str, [E] + obs_shape(sd)))} | "
                         + " ".join(frac(v) for v in vals))
    out = ag.preprocess_observation(obs)
    for a in HET_IDS:
        sd = HET_SPACES[kind][a.rsplit("_", 1)[0]]
        sh, data = canon_tensor(out[a])
        impl.append("ok " + " ".join(map(str, sh)) + " | " + " ".join(frac(float(v)) for v in data))
        want = [v for row in want_rows[a] for v in row]
        if sh != [E] + net_shape(sd):
            problems.append(f"agent {a}: shape {sh} != {[E] + net_shape(sd)} (its own space is {sd})")
        elif not same_values(data, want, True):
            problems.append(f"agent {a}: values differ from what ITS OWN space {sd} prescribes "
                            f"(got {[float(x) for x in data[:4]]}…, want {[float(x) for x in want[:4]]}…)")
    return impl, model_ops, problems, [f"ma-het-{algo}-{kind}", f"ma-het-E{E}"]


RUNNERS = {"chfirst": run_chfirst, "prep": run_prep, "vect": run_vect, "batchdim": run_batchdim, "totensor": run_totensor,
           "ma_prep": run_ma_prep, "asm": run_asm, "critic": run_critic, "dqn_action": run_dqn_action,
           "ma_action": run_ma_action, "noncontig": run_noncontig, "consist": run_consist,
           "normv": run_normv, "route": run_route, "ma_het": run_ma_het}


def classify(case, problems):
    """findings analysed in the build round: which id (if any) explains this failure"""
    op = case["op"]
    txt = " ".join(problems)
    if op == "vect":
        m0 = deciding_member(case)
        if m0["kind"] == "mbin" and "TypeError" in txt:
            return F_VECT_MB
        if case["container"] in ("number", "dict-number") and "AttributeError" in txt:
            return F_VECT_NUM
    if op == "prep" and case["form"] == "stepenv" and any(m["kind"] == "mdisc" for _, m, _, _ in leaf_members(case)) \
            and "rejected" in txt:
        return F_MD_STEPENV
    if op == "noncontig":
        return F_NONCONTIG
    if op == "normv" and "non-finite value" in txt and any(float(l) == float(h) for l, h in zip(case["low"], case["high"])):
        return F_NORM_DEGEN
    if op == "prep" and has_rank0_box(case) and "result shape" in txt and "rejected" not in txt:
        return F_BOX0
    if op == "dqn_action" and has_rank0_box(case):
        return F_BOX0
    if op == "ma_action" and problems and all(p.startswith("AGENT-ORDER") for p in problems):
        return F_AGENT_ORDER
    if op == "ma_action" and case["kind"] == "mbin" and "TypeError" in txt:
        return F_VECT_MB
    # analysed at HEAD ffc42d0: DQN.get_action / PPO.get_action never put their networks in eval mode
    if op == "consist" and case["enc"] == "norm" and case["kind"] in ("image", "dict") and problems:
        if case["algo"] == "dqn":
            return F_DQN_EVAL
        if case["algo"] == "ppo":
            return F_PPO_EVAL
    return None


# ----------------------------------------------------------------------------- generators
def gen_leaf_space(rng: random.Random, kinds=None):
    k = rng.choice(kinds or ["box", "box", "box", "disc", "disc", "mdisc", "mbin"])
    if k == "box":
        rank = rng.choice([0, 1, 1, 2, 3, 3, 3, 4])
        shape = [rng.choice([1, 1, 2, 3]) for _ in range(rank)]
        n = numel(shape)
        mode = rng.choice(["u8", "u8-64", "f32", "f32-255", "f32-inf", "i8", "perelem", "unit"] if rank == 3
                          else ["f32", "u8", "f64", "i32", "f32-inf"])
        if mode == "u8":
            sd = {"low": [0] * n, "high": [255] * n, "sdtype": "uint8"}
        elif mode == "f32-255":
            sd = {"low": [0] * n, "high": [255] * n, "sdtype": "float32"}      # float32 frames are not copied
        elif mode == "u8-64":
            sd = {"low": [0] * n, "high": [64] * n, "sdtype": "uint8"}          # dyadic range: exact floats
        elif mode == "i8":
            sd = {"low": [-128] * n, "high": [127] * n, "sdtype": "int8"}
        elif mode == "i32":
            sd = {"low": [-1000] * n, "high": [1000] * n, "sdtype": "int32"}
        elif mode == "f64":
            sd = {"low": [-8] * n, "high": [8] * n, "sdtype": "float64"}
        elif mode == "f32-inf":
            sd = {"low": [float("-inf")] * n, "high": [float("inf")] * n, "sdtype": "float32"}
        elif mode == "unit":
            sd = {"low": [0] * n, "high": [1] * n, "sdtype": "float32"}
        elif mode == "perelem":
            lo = [rng.randint(-4, 0) for _ in range(n)]
            sd = {"low": lo, "high": [l + rng.choice([1, 2, 3, 4, 5, 8]) for l in lo], "sdtype": "float32"}
        else:
            sd = {"low": [-4] * n, "high": [4] * n, "sdtype": "float32"}
        sd.update(kind="box", shape=shape)
        return sd
    if k == "disc":
        return {"kind": "disc", "n": rng.choice([1, 1, 2, 3, 5])}
    if k == "mdisc":
        return {"kind": "mdisc", "nvec": [rng.choice([1, 2, 3, 4]) for _ in range(rng.choice([1, 2, 3]))]}
    return {"kind": "mbin", "n": rng.choice([1, 2, 3, 4])}


def gen_row(rng: random.Random, sd, wild=False):
    k = sd["kind"]
    if k == "box":
        n = numel(sd["shape"])
        out = []
        for i in range(n):
            lo, hi = float(sd["low"][i]), float(sd["high"][i])
            lo, hi = max(lo, -6.0), min(hi, 300.0)
            if sd["sdtype"].startswith("float"):
                out.append(rng.randint(int(lo * 4), int(min(hi, 8) * 4)) / 4.0)
            else:
                out.append(rng.randint(int(lo), int(hi)))
        return out
    if k == "disc":
        if wild:
            return [rng.choice([-1, sd["n"], sd["n"] + 2])]
        return [rng.randrange(sd["n"])]
    if k == "mdisc":
        row = [rng.randrange(n) for n in sd["nvec"]]
        if wild:
            i = rng.randrange(len(row))
            row[i] = rng.choice([-1, sd["nvec"][i]])
        return row
    return [rng.randint(0, 1) for _ in range(sd["n"])]


def leaf_dtype(rng, sd):
    k = sd["kind"]
    if k == "box":
        return sd["sdtype"] if rng.random() < 0.7 or not sd["sdtype"].startswith("float") else \
            rng.choice(["float32", "float64"])
    if k == "mbin":
        return rng.choice(["int8", "int64", "float32", "uint8"])
    return rng.choice(["int64", "int32", "float32", "int64"])


def gen_lead(rng: random.Random, sd):
    """(form, lead)"""
    r = rng.random()
    if r < 0.22:
        return "unbatched", []
    if r < 0.44:
        return "batched", [rng.choice([2, 3, 4, 5])]
    if r < 0.62:
        return "batch-of-one", [1]
    if r < 0.84:
        return "stepenv", [rng.choice([1, 2, 3]), rng.choice([1, 2, 3])]
    if r < 0.92 and sd["kind"] == "disc":
        return "column", [rng.choice([1, 2, 4]), 1]
    return "badrank", [rng.choice([1, 2]), rng.choice([1, 2]), rng.choice([1, 2])]


def gen_prep_case(rng: random.Random, composite_p=0.25, via_dqn=None):
    if via_dqn is not None:
        sd = via_dqn
    elif rng.random() < composite_p:
        ck = rng.choice(["dict", "tuple"])
        names = rng.sample(["pos", "img", "vel", "lane", "aux"], rng.choice([1, 2, 3]))   # not alphabetical
        members = [[nm if ck == "dict" else f"k{i}", gen_leaf_space(rng)] for i, nm in enumerate(names)]
        sd = {"kind": ck, "members": members}
    else:
        sd = gen_leaf_space(rng)
    first = sd["members"][0][1] if sd["kind"] in ("dict", "tuple") else sd
    form, lead = gen_lead(rng, first)
    if form == "column" and sd["kind"] in ("dict", "tuple"):
        form, lead = "batched", [lead[0]]
    nobs = numel(lead)
    wild = rng.random() < 0.06
    norm = rng.random() < 0.7
    if sd["kind"] in ("dict", "tuple"):
        rows = [[gen_row(rng, m, wild and i == 0) for _ in range(nobs)] for i, (_, m) in enumerate(sd["members"])]
        dtypes = [leaf_dtype(rng, m) for _, m in sd["members"]]
        if sd["kind"] == "dict":
            conts = ["dict-numpy", "dict-torch", "tensordict"]
            if lead == [] and all(obs_shape(m) == [] for _, m in sd["members"]):
                conts.append("dict-number")
            cont = rng.choice(conts)
            if cont == "tensordict" and len(lead) > 1:
                cont = "dict-torch"
        else:
            cont = rng.choice(["tuple-numpy", "tuple-torch"])
        case = {"op": "prep", "space": sd, "norm": norm, "form": form, "lead": lead, "rows": rows,
                "dtypes": dtypes, "container": cont}
        if sd["kind"] == "dict" and rng.random() < 0.6:
            case["dict_order"] = rng.sample(range(len(sd["members"])), len(sd["members"]))
    else:
        rows = [gen_row(rng, sd, wild) for _ in range(nobs)]
        conts = ["numpy", "numpy", "torch"]
        if lead == [] and obs_shape(sd) == []:
            conts += ["number", "number", "npscalar"]
        case = {"op": "prep", "space": sd, "norm": norm, "form": form, "lead": lead, "rows": rows,
                "dtype": leaf_dtype(rng, sd), "container": rng.choice(conts)}
    if via_dqn is not None:
        case["via"] = "dqn"
    return case


DQN_SPACES = [
    ({"kind": "box", "shape": [4], "low": [-4] * 4, "high": [4] * 4, "sdtype": "float32"}, True),
    ({"kind": "box", "shape": [], "low": [-4], "high": [4], "sdtype": "float32"}, True),
    ({"kind": "disc", "n": 3}, True),
    ({"kind": "disc", "n": 1}, True),
    ({"kind": "mdisc", "nvec": [2, 3]}, True),
    ({"kind": "mbin", "n": 3}, True),
    ({"kind": "box", "shape": [1, 3, 3], "low": [0] * 9, "high": [255] * 9, "sdtype": "uint8"}, True),
    ({"kind": "box", "shape": [1, 3, 3], "low": [0] * 9, "high": [255] * 9, "sdtype": "uint8"}, False),
    ({"kind": "box", "shape": [1, 3, 3], "low": [0] * 9, "high": [255] * 9, "sdtype": "float32"}, True),
    ({"kind": "dict", "members": [["v", {"kind": "box", "shape": [2], "low": [-4] * 2, "high": [4] * 2,
                                          "sdtype": "float32"}], ["d", {"kind": "disc", "n": 3}]]}, True),
    ({"kind": "tuple", "members": [["0", {"kind": "box", "shape": [2], "low": [-4] * 2, "high": [4] * 2,
                                           "sdtype": "float32"}], ["1", {"kind": "mdisc", "nvec": [2, 2]}]]}, True),
]
DQN_SPACES_THOROUGH = [
    ({"kind": "box", "shape": [2, 3], "low": [-4] * 6, "high": [4] * 6, "sdtype": "float32"}, True),
    ({"kind": "box", "shape": [2, 1, 3, 3], "low": [0] * 18, "high": [1] * 18, "sdtype": "float32"}, True),
    ({"kind": "disc", "n": 2}, True),
    ({"kind": "mdisc", "nvec": [1, 1]}, True),
]



def gen_normv_case(rng: random.Random, mode=None):
    rank = rng.choice([3, 3, 3, 3, 4])
    shape = [rng.choice([1, 2, 3]) for _ in range(rank)]
    n = numel(shape)
    mode = mode or rng.choice(["perelem", "perelem", "neg", "u8", "i8", "i16", "posinf", "neginf", "bothinf", "unit",
                               "degenerate", "degenerate", "f32-255"])
    sdtype = "float32"
    if mode == "perelem":
        lo = [rng.randint(-6, 3) for _ in range(n)]
        hi = [l + rng.choice([1, 2, 4, 8, 3, 5]) for l in lo]
    elif mode == "neg":
        lo = [-rng.choice([16, 8, 128]) for _ in range(n)]
        hi = [rng.choice([-4, 0, 16]) for _ in range(n)]
    elif mode == "u8":
        lo, hi, sdtype = [0] * n, [255] * n, "uint8"
    elif mode == "f32-255":
        lo, hi = [0] * n, [255] * n
    elif mode == "i8":
        lo, hi, sdtype = [-128] * n, [127] * n, "int8"
    elif mode == "i16":
        lo, hi, sdtype = [-32768] * n, [32767] * n, "int16"
    elif mode == "posinf":
        lo, hi = [0] * n, [255] * n
        hi[rng.randrange(n)] = float("inf")
    elif mode == "neginf":
        lo, hi = [0] * n, [255] * n
        lo[rng.randrange(n)] = float("-inf")
    elif mode == "bothinf":
        lo, hi = [float("-inf")] * n, [float("inf")] * n
    elif mode == "unit":
        lo, hi = [0] * n, [1] * n
    else:   # degenerate: some pixels can take one value only (a mask / constant border)
        lo = [rng.randint(-3, 3) for _ in range(n)]
        hi = [l + rng.choice([0, 0, 2, 4]) for l in lo]
        j = rng.randrange(n)
        hi[j] = lo[j]
        sdtype = rng.choice(["float32", "int8"])
    lead = rng.choice([[], [1], [2], [3], [2, 2], [3, 1]])
    rows = []
    for _ in range(numel(lead)):
        row = []
        for l, h in zip(lo, hi):
            l2 = max(float(l), -40000.0)
            h2 = min(float(h), 40000.0) if float(h) != float("inf") else l2 + 300
            if float(l) == float("-inf"):
                l2 = h2 - 300
            row.append(rng.choice([int(l2), int(h2), rng.randint(int(l2), int(h2))]))
        rows.append(row)
    odtype = sdtype if rng.random() < 0.6 else "float32"
    return {"op": "normv", "mode": mode, "shape": shape, "low": lo, "high": hi, "sdtype": sdtype, "odtype": odtype,
            "lead": lead, "rows": rows, "container": rng.choice(["numpy", "torch"]),
            "norm": rng.random() < 0.85, "form": "normv"}


ROUTE_IDS = [
    [f"drone_{i}" for i in range(12)],                                   # drone_10, drone_11 sort before drone_2
    [f"agent_{i}" for i in (3, 0, 11, 2, 10, 1, 7, 5, 4, 9, 8, 6)],      # listed out of order
    ["speaker_0", "listener_0", "listener_1", "listener_2"] + [f"scout_{i}" for i in range(9)],   # groups 1 / 3 / 9
    ["red_team_0", "red_team_1", "red_0", "solo", "blue_team_10", "blue_team_2", "red_team_2", "x_y_z_0", "x_y_0",
     "blue_team_1", "red_1"],                                            # nested prefixes, an id without `_`
    [f"z_{i}" for i in (1, 0)] + ["b_0"] + [f"m_{i}" for i in range(10, 0, -1)],
]


def gen_route_case(rng: random.Random):
    ids = list(rng.choice(ROUTE_IDS))
    if rng.random() < 0.5:
        rng.shuffle(ids)
    c = {"op": "route", "agents": ids, "E": rng.choice([1, 2, 3]), "f": rng.choice([0, 1, 2, 3]),
         "seed": rng.randrange(1 << 30), "unknown": rng.choice([[], ["ghost_0"], ["nobody"]]), "form": "route"}
    if rng.random() < 0.3:
        c["absent"] = rng.sample(ids, rng.choice([1, 2, 5]))
    return c


def gen_cases(chk: Check):
    rng = chk.rng
    quick = chk.tier == "quick"
    cases = []
    # fixed probes beside corpus/C15 (which holds one minimal input per analysed finding)
    cases.append({"op": "vect", "space": {"kind": "box", "shape": [], "low": [0], "high": [1], "sdtype": "float32"},
                  "lead": [], "rows": [[0.5]], "dtype": "float", "container": "number", "form": "probe", "norm": True})
    cases.append({"op": "noncontig", "space": {"kind": "mbin", "n": 2}, "lead": [3, 2]})
    cases.append({"op": "prep", "space": {"kind": "box", "shape": [], "low": [0], "high": [1], "sdtype": "float32"},
                  "norm": True, "form": "unbatched", "lead": [], "rows": [[0.5]], "dtype": "float",
                  "container": "number"})
    # function-level stream
    for _ in range(900 if quick else 10000):
        cases.append(gen_prep_case(rng))
    # the same through RLAlgorithm.preprocess_observation + greedy-action oracle
    pool = DQN_SPACES + ([] if quick else DQN_SPACES_THOROUGH)
    for sd, norm in pool:
        for _ in range(6 if quick else 30):
            c = gen_prep_case(rng, via_dqn=sd)
            c["norm"] = norm
            cases.append(c)
        for _ in range(4 if quick else 25):
            c = gen_prep_case(rng, via_dqn=sd)
            while c["form"] not in ("batched", "batch-of-one") or \
                    not all(row_valid(m, float32_values(m, [r], dt)) for _, m, rows, dt in leaf_members(c) for r in rows):
                c = gen_prep_case(rng, via_dqn=sd)
            c.update(op="dqn_action", norm=norm)
            n = numel(c["lead"])
            c["perm"] = rng.sample(range(n), n)
            cases.append(c)
    # get_vect_dim, maybe_add_batch_dim, obs_to_tensor
    for _ in range(60 if quick else 600):
        c = gen_prep_case(rng)
        while c["form"] not in ("unbatched", "batched", "batch-of-one"):
            c = gen_prep_case(rng)
        c["op"] = "vect"
        cases.append(c)
        t = dict(c)
        t["op"] = "totensor"
        cases.append(t)
    for _ in range(60 if quick else 600):
        p = [rng.choice([1, 2, 3]) for _ in range(rng.choice([0, 1, 1, 2, 3, 4]))]
        extra = rng.choice([0, 1, 1, 2, 2, 3, -1])
        shape = ([rng.choice([1, 2, 3]) for _ in range(extra)] + p) if extra >= 0 else p[1:]
        if extra == -1 and not p:
            continue
        cases.append({"op": "batchdim", "shape": shape, "space_shape": p, "container": rng.choice(["numpy", "torch"])})
    for _ in range(40 if quick else 300):
        shape = [rng.choice([1, 2, 3, 4]) for _ in range(rng.choice([0, 1, 2, 3, 3, 3, 4, 4, 5]))]
        cases.append({"op": "chfirst", "shape": shape, "expand": rng.random() < 0.4,
                      "container": rng.choice(["numpy", "numpy", "numpy", "dict", "torch"])})
    # multi-agent entry points; the id sets "sl", "zb", "drones" are deliberately NOT alphabetical
    def shuffled(ids):
        order = list(ids)
        while order == list(ids):
            rng.shuffle(order)
        return order

    combos = [("maddpg", "vector", "abc"), ("maddpg", "image", "abc"), ("maddpg", "vector", "sl"),
              ("ippo", "vector", "abc"), ("ippo", "discrete", "abc"), ("ippo", "mbin", "abc"),
              ("ippo", "vector", "zb"), ("ippo", "vector", "drones"), ("ippo", "dict", "zb")]
    if not quick:
        # (MADDPG's centralised critic cannot be built for MultiBinary observations: concatenate_spaces)
        combos += [("maddpg", "discrete", "abc"), ("ippo", "image", "abc"), ("maddpg", "vector", "zb"),
                   ("maddpg", "image", "sl"), ("ippo", "discrete", "drones")]
    for algo, kind, ids in combos:
        if kind != "dict":
            for _ in range(3 if quick else 12):
                E = rng.choice([1, 2, 3, 4])
                cases.append({"op": "ma_prep", "algo": algo, "kind": kind, "ids": ids, "E": E,
                              "vect": rng.random() < 0.75, "seed": rng.randrange(1 << 20)})
        for _ in range(2 if quick else 10):
            E = rng.choice([1, 2, 3, 4]) if ids != "drones" else rng.choice([1, 2])
            cases.append({"op": "ma_action", "algo": algo, "kind": kind, "ids": ids, "E": E,
                          "seed": rng.randrange(1 << 20), "order": shuffled(ID_SETS[ids]),
                          "env_perm": rng.sample(range(E), E)})
    for _ in range(12 if quick else 120):
        cases.append({"op": "asm", "E": rng.choice([1, 2, 3, 5]), "f": rng.choice([0, 1, 2, 3]),
                      "seed": rng.randrange(1 << 20)})
    for kind, ids in (("vector", "abc"), ("image", "abc"), ("vector", "sl")):
        for _ in range(4 if quick else 40):
            cases.append({"op": "critic", "kind": kind, "ids": ids, "E": rng.choice([1, 2, 3, 4]),
                          "seed": rng.randrange(1 << 20), "raw": rng.random() < 0.5})
    # batch-composition independence on real, trained agents for every encoder configuration
    sweep = [("dqn", "image", "norm"), ("dqn", "dict", "norm"), ("dqn", "vector", "norm"), ("ppo", "image", "norm"),
             ("ddpg", "image", "norm"), ("maddpg", "image", "norm"), ("matd3", "image", "norm"),
             ("ippo", "image", "norm"), ("ippo", "vector", "norm")]
    if not quick:
        sweep += [("cqn", "image", "norm"), ("td3", "image", "norm"), ("ppo", "vector", "norm"),
                  ("ppo", "dict", "norm"), ("ddpg", "dict", "norm"), ("maddpg", "vector", "norm"),
                  ("matd3", "vector", "norm"), ("dqn", "image", "plain"), ("maddpg", "image", "plain"),
                  ("ippo", "image", "plain"), ("ppo", "image", "plain")]
    for algo, kind, enc in sweep:
        for _ in range(2 if quick else 8):
            n = rng.choice([2, 3, 4, 5])
            cases.append({"op": "consist", "algo": algo, "kind": kind, "enc": enc, "n": n,
                          "seed": rng.randrange(1 << 20), "subset": sorted(rng.sample(range(n), rng.randint(1, n - 1))),
                          "perm": rng.sample(range(n), n)})
    # get_vect_dim on dict observations listed in the environment's (non-sorted) order, members of different rank
    pos = {"kind": "box", "shape": [3], "low": [-4] * 3, "high": [4] * 3, "sdtype": "float32"}
    imgf = {"kind": "box", "shape": [1, 2, 2], "low": [0] * 4, "high": [255] * 4, "sdtype": "float32"}
    lane = {"kind": "disc", "n": 4}
    for _ in range(16 if quick else 120):
        mem = rng.choice([[["pos", pos], ["img", imgf]], [["velocity", pos], ["lane", lane]],
                          [["pos", pos], ["img", imgf], ["lane", lane]], [["z", lane], ["a", imgf]]])
        form, lead = rng.choice([("unbatched", []), ("batch-of-one", [1]), ("batched", [rng.choice([2, 3, 5])])])
        sd = {"kind": "dict", "members": mem}
        c = {"op": "vect", "space": sd, "norm": True, "form": form, "lead": lead,
             "rows": [[gen_row(rng, m) for _ in range(numel(lead))] for _, m in mem],
             "dtypes": [leaf_dtype(rng, m) for _, m in mem],
             "container": rng.choice(["dict-numpy", "dict-torch"] + (["tensordict"] if len(lead) <= 1 else [])),
             "dict_order": rng.sample(range(len(mem)), len(mem))}
        cases.append(c)
        p = dict(c)
        p["op"] = "prep"
        cases.append(p)
    # round 5: values of the normalisation, agent routing on many agents, per-agent spaces that differ
    for m in ("i8", "i16", "degenerate", "posinf", "neginf", "u8", "perelem"):
        cases.append(gen_normv_case(rng, m))
    for _ in range(150 if quick else 1500):
        cases.append(gen_normv_case(rng))
    for _ in range(40 if quick else 300):
        cases.append(gen_route_case(rng))
    for algo in ("maddpg", "matd3"):
        for kind in ("image", "discrete"):
            for _ in range(3 if quick else 12):
                cases.append({"op": "ma_het", "algo": algo, "kind": kind, "E": rng.choice([1, 2, 3]),
                              "seed": rng.randrange(1 << 30), "form": "ma-het"})
    return cases


# ----------------------------------------------------------------------------- evaluation
def drv(chk: Check, lines):
    """the driver; waits out a concurrent `lake build driver` that has the executable unlinked for a moment"""
    import time
    for attempt in range(30):
        try:
            return chk.driver.run(lines)
        except OSError as e:                      # executable vanished / being written between check and spawn
            if attempt == 29:
                raise InfraError(f"driver not runnable: {e}")
            time.sleep(2)
        except InfraError as e:
            if "missing" not in str(e) or attempt == 29:
                raise
            time.sleep(2)


def evaluate(chk: Check, case):
    """(diff description | None, oracle problems, tags, impl, model lines)"""
    runner = RUNNERS.get(case["op"])
    if runner is None:
        raise InfraError(f"unknown op {case['op']}")
    torch.manual_seed(case.get("seed", 0))
    np.random.seed(case.get("seed", 0) % (1 << 31))
    random.seed(case.get("seed", 0))
    impl, model_ops, problems, tags = runner(case)
    model_out = drv(chk, ["reset"] + model_ops)[1:] if model_ops else []
    chk.corr["model_lines"] += len(model_ops)
    if any(o == "bad-op" for o in model_out):
        raise InfraError(f"driver answered bad-op for {model_ops[:1]}")
    if case["op"] == "prep":
        diff = diff_prep(case, impl, model_out)
        if diff is not None:
            legacy = drv(chk, ["reset"] + [ln.replace("obs prep ", "obs preplegacy ", 1) for ln in model_ops])[1:]
            if diff_prep(case, impl, legacy) is None:
                diff += " (the implementation equals the model's LEGACY variant: scalar Box without feature " \
                        "dimension / MultiDiscrete (step, env) rejected)"
    elif case["op"] == "ma_prep":
        diff = diff_ma_prep(case, impl, model_out)
    elif case["op"] == "critic":
        mi = parse_model(model_out[0])
        ii = parse_model(impl[0])
        exact = bool(case.get("raw")) or case["kind"] != "image"
        diff = None if (mi != "reject" and mi[0] == ii[0] and same_values(ii[1], mi[1], exact)) else \
            f"critic stack impl {impl[0][:60]} model {model_out[0][:60]}"
    elif case["op"] == "normv":
        diff = diff_normv(impl, model_out)
    elif case["op"] == "vect" and impl == ["raised"]:
        diff = None         # the oracle already reports the exception
    else:
        diff = next((f"line {i}: impl={a!r} model={b!r}" for i, (a, b) in enumerate(zip(impl, model_out)) if a != b),
                    None)
    return diff, problems, tags, impl, model_out


def safe_evaluate(chk: Check, case):
    """`evaluate`, with an exception of the implementation outside a guarded call reported as an oracle problem
    (a changed tree may raise anywhere; that is a finding about the tree, not a fault of the machinery)"""
    try:
        return evaluate(chk, case)
    except InfraError:
        raise
    except Exception as e:  # noqa: BLE001
        return None, [f"harness/implementation raised outside a guarded call: {type(e).__name__}: "
                      f"{str(e)[:200]}"], [case["op"]], [], []


def shrink(chk: Check, case, want_problem: bool):
    """fewer rows, then zeroed values, while the same kind of failure persists"""
    if case["op"] not in ("prep", "vect", "dqn_action") or case.get("form") in ("stepenv", "column", "badrank", "probe") \
            or len(case.get("lead", [])) != 1:
        return case
    comp = case["space"]["kind"] in ("dict", "tuple")

    def with_rows(idx):
        c = dict(case)
        c["rows"] = [[rows[i] for i in idx] for rows in case["rows"]] if comp else [case["rows"][i] for i in idx]
        c["lead"] = [len(idx)]
        c["form"] = "batch-of-one" if len(idx) == 1 else "batched"
        c.pop("perm", None)
        return c

    def fails(idx):
        d, p, *_ = safe_evaluate(chk, with_rows(idx))
        return bool(p) if want_problem else d is not None

    n = case["lead"][0]
    idx = ddmin(list(range(n)), fails) if n > 1 else list(range(n))
    try:
        return with_rows(idx) if fails(idx) else case
    except Exception:  # noqa: BLE001
        return case


def run_suite(chk: Check, cases, account=True):
    """returns number of failing cases (violations/findings already reported)"""
    failing = 0
    per_suite: dict = {}
    reported: set = set()
    for case in cases:
        diff, problems, tags, impl, model_out = safe_evaluate(chk, case)
        suite = {"prep": "preprocess", "vect": "vect-dim", "batchdim": "batch-dim", "totensor": "to-tensor",
                 "ma_prep": "multi-agent-preprocess", "asm": "assemble-disassemble", "critic": "critic-stack",
                 "dqn_action": "agent-oracle", "ma_action": "agent-oracle", "noncontig": "to-tensor",
                 "chfirst": "channels-first", "consist": "encoder-consistency", "normv": "normalise-values",
                 "route": "agent-routing", "ma_het": "multi-agent-preprocess"}[case["op"]]
        s = per_suite.setdefault(suite, [0, 0])
        s[0] += 1
        if account:
            nontrivial = case["op"] in ("ma_prep", "asm", "critic", "ma_action", "dqn_action", "consist", "normv", "route",
                                        "ma_het") or \
                (case.get("form") not in ("unbatched", None)) or \
                (case["op"] == "chfirst" and len(case["shape"]) >= 3)
            chk.case(case, nontrivial=nontrivial,
                     sample={k: case[k] for k in ("op", "space", "form", "lead", "container", "algo", "kind", "enc", "ids", "E", "n")
                             if k in case} if chk.rng.random() < 0.05 or chk.evaluations < 2 else None,
                     tags=tags)
        if diff is None and not problems:
            continue
        failing += 1
        s[1] += diff is not None
        fid = classify(case, problems) if problems else None
        if fid is not None and fid in reported:
            continue
        small = shrink(chk, case, bool(problems))
        d2, p2, _, impl2, model2 = safe_evaluate(chk, small)
        if not (p2 if problems else d2):
            small, d2, p2, impl2, model2 = case, diff, problems, impl, model_out
        replay_obj = {"case": small, "impl": [str(x)[:400] for x in (impl2 if isinstance(impl2, list) else [impl2])],
                      "model": model2, "oracle_problems": p2, "model_diff": d2,
                      "correspondence": "harness/c15.py vs Model/Obs.lean", "theorems": chk.gate["theorems"]}
        if problems:
            if fid is not None:
                reported.add(fid)
                chk.finding(fid, (p2 or problems)[0], replay_obj)
            else:
                chk.violation((p2 or problems)[0], replay_obj)
        else:
            chk.violation(f"implementation and Obs model disagree on a {case['op']} case: {d2 or diff}; the property "
                          f"oracle holds on this case and its shrinks", replay_obj, no_input=True)
    if account:
        for name, (n, d) in per_suite.items():
            chk.suite(name, n, d)
    return failing


def run(chk: Check) -> None:
    chk.rule = ("structured random cases: leaf spaces (Box rank 0-4 with uint8/int8/int32/float32/float64 dtypes, "
                "finite, per-element, unit and infinite bounds; Discrete n in {1,2,3,5}; MultiDiscrete; MultiBinary) "
                "and one-level Dict/Tuple of them x input form (unbatched, batched, batch-of-one, (step, env), column, "
                "wrong rank) x container (numpy, torch, TensorDict, dict/tuple, Python number, numpy scalar) x "
                "normalisation on/off; the same through DQN.preprocess_observation; get_vect_dim / "
                "maybe_add_batch_dim / obs_to_tensor; MADDPG and IPPO preprocess, assemble/disassemble, critic "
                "stacking on real agents; greedy-action / value oracles under batch, environment and agent "
                "permutations; encoder-consistency sweep: DQN/CQN/DDPG/TD3/PPO/MADDPG/MATD3/IPPO built with "
                "normalising encoders (CNN layer_norm=True -> BatchNorm, MLP layer_norm, multi-input), trained once, "
                "then Q-values / greedy actions / value estimates of one observation alone vs inside batches of "
                "different size, composition and order.  distinct = distinct case descriptions; non-trivial = "
                "batched in some way or multi-agent")
    chk.assumptions = [
        "inputs are integer- or quarter-valued so float32 conversion is exact; min-max scaling by a non-dyadic range "
        "is compared with the exact rational up to correct float32 rounding (relative 2^-24)",
        "Box bounds satisfy low < high wherever normalisation applies; observation shapes match the space's shape "
        "(the code compares ranks only, as the model does)",
        "network forward passes are compared between batch compositions with atol 2e-5 (different BLAS kernels per "
        "batch size); greedy actions only where the top-2 Q gap exceeds 1e-4",
        "MultiDiscrete rows have exactly len(nvec) components; MultiBinary n is an int",
        "value translation (Gen/ObsValGen.lean): dtype / device arguments erased (integer-dtype arithmetic on the bounds is "
        "seen by the normalise-values suite only), bounds broadcast over leading dimensions only, agent ids are strings, "
        "shared_agent_ids / homogeneous_agents as built by __init__ (agent-routing builds them with the class's own "
        "get_homo_id)",
    ]
    cases = []
    for f in sorted((ROOT / "corpus" / "C15").glob("*.json")):
        c = json.loads(f.read_text())
        cases.append(c.get("case", c))
    cases += gen_cases(chk)
    run_suite(chk, cases)
    chk.notes.extend(WARM_NOTES)
    if chk.tier == "thorough":
        selftest(chk)


# ----------------------------------------------------------------------------- self-test (seeded faults)
class _Quiet(Check):
    """a Check that records instead of printing, for the seeded-fault runs"""

    def __init__(self, parent: Check):
        self.__dict__.update(parent.__dict__)
        self.violations, self.known_hits, self.samples = [], [], []
        self.nontrivial, self.dist = set(), type(parent.dist)()
        self.corr = {"suites": {}, "model_lines": 0}
        self.evaluations = 0

    def violation(self, what, replay_obj, no_input=False):
        self.violations.append({"what": what, "no_input": no_input})

    def finding(self, fid, detail, replay_obj):
        self.violations.append({"what": f"{fid}: {detail}", "no_input": False})


def selftest(chk: Check) -> None:
    from agilerl.utils import algo_utils as au
    rng = random.Random(chk.seed + 99)
    img = {"kind": "box", "shape": [1, 2, 2], "low": [0] * 4, "high": [255] * 4, "sdtype": "uint8"}
    mini = [
        {"op": "prep", "space": {"kind": "disc", "n": 3}, "norm": True, "form": "batched", "lead": [3],
         "rows": [[2], [0], [1]], "dtype": "int64", "container": "numpy"},
        {"op": "prep", "space": {"kind": "mdisc", "nvec": [2, 3]}, "norm": True, "form": "batched", "lead": [2],
         "rows": [[1, 2], [0, 1]], "dtype": "int64", "container": "torch"},
        {"op": "prep", "space": {"kind": "box", "shape": [3], "low": [-4] * 3, "high": [4] * 3, "sdtype": "float32"},
         "norm": True, "form": "batch-of-one", "lead": [1], "rows": [[1, 2, 3]], "dtype": "float32",
         "container": "numpy"},
        {"op": "prep", "space": img, "norm": True, "form": "batch-of-one", "lead": [1], "rows": [[0, 60, 120, 255]],
         "dtype": "uint8", "container": "numpy"},
        {"op": "prep", "space": img, "norm": True, "form": "batched", "lead": [2],
         "rows": [[0, 60, 120, 255], [255, 1, 2, 3]], "dtype": "uint8", "container": "torch"},
        {"op": "dqn_action", "space": DQN_SPACES[0][0], "norm": True, "form": "batch-of-one", "lead": [1],
         "rows": [[1, 2, 3, -1]], "dtype": "float32", "container": "numpy", "via": "dqn"},
    ] + [gen_prep_case(rng) for _ in range(40)]
    mini += [gen_normv_case(rng, m) for m in ("degenerate", "degenerate", "i8", "i16", "perelem", "u8") for _ in range(3)]
    mini += [gen_route_case(rng) for _ in range(6)]
    mini += [{"op": "route", "agents": list(ids), "E": 2, "f": 2, "seed": 17 + i, "unknown": ["ghost_0"], "form": "route"}
             for i, ids in enumerate(ROUTE_IDS)]          # incl. the nested prefixes (`red_team_0` vs `red_0`)
    mini += [{"op": "ma_het", "algo": "maddpg", "kind": k, "E": 2, "seed": 3 + i, "form": "ma-het"}
             for i, k in enumerate(("image", "discrete"))]

    class FProxy:
        def __init__(self, real):
            self._real = real

        def __getattr__(self, name):
            return getattr(self._real, name)

        def one_hot(self, x, num_classes=-1):
            return torch.roll(self._real.one_hot(x, num_classes=num_classes), 1, -1)   # off by one

    orig_mabd, orig_norm, orig_F = au.maybe_add_batch_dim, au.apply_image_normalization, au.F

    def mabd_batch_of_one(obs, space_shape):
        # "a batch of one is an unbatched observation with a stray dimension": wrong inference
        if len(obs.shape) == len(space_shape) + 1 and obs.shape[0] == 1 and len(space_shape) >= 1:
            return obs[0]
        return orig_mabd(obs, space_shape)

    def norm_wrong_bound(observation, observation_space):
        out = orig_norm(observation, observation_space)
        if out is observation:
            return out
        low = torch.as_tensor(observation_space.low, dtype=observation.dtype)
        high = torch.as_tensor(observation_space.high, dtype=observation.dtype)
        return (observation - low) / (high - low + 1)          # 256 instead of 255

    def norm_in_place(observation, observation_space):
        out = orig_norm(observation, observation_space)
        if out is observation or not isinstance(observation, torch.Tensor):
            return out
        observation.copy_(out)                                  # scaling written back into the caller's buffer
        return observation

    orig_vect = au.get_vect_dim

    def vect_first_sorted_member(observation, observation_space):
        from gymnasium import spaces as gs
        if isinstance(observation_space, gs.Dict):
            return orig_vect(next(iter(observation.values())), next(iter(observation_space.spaces.values())))
        return orig_vect(observation, observation_space)

    from agilerl.algorithms.core import base as core_base

    def position_from_sorted_space(self, agent_id):
        known = list(self.observation_space.spaces.keys())
        return known.index(agent_id) if agent_id in known else len(known)

    for f in sorted((ROOT / "corpus" / "C15").glob("*.json")):
        if f.name.startswith(("purity_", "vectdim_dict_", "agent_ids_", "consist_maddpg")):
            c = json.loads(f.read_text())
            mini.append(c.get("case", c))
    from agilerl.algorithms.maddpg import MADDPG
    orig_ma_get_action = MADDPG.get_action

    def maddpg_get_action_without_eval(self, *a, **k):
        for act in self.actors:
            act.__dict__["eval"] = (lambda act=act: act)         # "no_grad already makes it inference-only"
        try:
            return orig_ma_get_action(self, *a, **k)
        finally:
            for act in self.actors:
                act.__dict__.pop("eval", None)

    def norm_as_found(observation, observation_space):
        # the code before the repair of C15-normalize-degenerate-bound: 0 / 0 where high == low
        if np.inf in observation_space.high or -np.inf in observation_space.low:
            return observation
        low = torch.as_tensor(observation_space.low, dtype=observation.dtype)
        high = torch.as_tensor(observation_space.high, dtype=observation.dtype)
        return (observation - low) / (high - low)

    def norm_integer_scale(observation, observation_space):
        out = orig_norm(observation, observation_space)
        if out is observation:
            return out
        low = torch.as_tensor(observation_space.low, dtype=observation.dtype)
        scale = torch.as_tensor(observation_space.high - observation_space.low, dtype=observation.dtype)  # wraps in int8
        return (observation - low) / torch.where(scale == 0, torch.ones_like(scale), scale)

    orig_ma_prep = core_base.MultiAgentRLAlgorithm.preprocess_observation

    def ma_prep_first_space(self, observation):
        return {a: au.preprocess_observation(observation[a], self.single_space, self.device, self.normalize_images)
                for a in sorted(observation.keys(), key=self._agent_position)}

    def homo_id_first_field(self, agent_id):
        return agent_id.split("_", 1)[0]

    def assemble_in_dict_order(self, agent_outputs, vect_dim):
        out = {}
        for a, v in agent_outputs.items():
            out.setdefault(self.get_homo_id(a), []).append(v)
        return {g: np.reshape(np.stack(v, axis=0), (len(v) * vect_dim, -1)) for g, v in out.items()}

    faults = [("normalisation as found: 0 / 0 where the bounds of a pixel coincide", au, "apply_image_normalization",
               norm_as_found),
              ("normalisation scale computed in the space's integer dtype", au, "apply_image_normalization",
               norm_integer_scale),
              ("multi-agent preprocess uses the first agent's space for every agent", core_base.MultiAgentRLAlgorithm,
               "preprocess_observation", ma_prep_first_space),
              ("get_homo_id cuts at the first underscore", core_base.MultiAgentRLAlgorithm, "get_homo_id",
               homo_id_first_field),
              ("assemble_homogeneous_outputs stacks in the order of the dictionary passed in",
               core_base.MultiAgentRLAlgorithm, "assemble_homogeneous_outputs", assemble_in_dict_order),
              ("MADDPG.get_action leaves the actors in train mode (BatchNorm uses batch statistics)", MADDPG,
               "get_action", maddpg_get_action_without_eval),
              ("one-hot off by one", au, "F", FProxy(orig_F)),
              ("batch dimension inferred wrongly for a batch of one", au, "maybe_add_batch_dim", mabd_batch_of_one),
              ("normalisation with a wrong bound", au, "apply_image_normalization", norm_wrong_bound),
              ("normalisation written into the caller's buffer", au, "apply_image_normalization", norm_in_place),
              ("get_vect_dim pairs the first observation member with the first sorted space member", au,
               "get_vect_dim", vect_first_sorted_member),
              ("agent positions taken from the sorted observation-space keys", core_base.MultiAgentRLAlgorithm,
               "_agent_position", position_from_sorted_space)]
    for name, owner, attr, repl in faults:
        q = _Quiet(chk)
        old = getattr(owner, attr)
        setattr(owner, attr, repl)
        try:
            bad = run_suite(q, mini, account=False)
        finally:
            setattr(owner, attr, old)
        if bad == 0 or not q.violations:
            raise InfraError(f"C15 self-test: seeded fault '{name}' was not noticed")
        chk.notes.append(f"self-test: {name} detected ({bad} failing cases, e.g. {q.violations[0]['what'][:90]})")
    # and the unpatched implementation passes the same mini-suite (the faults, not the cases, were the cause)
    q = _Quiet(chk)
    if run_suite(q, mini, account=False) != 0:
        chk.notes.append("self-test: the mini-suite also fails without a seeded fault (see the violations above)")


# ----------------------------------------------------------------------------- replay
def replay(chk: Check, path: str) -> int:
    c = json.loads(open(path).read())
    c = c.get("replay", c)
    case = c.get("case", c)
    diff, problems, _, impl, model = safe_evaluate(chk, case)
    print(json.dumps({"case": case, "model_diff": diff, "oracle_problems": problems,
                      "impl": [str(x)[:300] for x in (impl if isinstance(impl, list) else [impl])],
                      "model": model}, indent=1, default=str))
    if problems:
        fid = classify(case, problems)
        e = chk._known.get(fid) if fid else None
        if e is not None and e.get("status") == "open":
            print(f"KNOWN-FINDING: property=C15 {fid}: {e.get('what', problems[0])}")
            return 0
        print(f"VIOLATION property=C15 replay={path}")
        return 1
    if diff is not None:
        print(f"VIOLATION property=C15 replay={path} no-failing-input-found")
        return 1
    return 0
