"""
C16 — stochastic policies report the true log-probability and entropy of their actions.

Correspondence (implementation vs `Model/Dist.lean`, through the compiled driver)
    The REAL networks produce the numbers: raw logits / means of `StochasticActor` (directly, inside
    PPO and inside IPPO), the `log_std` parameter, the mask, the sampled action, the pre-squash draw.
    The harness turns the real logits into per-component log-probability tables / entropies with
    plain `torch` (log_softmax, logsigmoid, exp) and hands them to the driver as exact rationals; the
    driver does the bookkeeping exactly: where the mask goes (before the split, per split, constant
    −1e8), which slice of the flat vector belongs to which component (`torch.split` offsets), which
    entry an action coordinate selects, that all components are summed, at which pre-squash point the
    Gaussian is evaluated (cached draw vs the action's own pre-image), the `1 − a² + ε` argument of the
    squash correction, what `entropy()` returns.  Its answers are compared with the real `log_prob` /
    `entropy` outputs (relative tolerance 1e-5; floats are never compared exactly across reductions).

Oracle (independent of Lean and of the harness's tables)
    log-prob and entropy recomputed from scratch in float64 with `torch.distributions`
    (Categorical with −inf for masked logits, Independent Normal, Bernoulli, TransformedDistribution
    with TanhTransform), tolerance 1e-4 (+ the proved ε-bound of the `1e-6` inside the code's log);
    sampled actions lie in the support; masked actions are never drawn in N draws and have
    probability < 1e-30; re-evaluating a stored action after further forward passes gives the value
    of the immediate evaluation with the same parameters — on the actor, through
    `PPO.evaluate_actions`, and on the exact tensors `PPO.learn` / `IPPO.learn` hand to
    `action_log_prob`.  The entropies reported by a RE-evaluation (`StochasticActor.action_entropy`, second value of
    `PPO.evaluate_actions`) are held to the same closed forms, one per row.

Constructor options (suite block `option_sweep_cases` + the `common_fields` of the random blocks)
    Every distribution option of the constructors — `squash_output` (StochasticActor / EvolvableDistribution / PPO net_config),
    `action_std_init` (StochasticActor / EvolvableDistribution / PPO / IPPO) — is set to non-default values on EVERY
    action-space kind (Box, Discrete, MultiDiscrete, MultiBinary): on the actor, on an `EvolvableDistribution` built
    directly around an MLP (`via: dist`), through PPO get_action -> evaluate_actions, PPO.learn, IPPO get_action / learn
    (IPPO: action_std_init only, its critic constructor refuses squash_output).  The oracle above applies unchanged
    (tanh squashing and a log-std exist only for Gaussian policies, so for the other kinds the distribution is the plain
    categorical / Bernoulli one), and in addition an option that must be inert for the kind has to leave actions,
    log-probs, entropies and re-evaluations identical to those of the identically seeded case without it (`twin_problems`).

Source translation (`pre_gate`, before the Lean gate): `py2lean_dist.py` executes `agilerl/networks/distributions.py`
    and `StochasticActor.{__init__, forward, action_log_prob, action_entropy, scale_action}` of the tree under test
    symbolically (source text only), once per action-space kind, and rewrites `lean/Gen/DistGen.lean`;
    `Proofs/DistGenEq.lean` proves the generated definitions equal to the composition functions of `Model/Dist.lean`
    and `Props/C16.lean` restates the theorems over them (`C16_source_translation_*`).  If the translator rejects the
    source or those proofs stop checking, that is a gate problem naming the broken equality; the suites below then
    supply the failing input (tried: `.sum` dropped for Box, sign of the squash correction, swapped `torch.where`
    branches, `is` → `is not`, clamp / rescale constants, `exp(0.5 * log_std)` — each gives oracle violations with replays).
    `py2lean_ppoglue.py` does the same for the glue between rollout and update — `PPO.{_get_action_and_values,
    evaluate_actions, get_action}`, the minibatch statements of `PPO.learn` (squeeze / unsqueeze, `logratio`, `ratio`,
    the entropy term), the per-group body of `IPPO.get_action` and the minibatch statements of `IPPO._learn_individual`
    (`lean/Gen/PpoGlueGen.lean`, `Proofs/PpoGlueGenEq.lean`, `C16_source_translation_glue_*`).  Its suite
    (`run_glue`, "glue-first-minibatch"): get_action in training mode -> a one-step rollout of B environments -> learn
    with batch_size B; the first minibatch must hand the stored actions to `action_log_prob` with their action dimension
    and re-compute the stored log-probs (ratio = 1), for every space kind, B in {1, 2, 5} (B = 1: the minibatch is
    skipped, as coded), squash on / off incl. non-unit bounds; with masks (`glue_mask_probes`) the mismatch is the open
    finding `C16-ppo-reevaluation-ignores-mask`.  Tried: unsqueeze block deleted, `not self.training and` deleted (the
    clipped / scaled action stored) — gate problem naming `gen_ppo_learn_minibatch_eq` / `gen_ppo_get_action_eq` plus
    oracle violations with replays.
"""
from __future__ import annotations

import json
import math

import numpy as np
import torch

import agents
from common import ROOT, Check, InfraError, ddmin, frac

OBS_DIM = 4
POOL = 24
HALF_LOG_2PI = 0.5 * math.log(2.0 * math.pi)
KTOK = {"discrete": "d", "multidiscrete": "md", "multibinary": "mb"}


# ----------------------------------------------------------------------------- small helpers
def fr(x) -> str:
    return frac(float(x))


def frs(xs) -> str:
    return " ".join(fr(x) for x in xs)


def ints(xs) -> str:
    return " ".join(str(int(x)) for x in xs)


def close(x: float, y: float, tol: float = 1e-5, extra: float = 0.0) -> bool:
    if not (math.isfinite(x) and math.isfinite(y)):
        return False
    return abs(x - y) <= tol * (1.0 + abs(y)) + extra


def parse_rat(s: str) -> float:
    if "/" in s:
        n, d = s.split("/")
        return int(n) / int(d)
    return float(int(s))


def obs_space():
    from gymnasium import spaces
    return spaces.Box(-1.0, 1.0, (OBS_DIM,), np.float32)


def space_of(spec):
    from gymnasium import spaces
    k = spec["kind"]
    if k == "discrete":
        return spaces.Discrete(int(spec["n"]))
    if k == "multidiscrete":
        return spaces.MultiDiscrete([int(v) for v in spec["nvec"]])
    if k == "multibinary":
        return spaces.MultiBinary(int(spec["n"]))
    if k == "box":
        lo, hi = bounds_of(spec)
        return spaces.Box(lo.astype(np.float32), hi.astype(np.float32), dtype=np.float32)
    raise KeyError(k)


def bounds_of(spec):
    """(low, high) of a Box spec as float64 vectors (scalars are broadcast)"""
    d = int(spec["d"])
    lo = np.broadcast_to(np.asarray(spec.get("low", -1.0), dtype=np.float64), (d,)).copy()
    hi = np.broadcast_to(np.asarray(spec.get("high", 1.0), dtype=np.float64), (d,)).copy()
    return lo, hi


def unit_bounds(spec) -> bool:
    lo, hi = bounds_of(spec)
    return bool(np.all(lo == -1.0) and np.all(hi == 1.0))


def nvec_of(spec) -> list[int]:
    k = spec["kind"]
    if k == "discrete":
        return [int(spec["n"])]
    if k == "multidiscrete":
        return [int(v) for v in spec["nvec"]]
    if k == "multibinary":
        return [int(spec["n"])]
    return []


def flat_dim(spec) -> int:
    return int(spec["d"]) if spec["kind"] == "box" else sum(nvec_of(spec))


def obs_pool(seed: int) -> np.ndarray:
    return np.random.default_rng([int(seed) & 0xFFFFFFFF, 7]).uniform(-1, 1, (POOL, OBS_DIM)).astype(np.float32)


def net_config(squash: bool) -> dict:
    nc = agents.default_net_config("PPO", "vector")
    if squash:
        nc["squash_output"] = True
    return nc


def tune(actor, case) -> None:
    """spread the logits (tiny random nets are almost uniform) and set the log-std"""
    with torch.no_grad():
        k = float(case.get("scale", 1.0))
        if k != 1.0:
            for p in actor.head_net.wrapped.parameters():
                p.mul_(k)
    set_log_std(actor, case.get("log_std"))                     # a different std per dimension


def set_log_std(actor, ls) -> None:
    if ls is not None and hasattr(actor.head_net, "log_std"):
        with torch.no_grad():
            d = actor.head_net.log_std.shape[1]
            vals = [float(ls) - 0.25 * (i % 4) for i in range(d)]
            actor.head_net.log_std.copy_(torch.tensor([vals], dtype=torch.float32))


def history_actor(actor, case):
    """the network's life before it is examined: clone / every advertised architecture mutation (accepted or refused) /
    change of log_std / state-dict round trip.  ops: ["clone"], ["mut", k] (k-th advertised method, sorted), ["log_std", v], ["sd"]"""
    for op in case.get("history") or []:
        if op[0] == "clone":
            actor = actor.clone()
        elif op[0] == "mut":
            ms = sorted(actor.mutation_methods)
            if ms:
                getattr(actor, ms[int(op[1]) % len(ms)])()
        elif op[0] == "log_std":
            set_log_std(actor, op[1])
        elif op[0] in ("eval_fwd", "train_fwd"):          # a forward pass in evaluation / training mode (mode is left as set)
            actor.eval() if op[0] == "eval_fwd" else actor.train()
            with torch.no_grad():
                torch.manual_seed(case["seed"] + 17)
                actor(torch.as_tensor(obs_pool(case["seed"])[:2]))
        elif op[0] == "load":                              # load_state_dict of a state dict with another log_std into the SAME object
            load_other_log_std(actor, op[1])
        elif op[0] == "sd":
            twin = actor.clone()
            with torch.no_grad():
                for p in twin.parameters():
                    p.add_(0.5)
            twin.load_state_dict(actor.state_dict())
            actor = twin
        else:
            raise InfraError(f"unknown history op {op}")
    return actor


def load_other_log_std(actor, v) -> None:
    import copy
    sd = copy.deepcopy(actor.state_dict())
    keys = [k for k in sd if k.endswith("log_std")]
    for k in keys:
        d = sd[k].shape[-1]
        sd[k] = torch.tensor([[float(v) - 0.25 * (i % 4) for i in range(d)]], dtype=sd[k].dtype).reshape(sd[k].shape)
    actor.load_state_dict(sd)


def history_agent(ag, case):
    """ops: ["clone"], ["amut", seed, k] (Mutations.architecture_mutate; k = None: the library samples the method,
    else the k-th method the policy advertises), ["log_std", v]"""
    for op in case.get("history") or []:
        if op[0] == "clone":
            ag = ag.clone()
        elif op[0] == "log_std":
            for actor in (ag.actors if hasattr(ag, "actors") else [ag.actor]):
                set_log_std(actor, op[1])
        elif op[0] == "load":
            for actor in (ag.actors if hasattr(ag, "actors") else [ag.actor]):
                load_other_log_std(actor, op[1])
        elif op[0] == "get_action":                        # a rollout step (the algorithms run the actor in eval mode here)
            pool = obs_pool(case["seed"])
            torch.manual_seed(case["seed"] + 17)
            if hasattr(ag, "actors"):
                ag.get_action(obs={a: pool[[k, k + 1]] for k, a in enumerate(ag.agent_ids)}, infos=None)
            else:
                ag.get_action(pool[:2])
        elif op[0] == "learn":                             # optimizer steps through learn() on a short rollout
            algo = "IPPO" if hasattr(ag, "actors") else "PPO"
            batch = agents.make_batch(ag, algo, "vector", n=16, seed=case["seed"] + 19, num_envs=2)
            agents.seed_all(case["seed"] + 20)
            ag.learn(batch)
        elif op[0] == "amut":
            import agilerl.hpo.mutation as M
            m = M.Mutations(no_mutation=0, architecture=1, new_layer_prob=0.5, parameters=0, activation=0, rl_hp=0,
                            rand_seed=int(op[1]), device="cpu")
            k = op[2] if len(op) > 2 else None
            orig = getattr(M, "get_architecture_mut_method", None)
            if k is not None and orig is not None:
                def forced(ev, *a, k=k, **kw):
                    net = ev[0] if isinstance(ev, list) else ev
                    ms = sorted(net.mutation_methods)
                    return ms[int(k) % len(ms)]
                M.get_architecture_mut_method = forced
            try:
                ag = m.architecture_mutate(ag)
            finally:
                if orig is not None:
                    M.get_architecture_mut_method = orig
        else:
            raise InfraError(f"unknown history op {op}")
    return ag


def tail_actions(spec, squash, raw, mask, ls, seed):
    """legal but unlikely actions to re-evaluate: Box: mean + z*std with |z| up to 5 (2.5 when squashing, then tanh);
    categorical components: the least likely allowed outcome; bits: the less likely allowed value"""
    raw = np.asarray(raw, dtype=np.float32)
    B = raw.shape[0]
    if spec["kind"] == "box":
        rng = np.random.default_rng([int(seed) & 0xFFFFFFFF, 13])
        zmax = 2.5 if squash else 5.0
        z = rng.choice([-1.0, 1.0], size=raw.shape) * rng.uniform(1.0, zmax, size=raw.shape)
        u = (raw.astype(np.float64) + z * np.exp(np.asarray(ls, dtype=np.float64))).astype(np.float32)
        return torch.tanh(torch.tensor(u)).numpy() if squash else u
    n = raw.shape[1]
    m = np.ones((B, n), dtype=bool) if mask is None else np.asarray(mask, dtype=bool)
    if spec["kind"] == "multibinary":
        return ((raw < 0) & m).astype(np.float32)
    out = []
    for b in range(B):
        off, ab = 0, []
        for nk in nvec_of(spec):
            sl = np.where(m[b, off:off + nk], raw[b, off:off + nk], np.inf)
            ab.append(int(np.argmin(sl)))
            off += nk
        out.append(ab)
    out = np.asarray(out, dtype=np.int64)
    return out[:, 0] if spec["kind"] == "discrete" else out


def rows_of(case):
    idx = [int(r[0]) for r in case["rows"]]
    masks = [r[1] for r in case["rows"]]
    if all(m is None for m in masks):
        mask = None
    else:
        n = flat_dim(case["spec"])
        mask = np.array([[1] * n if m is None else m for m in masks], dtype=bool)
    return idx, mask


# ----------------------------------------------------------------------------- reading the real objects
def dist_params(actor, spec=None):
    """parameters of the distribution object the last forward pass built — only when the object has the
    documented layout (list of Categoricals with (B, nvec[k]) logits / Categorical (B, n) / Bernoulli (B, n) /
    Normal (B, d)); anything else -> None and the case is judged on its observable outputs alone"""
    try:
        d = actor.head_net.dist.distribution
        nvec = None if spec is None or spec["kind"] == "box" else nvec_of(spec)
        if isinstance(d, list):
            out = [x.logits.detach().double().numpy() for x in d]
            if nvec is not None and (len(out) != len(nvec) or any(o.ndim != 2 or o.shape[1] != nk for o, nk in zip(out, nvec))):
                return None
            return {"cat": out}
        name = type(d).__name__
        if name == "Categorical":
            lg = d.logits.detach().double().numpy()
            if lg.ndim != 2 or (nvec is not None and (len(nvec) != 1 or lg.shape[1] != nvec[0])):
                return None
            return {"cat": [lg]}
        if name == "Bernoulli":
            lg = d.logits.detach().double().numpy()
            if lg.ndim != 2 or (nvec is not None and lg.shape[1] != sum(nvec)):
                return None
            return {"bern": lg}
        if name == "Normal":
            loc, sc = d.loc.detach().float().numpy(), d.scale.detach().float().numpy()
            if loc.ndim != 2 or sc.shape != loc.shape or (spec is not None and loc.shape[1] != flat_dim(spec)):
                return None
            return {"loc": loc, "scale": sc}
    except Exception:
        return None
    return None


def cached_draw(actor):
    try:
        u = actor.head_net.dist.sampled_action
        return None if u is None else u.detach().float().numpy().copy()
    except Exception:
        return None


def raw_logits(actor, obs_t) -> np.ndarray:
    with torch.no_grad():
        return actor.head_net.wrapped(actor.extract_features(obs_t)).detach().float().numpy().copy()


def log_std_of(actor):
    ls = getattr(actor.head_net, "log_std", None)
    return None if ls is None else ls.detach().float().numpy().reshape(-1).copy()


# ----------------------------------------------------------------------------- model lines + expectations
class Lines:
    """model op lines, each with a checker(out) -> problem text or None"""

    def __init__(self):
        self.lines: list[str] = []
        self.checks: list = []

    def add(self, line: str, check=None):
        self.lines.append("dist " + line)
        self.checks.append(check)


def expect_str(want: str, what: str):
    return lambda out: None if out == want else f"{what}: model says {out!r}, implementation {want!r}"


def expect_val(real: float, what: str, tol=1e-5, extra=0.0):
    def chk(out):
        try:
            v = parse_rat(out)
        except Exception:
            return f"{what}: model answered {out!r}, implementation {real!r}"
        return None if close(real, v, tol, extra) else f"{what}: implementation {real!r} vs model {v!r}"
    return chk


def own_masked(raw, mask01):
    """the harness's own masking of one row (float32)"""
    raw = np.asarray(raw, dtype=np.float32)
    return np.where(np.asarray(mask01, dtype=bool), raw, np.float32(-1e8)).astype(np.float32)


def own_splits(vec, nvec):
    offs = np.concatenate([[0], np.cumsum(nvec)]).astype(int)
    return [np.asarray(vec[offs[i]:offs[i + 1]]) for i in range(len(nvec))]


def discrete_lines(L: Lines, spec, row, tag=""):
    """mask / split / select / sum for Discrete, MultiDiscrete, MultiBinary on one row"""
    kind, nvec = spec["kind"], nvec_of(spec)
    n = sum(nvec)
    raw = row["raw"]
    mask01 = [1] * n if row["mask"] is None else [int(bool(v)) for v in row["mask"]]
    tok = KTOK[kind]
    nv = ints(nvec)
    real = row.get("dist")

    def check_mask(out):
        if out in ("reject", "bad-op"):
            return f"{tag}mask op answered {out}"
        groups = [[parse_rat(w) for w in g.split()] for g in out.split(" ; ")]
        if [len(g) for g in groups] != (nvec if kind != "discrete" else [n]):
            return f"{tag}model split sizes {[len(g) for g in groups]} != nvec {nvec}"
        if real is None:
            return None
        if "bern" in real:
            got = [float(v) for v in real["bern"]]
            if [float(v) for v in groups[0]] != got:
                return f"{tag}Bernoulli logits of the real distribution {got} != model's masked logits {groups[0]}"
            return None
        for k, g in enumerate(groups):
            ls = torch.log_softmax(torch.tensor(g, dtype=torch.float64), -1).numpy()
            rl = np.asarray(real["cat"][k], dtype=np.float64)
            off = sum(nvec[:k])
            for j in range(len(g)):
                if mask01[off + j]:
                    if not close(float(rl[j]), float(ls[j]), 1e-5):
                        return (f"{tag}component {k} outcome {j}: real normalised logit {rl[j]!r} vs "
                                f"log_softmax of the model's masked slice {ls[j]!r}")
                elif rl[j] > -1e7:
                    return f"{tag}component {k} outcome {j} is masked but the real distribution has logit {rl[j]!r}"
        return None

    L.add(f"mask {tok} {nv} | {frs(raw)} | {ints(mask01)}", check_mask)
    own = own_masked(raw, mask01)
    act = row["action"]
    if kind == "multibinary":
        t = torch.tensor(own, dtype=torch.float32)
        b = torch.distributions.Bernoulli(logits=t)
        lp1 = b.log_prob(torch.ones_like(t)).numpy()
        lp0 = b.log_prob(torch.zeros_like(t)).numpy()
        bits = [1 if float(v) == 1.0 else 0 for v in act]
        if row.get("lp") is not None:
            L.add(f"bern | {frs(lp1)} | {frs(lp0)} | {ints(bits)}", expect_val(row["lp"], tag + "log_prob (bits)"))
        if row.get("ent") is not None:
            L.add(f"sum | {frs(b.entropy().numpy())}", expect_val(row["ent"], tag + "entropy (bits)"))
        L.add(f"supp mb {nv} | {ints(mask01)} | {ints(bits)}", expect_str("1", tag + "support"))
    else:
        parts = own_splits(own, nvec)
        cats = [torch.distributions.Categorical(logits=torch.tensor(p, dtype=torch.float32)) for p in parts]
        table = np.concatenate([c.logits.numpy() for c in cats])
        a = [int(v) for v in act]
        if row.get("lp") is not None:
            L.add(f"catlp {nv} | {frs(table)} | {ints(a)}", expect_val(row["lp"], tag + "log_prob (categorical)"))
        if row.get("ent") is not None:
            L.add(f"sum | {frs([float(c.entropy()) for c in cats])}", expect_val(row["ent"], tag + "entropy (categorical)"))
        L.add(f"supp {tok} {nv} | {ints(mask01)} | {ints(a)}", expect_str("1", tag + "support"))


def corr_terms(a32: np.ndarray):
    t = torch.tensor(np.asarray(a32, dtype=np.float32))
    arg = (1 - t.pow(2) + 1e-6)
    return arg.numpy(), torch.log(arg).numpy()


def preimage(a32: np.ndarray) -> np.ndarray:
    eps = float(np.finfo(np.float32).eps)
    a = np.clip(np.asarray(a32, dtype=np.float64), -1.0 + eps, 1.0 - eps)
    return np.arctanh(a)


def cond_extra(row) -> float:
    """what float32 storage of a = tanh(u) can cost when the Gaussian is evaluated at atanh(a)"""
    if not row.get("squash"):
        return 0.0
    a = np.asarray(row["action"], dtype=np.float64)
    u = preimage(row["action"])
    mu = np.asarray(row["mu"], dtype=np.float64)
    sg = np.exp(np.asarray(row["log_std"], dtype=np.float64))
    du = 2.4e-7 / (1.0 - a * a + 1.2e-7) + 1e-6 * np.abs(u)
    return float(np.sum(np.abs(u - mu) / (sg * sg) * du))


def box_lines(L: Lines, row, tag=""):
    squash = bool(row["squash"])
    mu, ls = row["mu"], row["log_std"]
    sigma = torch.exp(torch.tensor(np.asarray(ls, dtype=np.float32))).numpy()
    a = np.asarray(row["action"], dtype=np.float32)          # head-level action (inside (-1,1) when squashing)
    L.add(f"nnew {int(squash)} {fr(HALF_LOG_2PI)} | {frs(mu)} | {frs(sigma)} | {frs(ls)}", expect_str("ok", tag + "nnew"))
    if squash:
        arg32, corr = corr_terms(a)
        pre = preimage(a)

        def check_arg(out):
            vals = [parse_rat(w) for w in out.split()]
            bad = [i for i, (x, y) in enumerate(zip(vals, arg32)) if abs(x - float(y)) > 4e-7]
            return None if not bad and len(vals) == len(arg32) else \
                f"{tag}argument of the squash correction: model {vals} vs float32 formula {arg32.tolist()}"
        L.add(f"corrarg {fr(np.float32(1e-6))} | {frs(a)}", check_arg)
    else:
        corr = np.zeros_like(a)
        pre = a.astype(np.float64)
    if row.get("lp") is not None:
        if "ent" in row:
            L.add("nent", expect_str("none", tag + "entropy with squashing") if row["ent"] is None
                  else expect_val(row["ent"], tag + "entropy (normal)"))
        u = row.get("u")
        if u is not None:
            L.add(f"nsample | {frs(u)}", expect_str("ok", tag + "nsample"))
            L.add(f"nlogp code | {frs(a)} | {frs(corr)}", expect_val(row["lp"], tag + "log_prob of the fresh sample (snapshot variant)"))
            L.add(f"nlogp fixed 1 | {frs(a)} | {frs(pre)} | {frs(corr)}", expect_val(row["lp"], tag + "log_prob of the fresh sample"))
        else:
            L.add(f"nlogp fixed 0 | {frs(a)} | {frs(pre)} | {frs(corr)}",
                  expect_val(row["lp"], tag + "log_prob of the fresh sample (pre-image)", 1e-4, cond_extra(row)))
    re = row.get("re")
    if re is not None:
        state = {}
        if re.get("u2") is not None:
            L.add(f"nsample | {frs(re['u2'])}", expect_str("ok", tag + "nsample"))

            def keep(out, state=state):
                state["code"] = out
                return None
            L.add(f"nlogp code | {frs(a)} | {frs(corr)}", keep)

        def check_re(out, state=state):
            v = parse_rat(out)
            if close(re["lp"], v, 1e-5, cond_extra(row)):
                return None
            msg = f"{tag}log_prob of a STORED action after another forward pass: implementation {re['lp']!r} vs model (Gaussian at the action's own pre-image) {v!r}"
            try:
                if "code" in state and close(re["lp"], parse_rat(state["code"]), 1e-5):
                    msg += " — the implementation equals the snapshot variant of the model (Gaussian evaluated at the draw cached by the last forward pass)"
            except Exception:
                pass
            return msg
        L.add(f"nlogp fixed 0 | {frs(a)} | {frs(pre)} | {frs(corr)}", check_re)


def row_lines(L: Lines, spec, row, tag=""):
    if spec["kind"] == "box":
        if not saturated(row):
            box_lines(L, row, tag)
    else:
        discrete_lines(L, spec, row, tag)
        re = row.get("re")
        if re is not None:
            r2 = dict(row)
            r2["lp"], r2["ent"], r2["re"] = re["lp"], None, None
            r2["dist"] = None
            L2 = Lines()
            discrete_lines(L2, spec, r2, tag + "stored re-evaluation: ")
            # only the log-prob line of the re-evaluation (mask/support were checked above)
            for ln, ck in zip(L2.lines, L2.checks):
                if ln.startswith("dist catlp") or ln.startswith("dist bern"):
                    L.lines.append(ln)
                    L.checks.append(ck)


# ----------------------------------------------------------------------------- oracle (float64, from scratch)
def true_logprob_entropy(spec, squash, raw, mask, log_std, action):
    """(log-prob, entropy or None, support problem or None) of `action` under the distribution that
    the raw network outputs define — plain torch.distributions in float64"""
    D = torch.distributions
    kind = spec["kind"]
    if kind == "box":
        mu = torch.tensor(np.asarray(raw, dtype=np.float64))
        sd = torch.exp(torch.tensor(np.asarray(log_std, dtype=np.float64)))
        a = torch.tensor(np.asarray(action, dtype=np.float64))
        base = D.Normal(mu, sd)
        if not squash:
            if not bool(torch.isfinite(a).all()):
                return None, None, f"non-finite action {action}"
            return float(D.Independent(base, 1).log_prob(a)), float(D.Independent(base, 1).entropy()), None
        if not bool(((a >= -1) & (a <= 1)).all()):
            return None, None, f"squashed action {np.asarray(action).tolist()} outside [-1,1]"
        eps = float(np.finfo(np.float32).eps)
        td = D.TransformedDistribution(base, [D.transforms.TanhTransform(cache_size=0)])
        lp = float(D.Independent(td, 1).log_prob(a.clamp(-1 + eps, 1 - eps)))
        return lp, None, None
    nvec = nvec_of(spec)
    n = sum(nvec)
    m = np.ones(n, dtype=bool) if mask is None else np.asarray(mask, dtype=bool)
    lg = torch.tensor(np.asarray(raw, dtype=np.float64))
    if kind == "multibinary":
        bits = np.asarray(action, dtype=np.float64)
        if not np.all((bits == 0) | (bits == 1)) or len(bits) != n:
            return None, None, f"MultiBinary action {bits.tolist()} is not a 0/1 vector of length {n}"
        if np.any((bits == 1) & ~m):
            return None, None, f"masked bit set: action {bits.tolist()} mask {m.astype(int).tolist()}"
        p = torch.where(torch.tensor(m), torch.sigmoid(lg), torch.zeros_like(lg))
        b = torch.tensor(bits)
        lp = torch.where(b == 1, torch.where(torch.tensor(m), torch.nn.functional.logsigmoid(lg), torch.full_like(lg, -math.inf)),
                         torch.where(torch.tensor(m), torch.nn.functional.logsigmoid(-lg), torch.zeros_like(lg)))
        ent = torch.special.entr(p) + torch.special.entr(1 - p)
        return float(lp.sum()), float(ent.sum()), None
    a = np.asarray(action).reshape(-1)
    if len(a) != len(nvec) or np.any(a != np.round(a)):
        return None, None, f"action {a.tolist()} does not have one integer per component of nvec {nvec}"
    lp, ent, off = 0.0, 0.0, 0
    for k, nk in enumerate(nvec):
        ak = int(a[k])
        if not (0 <= ak < nk):
            return None, None, f"component {k}: index {ak} outside [0,{nk})"
        if not m[off + ak]:
            return None, None, f"component {k}: masked action {ak} was returned (mask {m[off:off + nk].astype(int).tolist()})"
        sl = torch.where(torch.tensor(m[off:off + nk]), lg[off:off + nk], torch.full((nk,), -math.inf, dtype=torch.float64))
        c = D.Categorical(logits=sl)
        lp += float(c.log_prob(torch.tensor(ak)))
        ent += float(c.entropy())
        off += nk
    return lp, ent, None


def eps_allow(squash, action) -> float:
    """C16_squash_eps_bound: the 1e-6 inside the code's log moves each term by at most ε/(1−a²)"""
    if not squash:
        return 0.0
    a = np.asarray(action, dtype=np.float64)
    # ... plus the float32 rounding of a*a inside the code's `1 - a.pow(2)` (relative error 2^-23 of a number close to 1)
    return float(np.sum((1e-6 + 2.4e-7) / np.maximum(1.0 - a * a, 1.2e-7)) + 1e-6)


def saturated(row) -> bool:
    """tanh(u) rounded to (almost) ±1 in float32: the stored action no longer determines u"""
    return bool(row.get("squash")) and float(np.max(np.abs(np.asarray(row["action"], dtype=np.float64)))) > 0.9999


def oracle_row(spec, row, problems: list, tag=""):
    squash = bool(row.get("squash"))
    if saturated(row):
        a = np.asarray(row["action"], dtype=np.float64)
        if np.any(np.abs(a) > 1.0):
            problems.append(f"{tag}squashed action outside [-1,1]: {a.tolist()}")
        return None
    raw = row["mu"] if spec["kind"] == "box" else row["raw"]
    lp_t, ent_t, bad = true_logprob_entropy(spec, squash, raw, row.get("mask"), row.get("log_std"), row["action"])
    if bad:
        problems.append(f"{tag}action outside the support: {bad}")
        return None
    if row.get("lp") is not None and not close(row["lp"], lp_t, 1e-4, eps_allow(squash, row["action"])):
        problems.append(f"{tag}reported log_prob {row['lp']!r} but the distribution defined by the network outputs gives "
                        f"{lp_t!r} for the returned action {np.asarray(row['action']).tolist()}")
    if row.get("ent") is not None and ent_t is not None and not close(row["ent"], ent_t, 1e-4):
        problems.append(f"{tag}reported entropy {row['ent']!r} but the distribution has entropy {ent_t!r}")
    re = row.get("re")
    if re is not None:
        extra = eps_allow(squash, row["action"]) + cond_extra(row)
        if not close(re["lp"], lp_t, 1e-4, extra):
            problems.append(f"{tag}re-evaluating the stored action {np.asarray(row['action']).tolist()} after further forward "
                            f"passes gives {re['lp']!r}; its log-probability under the (unchanged) policy is {lp_t!r}"
                            + (f" and was reported as {row['lp']!r} when it was sampled" if row.get("lp") is not None else ""))
        if re.get("ent") is not None and ent_t is not None and not close(re["ent"], ent_t, 1e-4):
            problems.append(f"{tag}re-evaluation reports entropy {re['ent']!r} but the distribution of that state has entropy {ent_t!r}")
    return lp_t


def support_first(spec, raw, mask, actions, tag="") -> list[str]:
    """first clause of the statement, looked at before the returned actions are re-used as stored actions: every returned
    action of a Discrete / MultiDiscrete / MultiBinary policy lies in the support (rows without any legal action are skipped)"""
    if spec["kind"] == "box":
        return []
    acts = np.asarray(actions)
    acts = acts.reshape(acts.shape[0], -1) if acts.ndim else acts.reshape(1, -1)
    for b in range(acts.shape[0]):
        mb = None if mask is None else np.asarray(mask[b]).astype(int).tolist()
        if dead_row(spec, mb):
            continue
        bad = true_logprob_entropy(spec, False, raw[b], mb, None, acts[b])[2]
        if bad:
            return [f"{tag}row {b}: action outside the support: {bad}"]
    return []


# ----------------------------------------------------------------------------- suite: the actor directly
class BareHead:
    """`EvolvableDistribution` constructed directly around a plain `EvolvableMLP` (what a user-defined policy network does),
    presented with the few entry points of StochasticActor the actor suite uses.  No encoder, no rescaling to the Box
    bounds (that lives in StochasticActor): generated with unit bounds only, where rescaling is the identity."""

    def __init__(self, head):
        self.head_net = head

    def extract_features(self, obs):
        return obs

    def __call__(self, obs, action_mask=None):
        return self.head_net.forward(obs, action_mask)

    def action_log_prob(self, action):
        return self.head_net.log_prob(action)

    def action_entropy(self):
        return self.head_net.entropy()

    def eval(self):
        self.head_net.eval()

    def train(self):
        self.head_net.train()


def build_actor(case):
    from agilerl.networks.actors import StochasticActor
    agents.seed_all(case["seed"])
    if case.get("via") == "dist":
        from agilerl.modules.mlp import EvolvableMLP
        from agilerl.networks.distributions import EvolvableDistribution
        if case.get("history") or not unit_bounds({"d": 1, **case["spec"]}):
            raise InfraError("via=dist cases have no history and unit bounds")
        space = space_of(case["spec"])
        mlp = EvolvableMLP(num_inputs=OBS_DIM, num_outputs=flat_dim(case["spec"]), hidden_size=[8], output_activation=None,
                           min_mlp_nodes=8, device="cpu")
        actor = BareHead(EvolvableDistribution(space, mlp, action_std_init=float(case.get("std_init", 0.0)),
                                               squash_output=bool(case.get("squash", False)), device="cpu"))
        tune(actor, case)
        actor.eval() if case.get("mode") == "eval" else actor.train()
        return actor
    actor = StochasticActor(obs_space(), space_of(case["spec"]), encoder_config={"hidden_size": [8]},
                            head_config={"hidden_size": [8]}, latent_dim=8,
                            action_std_init=float(case.get("std_init", 0.0)),
                            squash_output=bool(case.get("squash", False)))
    tune(actor, case)
    actor = history_actor(actor, case)
    if case.get("mode") == "eval":
        actor.eval()
    elif case.get("mode") == "train":
        actor.train()
    return actor


def run_actor(case):
    """forward with mask, immediate re-evaluation, further forward passes, re-evaluation of the stored action"""
    spec, squash = case["spec"], bool(case.get("squash", False)) and case["spec"]["kind"] == "box"
    idx, mask = rows_of(case)
    pool = obs_pool(case["seed"])
    obs = torch.as_tensor(pool[idx])
    other = torch.as_tensor(pool[[(i + 5) % POOL for i in idx]])
    actor = build_actor(case)
    problems: list[str] = []
    rows = []
    with torch.no_grad():
        raw = raw_logits(actor, obs)
        torch.manual_seed(case["seed"] + 1)
        head_a, lp, ent = actor.head_net(actor.extract_features(obs), mask)      # what PPO calls (forward_head)
        params, u = dist_params(actor, spec), cached_draw(actor)
        problems += support_first(spec, raw, mask, head_a.numpy())
        if problems:
            return rows, problems
        lp_now = actor.action_log_prob(head_a)
        torch.manual_seed(case["seed"] + 1)
        full_a, lp_full, _ = actor(obs, action_mask=mask)                          # StochasticActor.forward
        lp_unscaled = None
        if squash:
            lo_t, hi_t = (torch.tensor(v, dtype=torch.float32) for v in bounds_of(spec))
            unscaled = ((full_a - lo_t) / (0.5 * (hi_t - lo_t)) - 1.0).clamp(-1.0, 1.0)
            lp_unscaled = actor.action_log_prob(unscaled)                          # same distribution object, same weights
        stored = head_a.clone()
        torch.manual_seed(case["seed"] + 2)
        actor(other)                                                               # a further forward pass
        torch.manual_seed(case["seed"] + 3)
        actor(obs, action_mask=mask)                                               # the pass evaluate_actions makes
        u2 = cached_draw(actor)
        lp_re = actor.action_log_prob(stored)
        ent_re = actor.action_entropy()                                            # entropy of the distribution of that pass
        tail = tail_actions(spec, squash, raw, mask, log_std_of(actor), case["seed"])
        lp_tail = actor.action_log_prob(torch.as_tensor(tail))
        lp_re_full = None
        if spec["kind"] == "box" and squash and unit_bounds(spec):
            lp_re_full = actor.action_log_prob(full_a.clone())
        # masked outcomes: log-prob of an action that picks a masked entry in every component that has one
        lp_bad = None
        if mask is not None and spec["kind"] in ("discrete", "multidiscrete"):
            bad_a, has = [], []
            for b in range(len(idx)):
                off, ab, hb = 0, [], False
                for k, nk in enumerate(nvec_of(spec)):
                    ms = mask[b, off:off + nk]
                    j = int(np.argmin(ms)) if not ms.all() else int(stored[b].reshape(-1)[k])
                    hb = hb or not ms.all()
                    ab.append(j)
                    off += nk
                bad_a.append(ab)
                has.append(hb)
            t = torch.tensor(bad_a)
            t = t[:, 0] if spec["kind"] == "discrete" else t
            lp_bad = (actor.action_log_prob(t).numpy(), has)
    ls = log_std_of(actor)
    B = len(idx)
    if tuple(lp.shape) != (B,):
        problems.append(f"log_prob has shape {tuple(lp.shape)} for a batch of {B}")
        return rows, problems
    if squash:
        lo, hi = bounds_of(spec)
        want = lo + 0.5 * (head_a.double().numpy() + 1.0) * (hi - lo)
        if not np.allclose(full_a.double().numpy(), want, atol=1e-5):
            problems.append("StochasticActor.forward does not return scale_action(tanh(u)) of the head's action")
        if not (np.all(full_a.numpy() >= lo - 1e-5) and np.all(full_a.numpy() <= hi + 1e-5)):
            problems.append(f"scaled action outside the bounds [{lo.tolist()},{hi.tolist()}]: {full_a.numpy().tolist()}")
    elif not np.array_equal(full_a.numpy(), head_a.numpy()):
        problems.append("StochasticActor.forward and forward_head returned different actions for the same seed")
    if tuple(lp_full.shape) != (B,):
        problems.append(f"StochasticActor.forward: log_prob has shape {tuple(lp_full.shape)} for a batch of {B}")
        return rows, problems
    if squash:
        if ent_re is not None:
            problems.append("squash_output=True on a Box policy but action_entropy() reports a closed-form entropy as an unsquashed Gaussian would")
    elif ent_re is None or tuple(ent_re.shape) != (B,):
        problems.append(f"action_entropy() returned {None if ent_re is None else tuple(ent_re.shape)} for a batch of {B} (one entropy per row expected)")
        return rows, problems
    fwd_vs_head = None
    if not np.allclose(lp_full.numpy(), lp.numpy(), atol=1e-5, rtol=1e-5):
        b0 = int(np.argmax(np.abs(lp_full.numpy() - lp.numpy())))
        fwd_vs_head = (f"row {b0}: StochasticActor.forward reports log_prob {float(lp_full[b0])!r} but forward_head (what PPO uses) reports "
                       f"{float(lp[b0])!r} for the same draw and the same weights")
    for b in range(B):
        row = {"raw": raw[b].tolist(), "mask": None if mask is None else mask[b].astype(int).tolist(),
               "action": np.asarray(head_a[b]).reshape(-1).tolist(), "lp": float(lp[b]),
               "ent": None if ent is None else float(ent[b]), "squash": squash,
               "re": {"lp": float(lp_re[b]), "u2": None if (u2 is None or not squash) else u2[b].tolist()}}
        if not squash:
            row["re"]["ent"] = float(ent_re[b])
        if spec["kind"] == "box":
            row.update(mu=raw[b].tolist(), log_std=ls.tolist(), u=None if u is None else u[b].tolist())
            if params is not None and not (np.array_equal(params["loc"][b], raw[b])
                                           and np.allclose(params["scale"][b], np.exp(ls), rtol=1e-6)):
                problems.append(f"row {b}: Normal(loc, scale) of the real distribution is not (network output, exp(log_std))")
        else:
            row["dist"] = None if params is None else {k: ([x[b] for x in v] if k == "cat" else v[b]) for k, v in params.items()}
        row["lp_full"] = float(lp_full[b])
        row["full_action"] = np.asarray(full_a[b]).reshape(-1).tolist()
        if lp_unscaled is not None:
            row["lp_unscaled"] = float(lp_unscaled[b])
        if not close(float(lp_now[b]), row["lp"], 1e-6):
            problems.append(f"row {b}: action_log_prob(action just returned) = {float(lp_now[b])!r} but forward reported {row['lp']!r}")
        if lp_re_full is not None and abs(float(np.max(np.abs(np.asarray(row["action"]))))) < 0.999:
            if not close(float(lp_re_full[b]), row["lp"], 1e-4, cond_extra({**row, "mu": raw[b], "log_std": ls}) * 4 + 1e-4):
                row["late"] = (f"row {b}: action_log_prob(action returned by actor(obs), unit bounds) = {float(lp_re_full[b])!r}, "
                               f"reported {row['lp']!r} at sampling time")
        if tuple(lp_tail.shape) == (B,):
            row["tail"] = {"action": np.asarray(tail[b]).reshape(-1).tolist(), "lp": float(lp_tail[b])}
        else:
            problems.append(f"action_log_prob has shape {tuple(lp_tail.shape)} for {B} stored actions")
        if squash and row["ent"] is not None:
            problems.append(f"row {b}: squash_output=True but the actor reports an entropy ({row['ent']!r}) as an unsquashed Gaussian would")
        if lp_bad is not None and lp_bad[1][b] and not dead_row(spec, row["mask"]) and not float(lp_bad[0][b]) < math.log(1e-30):
            problems.append(f"row {b}: a masked action has probability exp({float(lp_bad[0][b])!r}) >= 1e-30")
        rows.append(row)
    if fwd_vs_head and rows:
        rows[0]["late2"] = fwd_vs_head
    return rows, problems


def run_draws(case, n_draws: int):
    """masked actions are never sampled: n_draws draws per row in one batch"""
    spec = case["spec"]
    idx, mask = rows_of(case)
    if mask is None:
        return []
    actor = build_actor(case)
    pool = obs_pool(case["seed"])
    obs = torch.as_tensor(np.repeat(pool[idx], n_draws, axis=0))
    m = np.repeat(mask, n_draws, axis=0)
    torch.manual_seed(case["seed"] + 9)
    with torch.no_grad():
        a, _, _ = actor(obs, action_mask=m)
    a = a.numpy().reshape(len(obs), -1)
    problems = []
    nvec = nvec_of(spec)
    for r in range(len(obs)):
        if dead_row(spec, m[r].astype(int).tolist()):
            continue
        if spec["kind"] == "multibinary":
            if np.any((a[r] == 1) & ~m[r]):
                problems.append(f"draw {r}: masked bit sampled {a[r].tolist()} mask {m[r].astype(int).tolist()}")
                break
        else:
            off = 0
            for k, nk in enumerate(nvec):
                j = int(a[r][k])
                if not (0 <= j < nk) or not m[r, off + j]:
                    problems.append(f"draw {r}: component {k} sampled {j} with mask {m[r, off:off + nk].astype(int).tolist()}")
                    break
                off += nk
            if problems:
                break
    return problems


# ----------------------------------------------------------------------------- suite: PPO
def build_ppo(case):
    from agilerl.algorithms import PPO
    squash = bool(case.get("squash", False))          # as requested: for a non-Box space the flag must be inert
    agents.seed_all(case["seed"])
    ag = PPO(obs_space(), space_of(case["spec"]), net_config=net_config(squash),
             action_std_init=float(case.get("std_init", 0.0)), batch_size=int(case.get("batch_size", 8)),
             learn_step=8, update_epochs=int(case.get("epochs", 1)), device="cpu", accelerator=None,
             **({"lr": float(case["lr"])} if case.get("lr") else {}))
    tune(ag.actor, case)
    return history_agent(ag, case)


def run_ppo(case):
    spec = case["spec"]
    squash = bool(case.get("squash", False)) and spec["kind"] == "box"
    idx, mask = rows_of(case)
    pool = obs_pool(case["seed"])
    obs = pool[idx]
    other = pool[[(i + 5) % POOL for i in idx]]
    ag = build_ppo(case)
    B = len(idx)
    problems, rows = [], []
    obs_t = ag.preprocess_observation(obs)
    raw = raw_logits(ag.actor, obs_t)
    torch.manual_seed(case["seed"] + 1)
    act, lp, ent, _v = ag.get_action(obs, action_mask=mask)
    params, u = dist_params(ag.actor, spec), cached_draw(ag.actor)
    act = np.asarray(act)
    problems += support_first(spec, raw, mask, act, "PPO.get_action: ")
    if problems:
        return rows, problems
    lp, ent = np.asarray(lp, dtype=np.float64), np.asarray(ent, dtype=np.float64)
    if lp.shape != (B,):
        problems.append(f"PPO.get_action: log_prob has shape {lp.shape} for a batch of {B}")
        return rows, problems
    a2 = act.reshape(B, -1)
    re_lp = None
    if mask is None:                                  # evaluate_actions has no mask argument
        torch.manual_seed(case["seed"] + 2)
        ag.get_action(other)
        torch.manual_seed(case["seed"] + 3)
        stored = torch.as_tensor(act.reshape(B) if spec["kind"] == "discrete" else a2)
        with torch.no_grad():
            re_lp, re_ent, _ = ag.evaluate_actions(obs, stored)
        u2 = cached_draw(ag.actor)
        re_lp = re_lp.numpy().astype(np.float64)
        if re_lp.shape != (B,):
            problems.append(f"PPO.evaluate_actions: log_prob has shape {re_lp.shape} for {B} stored actions")
            return rows, problems
        # the entropy evaluate_actions reports: per row that of the distribution (closed form), or the documented
        # stand-in -mean(log_prob) when a Gaussian is squashed
        re_ent = np.asarray(re_ent.numpy(), dtype=np.float64)
        if squash:
            if not close(float(np.mean(re_ent)), -float(np.mean(re_lp)), 1e-5):
                problems.append(f"PPO.evaluate_actions with squashing: entropy {re_ent.tolist()} is not -mean(log_prob) = {-float(np.mean(re_lp))}")
            re_ent = None
        elif re_ent.shape != (B,):
            problems.append(f"PPO.evaluate_actions: entropy has shape {re_ent.shape} for {B} stored actions (one entropy per row expected)")
            return rows, problems
        tail = tail_actions(spec, squash, raw, None, log_std_of(ag.actor), case["seed"])
        torch.manual_seed(case["seed"] + 4)
        with torch.no_grad():
            tail_lp, _, _ = ag.evaluate_actions(obs, torch.as_tensor(tail))
        tail_lp = tail_lp.numpy().astype(np.float64)
        if tail_lp.shape != (B,):
            problems.append(f"PPO.evaluate_actions: log_prob has shape {tail_lp.shape} for {B} stored actions")
            return rows, problems
    ls = log_std_of(ag.actor)
    if squash:
        want_ent = -float(np.mean(lp))
        if ent.shape != () and not np.allclose(ent, want_ent, atol=1e-5):
            problems.append(f"PPO.get_action with squashing: entropy {ent.tolist()} is not -mean(log_prob) = {want_ent}")
        ent_rows = [None] * B
        ent_scalar = float(np.mean(ent))
    else:
        if ent.shape != (B,):
            problems.append(f"PPO.get_action: entropy has shape {ent.shape} for a batch of {B}")
            return rows, problems
        ent_rows = [float(e) for e in ent]
        ent_scalar = None
    for b in range(B):
        row = {"raw": raw[b].tolist(), "mask": None if mask is None else mask[b].astype(int).tolist(),
               "action": a2[b].tolist(), "lp": float(lp[b]), "ent": ent_rows[b], "squash": squash}
        if re_lp is not None:
            row["re"] = {"lp": float(re_lp[b]), "u2": None if (u2 is None or not squash) else u2[b].tolist()}
            if re_ent is not None:
                row["re"]["ent"] = float(re_ent[b])
            row["tail"] = {"action": np.asarray(tail[b]).reshape(-1).tolist(), "lp": float(tail_lp[b])}
        if spec["kind"] == "box":
            row.update(mu=raw[b].tolist(), log_std=ls.tolist(), u=None if u is None else u[b].tolist())
        else:
            row["dist"] = None if params is None else {k: ([x[b] for x in v] if k == "cat" else v[b]) for k, v in params.items()}
        rows.append(row)
    if squash:
        rows[0]["ppoent"] = (ent_scalar, [float(x) for x in lp])
    return rows, problems


# ----------------------------------------------------------------------------- suite: IPPO
def build_ippo(case):
    from agilerl.algorithms import IPPO
    ids = case["agent_ids"]
    specs = case["specs"]
    agents.seed_all(case["seed"])
    ag = IPPO(observation_spaces=[obs_space() for _ in ids], action_spaces=[space_of(specs[i]) for i in range(len(ids))],
              agent_ids=list(ids), net_config=net_config(False), action_std_init=float(case.get("std_init", 0.0)),
              batch_size=int(case.get("batch_size", 8)), learn_step=8, update_epochs=int(case.get("epochs", 1)),
              device="cpu", accelerator=None, **({"lr": float(case["lr"])} if case.get("lr") else {}))
    for actor in ag.actors:
        tune(actor, case)
    return history_agent(ag, case)


def run_ippo(case):
    """IPPO.get_action: per agent (action, log_prob, entropy) against the shared actor's real logits"""
    ids, specs = case["agent_ids"], case["specs"]
    idx = [int(r[0]) for r in case["rows"]]
    B = len(idx)
    pool = obs_pool(case["seed"])
    ag = build_ippo(case)
    obs = {a: pool[[(i + 3 * k) % POOL for i in idx]] for k, a in enumerate(ids)}
    masks = case.get("masks")               # {agent: [[0/1]*n per row]}
    infos = None
    if masks:
        # python lists: IPPO.extract_action_masks tests `None in [mask, ...]`, which raises for numpy masks
        infos = {a: {"action_mask": [[int(v) for v in masks[a][j]] for j in range(B)]} for a in ids}
    pre = ag.preprocess_observation(obs)
    raws = {}
    for sid, actor in zip(ag.shared_agent_ids, ag.actors):
        raws[sid] = raw_logits(actor, pre[sid])
    raw_by_agent = ag.disassemble_homogeneous_outputs(dict(raws), B)
    torch.manual_seed(case["seed"] + 1)
    act, lp, ent, _ = ag.get_action(obs=obs, infos=infos)
    out, problems = {}, []
    for k, a in enumerate(ids):
        spec = specs[k]
        sid = ag.get_homo_id(a)
        actor = ag.actors[ag.shared_agent_ids.index(sid)]
        ls = log_std_of(actor)
        la = np.asarray(lp[a], dtype=np.float64).reshape(-1)
        ea = np.asarray(ent[a], dtype=np.float64).reshape(-1)
        aa = np.asarray(act[a]).reshape(B, -1)
        if la.shape != (B,) or ea.shape != (B,):
            problems.append(f"IPPO.get_action[{a}]: log_prob/entropy shapes {np.shape(lp[a])}/{np.shape(ent[a])} for a batch of {B}")
            continue
        rows = []
        for b in range(B):
            row = {"raw": np.asarray(raw_by_agent[a][b]).reshape(-1).tolist(),
                   "mask": None if not masks else [int(v) for v in masks[a][b]],
                   "action": aa[b].tolist(), "lp": float(la[b]), "ent": float(ea[b]), "squash": False, "dist": None}
            if spec["kind"] == "box":
                row.update(mu=row["raw"], log_std=ls.tolist(), u=aa[b].tolist())
            rows.append(row)
        out[a] = (spec, rows)
    return out, problems


# ----------------------------------------------------------------------------- suite: the tensors learn() re-evaluates
def run_learn(case):
    """PPO.learn / IPPO.learn: record every action_log_prob(stored actions) call with the distribution it was
    evaluated under; recompute from scratch; values of the first minibatch must be rollout log-probs"""
    algo = case["algo"]
    if algo == "PPO":
        ag = build_ppo(case)
        actors = [("actor", ag.actor, case["spec"], bool(case.get("squash", False)) and case["spec"]["kind"] == "box")]
    else:
        ag = build_ippo(case)
        actors = []
        for sid, actor in zip(ag.shared_agent_ids, ag.actors):
            k = next(i for i, a in enumerate(case["agent_ids"]) if ag.get_homo_id(a) == sid)
            actors.append((sid, actor, case["specs"][k], False))
    batch = agents.make_batch(ag, algo, "vector", n=int(case.get("n", 16)), seed=case["seed"] + 1, num_envs=2)
    stored_lps = {}
    if algo == "PPO":
        stored_lps["actor"] = np.concatenate([np.asarray(x, dtype=np.float64).reshape(-1) for x in batch[2]])
    else:
        for sid in ag.shared_agent_ids:
            stored_lps[sid] = np.concatenate([np.asarray(x, dtype=np.float64).reshape(-1)
                                              for a in case["agent_ids"] if ag.get_homo_id(a) == sid for x in batch[2][a]])
    records = {name: [] for name, *_ in actors}
    originals = []
    for name, actor, spec, squash in actors:
        orig = actor.action_log_prob

        def spy(action, orig=orig, actor=actor, name=name, spec=spec):
            out = orig(action)
            records[name].append({"action": action.detach().clone(), "out": out.detach().clone(),
                                  "params": dist_params(actor, spec), "u2": cached_draw(actor),
                                  "log_std": log_std_of(actor)})
            return out
        originals.append((actor, orig))
        object.__setattr__(actor, "action_log_prob", spy)
    problems = []
    eval_orig = None
    if algo == "PPO" and hasattr(ag, "evaluate_actions"):
        eval_orig = ag.evaluate_actions

        def eval_spy(*a, **kw):
            n0 = len(records["actor"])
            out = eval_orig(*a, **kw)
            if len(records["actor"]) == n0 + 1:          # the value learn() uses is evaluate_actions' return
                try:
                    records["actor"][-1]["out"] = out[0].detach().clone()
                except Exception:
                    pass
            return out
        object.__setattr__(ag, "evaluate_actions", eval_spy)
    try:
        agents.seed_all(case["seed"] + 2)
        ag.learn(batch)
    except Exception as e:
        problems.append(f"{algo}.learn raised {type(e).__name__}: {e}")
    finally:
        for actor, orig in originals:
            try:
                object.__delattr__(actor, "action_log_prob")
            except Exception:
                pass
        if eval_orig is not None:
            try:
                object.__delattr__(ag, "evaluate_actions")
            except Exception:
                pass
    evaluated = []
    for name, actor, spec, squash in actors:
        recs = records[name]
        if not recs and not problems:
            problems.append(f"{algo}.learn never re-evaluated a stored action for {name}")
        for ci, r in enumerate(recs[: int(case.get("max_calls", 3))]):
            out = r["out"].double().numpy()
            Bm = r["action"].shape[0]
            if out.shape != (Bm,):
                problems.append(f"{algo}.learn/{name} call {ci}: action_log_prob returned shape {out.shape} for {Bm} stored actions")
                continue
            p = r["params"]
            if p is None:
                continue
            acts = r["action"].double().numpy().reshape(Bm, -1)
            rows = []
            for b in range(Bm):
                if spec["kind"] == "box":
                    row = {"mu": p["loc"][b].tolist(), "raw": p["loc"][b].tolist(), "log_std": r["log_std"].tolist(),
                           "action": acts[b].astype(np.float32).tolist(), "squash": squash, "lp": None,
                           "re": {"lp": float(out[b]), "u2": None if (r["u2"] is None or not squash) else r["u2"][b].tolist()}}
                else:
                    rawb = np.concatenate([np.asarray(x[b]) for x in p["cat"]]) if "cat" in p else np.asarray(p["bern"][b])
                    row = {"raw": rawb.astype(np.float32).tolist(), "mask": None, "action": acts[b].tolist(), "squash": False,
                           "lp": None, "ent": None, "re": {"lp": float(out[b]), "u2": None}, "dist": None}
                rows.append(row)
            evaluated.append((name, ci, spec, rows))
            if ci == 0:
                ref = stored_lps[name]
                for b in range(Bm):
                    if spec["kind"] == "box" and saturated(rows[b]):
                        continue          # tanh(u) rounded to +-1 in float32: the stored action no longer determines u
                    extra = cond_extra(rows[b]) if spec["kind"] == "box" else 0.0
                    if not np.any(np.abs(ref - out[b]) <= 1e-4 * (1 + abs(out[b])) + extra):
                        problems.append(f"{algo}.learn/{name}: first minibatch, before any update: re-evaluated log_prob {out[b]!r} of "
                                        f"stored action {acts[b].tolist()} is none of the log-probs recorded in the rollout")
                        break
    return evaluated, problems


# ----------------------------------------------------------------------------- suite: the PPO glue (py2lean_ppoglue)
def action_dims(spec) -> int:
    k = spec["kind"]
    return int(spec["d"]) if k == "box" else len(spec["nvec"]) if k == "multidiscrete" else int(spec["n"]) if k == "multibinary" else 0


def run_glue(case):
    """get_action (training mode) -> a one-step rollout of B environments -> PPO.learn with batch_size = B: what the FIRST
    minibatch hands to action_log_prob, and `log_prob - batch_log_probs` / `ratio` as the code computes them (the minibatch
    tensors are read off `get_experiences_samples`).  Returns (problems, mask_mismatches, tags): without a mask every
    row must have ratio = 1; with a mask the mismatches are the open finding, reported separately."""
    import agilerl.algorithms.ppo as ppo_mod
    spec = case["spec"]
    squash = bool(case.get("squash", False)) and spec["kind"] == "box"
    idx, mask = rows_of(case)
    B = len(idx)
    pool = obs_pool(case["seed"])
    obs, nxt = pool[idx], pool[[(i + 5) % POOL for i in idx]]
    ag = build_ppo(dict(case, batch_size=B, epochs=1))
    problems, mism, tags = [], [], [f"glue-B{min(B, 5)}"]
    raw = raw_logits(ag.actor, ag.preprocess_observation(obs))
    ls = log_std_of(ag.actor)
    torch.manual_seed(case["seed"] + 1)
    act, lp, _ent, val = ag.get_action(obs, action_mask=mask)
    act, lp = np.asarray(act), np.asarray(lp, dtype=np.float64)
    if lp.shape != (B,):
        return [f"PPO.get_action: log_prob has shape {lp.shape} for a batch of {B}"], mism, tags
    batch = ([obs], [act], [np.asarray(lp, dtype=np.float32)], [np.zeros(B)], [np.zeros(B)], [np.asarray(val)], nxt, np.zeros(B))
    calls, samples, evals = [], [], []
    orig_lp, orig_ges, orig_eval = ag.actor.action_log_prob, ppo_mod.get_experiences_samples, ag.evaluate_actions

    def spy_lp(action):
        out = orig_lp(action)
        calls.append((action.detach().clone(), out.detach().clone()))
        return out

    def spy_ges(*a, **kw):
        out = orig_ges(*a, **kw)
        samples.append([x.detach().clone() if torch.is_tensor(x) else x for x in out])
        return out

    def spy_eval(*a, **kw):
        out = orig_eval(*a, **kw)
        evals.append([x.detach().clone() for x in out])
        return out
    object.__setattr__(ag.actor, "action_log_prob", spy_lp)
    object.__setattr__(ag, "evaluate_actions", spy_eval)
    ppo_mod.get_experiences_samples = spy_ges
    try:
        agents.seed_all(case["seed"] + 2)
        ag.learn(batch)
    finally:
        ppo_mod.get_experiences_samples = orig_ges
        for o, n in ((ag.actor, "action_log_prob"), (ag, "evaluate_actions")):
            try:
                object.__delattr__(o, n)
            except Exception:
                pass
    if not samples:
        return ["PPO.learn never indexed a minibatch (get_experiences_samples was not called)"], mism, tags
    if B == 1 and not calls:
        tags.append("glue-single-row-skipped")              # as coded and as modelled: `len(minibatch_idxs) > 1` is false
        return problems, mism, tags
    if not calls:
        return [f"PPO.learn did not re-evaluate the stored actions of a minibatch of {B} rows"], mism, tags
    a_in, out = calls[0]
    want_shape = (B,) if spec["kind"] == "discrete" else (B, action_dims(spec))
    if tuple(a_in.shape) != want_shape:
        problems.append(f"PPO.learn handed an action tensor of shape {tuple(a_in.shape)} to action_log_prob for {B} stored "
                        f"{spec['kind']} actions (expected {want_shape}: the action dimension must survive squeeze())")
    out = out.double().numpy()
    blp = samples[0][2].double().numpy().reshape(-1)
    if out.shape != (B,) or blp.shape != (B,):
        problems.append(f"PPO.learn: re-evaluated log_prob has shape {out.shape}, batch_log_probs {blp.shape}, for {B} rows")
        return problems, mism, tags
    acts = a_in.double().numpy().reshape(B, -1)
    states = samples[0][0]
    states = states.double().numpy().reshape(B, -1) if torch.is_tensor(states) else None
    for b in range(B):
        extra = 0.0
        if squash:
            j = b if states is None else int(np.argmin(np.abs(obs.astype(np.float64) - states[b]).sum(axis=1)))
            row = {"squash": True, "action": acts[b].astype(np.float32).tolist(), "mu": raw[j].tolist(), "log_std": ls.tolist()}
            if saturated(row):
                continue
            extra = cond_extra(row)
        logratio = float(out[b] - blp[b])
        tol = 1e-4 * (1 + abs(out[b])) + extra
        if not (abs(logratio) <= tol and abs(math.exp(min(logratio, 50.0)) - 1.0) <= 2 * tol + 1e-6):
            msg = (f"PPO.learn, first minibatch, unchanged weights: stored action {acts[b].tolist()} has rollout log_prob {blp[b]!r} "
                   f"but is re-evaluated to {out[b]!r}: ratio = {math.exp(min(logratio, 50.0))!r}, not 1")
            if mask is None:
                problems.append(msg)
            else:
                mism.append(msg + f" (sampled under a mask, re-evaluated without it)")
    if evals:
        ent = evals[0][1].double().numpy()
        if squash:
            if not close(float(np.mean(ent)), -float(np.mean(out)), 1e-5):
                problems.append(f"PPO.learn with squashing: the entropy term {ent.tolist()} is not -mean(log_prob) = {-float(np.mean(out))}")
        elif ent.shape != (B,):
            problems.append(f"PPO.learn: the entropy term has shape {ent.shape} for {B} rows (one entropy per row expected)")
    tags.append("stored-reeval")
    return problems, mism, tags


def glue_cases(rng, masked: bool):
    specs = [{"kind": "discrete", "n": 3}, {"kind": "multidiscrete", "nvec": [3]}, {"kind": "multidiscrete", "nvec": [2, 3]},
             {"kind": "multibinary", "n": 1}, {"kind": "multibinary", "n": 3}]
    if not masked:
        specs += [{"kind": "box", "d": 1}, {"kind": "box", "d": 2}, {"kind": "box", "d": 2, "low": -2.0, "high": 2.0}]
    out = []
    for spec in specs:
        for B in (1, 2, 5):
            for squash in (False, True):
                if squash and spec["kind"] != "box" and B != 2:
                    continue                                   # inert option: once per kind
                out.append({"suite": "glue", "spec": spec, "rows": gen_rows(rng, spec, masked, B), "seed": rng.randrange(1 << 30),
                            "scale": 4.0 if spec["kind"] != "box" else 2.0, "std_init": 0.0, "squash": squash})
    return out


def glue_mask_probes(chk: Check) -> None:
    """the same drive with masks: the rollout stores no masks, `learn` re-evaluates without them (open finding
    C16-ppo-reevaluation-ignores-mask, Props: C16_source_translation_glue_masked_reevaluation_partial / _witness)"""
    listed = getattr(chk, "_known", {})
    n = 0
    first = None
    for case in glue_cases(chk.rng, True):
        try:
            problems, mism, tags = run_glue(case)
        except Exception as e:
            problems, mism, tags = [f"implementation raised on a legal configuration: {type(e).__name__}: {e}"], [], []
        n += 1
        chk.case(case_key(case), nontrivial=True, tags=sorted(set(tags + ["suite-glue", "masked-row", f"kind-{case['spec']['kind']}"])))
        if problems:
            chk.violation(problems[0], {"case": case_key(case), "oracle_problems": problems[:6]})
        if mism and first is None:
            first = (case, mism[0])
    chk.suite("glue-first-minibatch-masked", n, 0)
    if first is not None:
        case, detail = first
        if FINDING_MASK in listed:
            chk.finding(FINDING_MASK, detail, {"probe": FINDING_MASK, "case": case_key(case), "detail": detail})
        else:
            chk.notes.append(f"probe {FINDING_MASK} through PPO.learn (not listed in known_findings.json, not judged): {detail}")


# ----------------------------------------------------------------------------- options that must be inert for a space kind
def case_specs(case):
    return list(case["specs"]) if "specs" in case else [case["spec"]]


def inert_options(case) -> list[str]:
    """distribution options of the constructors (StochasticActor / PPO / IPPO: `squash_output`, `action_std_init`) that are
    set to a non-default value although the action space has no Gaussian: tanh squashing and the log-std exist only for
    Box policies, so such an option must change nothing for Discrete / MultiDiscrete / MultiBinary"""
    kinds = sorted({sp["kind"] for sp in case_specs(case) if sp["kind"] != "box"})
    if not kinds:
        return []
    out = []
    if bool(case.get("squash", False)):
        out.append("squash_output=True")
    if float(case.get("std_init", 0.0) or 0.0) != 0.0:
        out.append(f"action_std_init={float(case['std_init'])}")
    return [" and ".join(out) + f" on a {'/'.join(kinds)} action space"] if out else []


def twin_case(case):
    """the same case (same seeds, same history) with the options of `inert_options` at their defaults.  Groups with a
    Box space (IPPO with mixed spaces: one action_std_init for all agents) are not compared: there the option is live."""
    t = json.loads(json.dumps(case_key(case)))
    if all(sp["kind"] != "box" for sp in case_specs(case)):
        t.pop("squash", None)
    t["std_init"] = 0.0
    return t


def plain_groups(case):
    """[(label, spec, rows)] of a case as the suites' runners return them, plus the runner's problems"""
    suite = case["suite"]
    if suite == "actor":
        rows, p = run_actor(case)
        return [("", case["spec"], rows)], p
    if suite == "ppo":
        rows, p = run_ppo(case)
        return [("PPO ", case["spec"], rows)], p
    if suite == "ippo":
        out, p = run_ippo(case)
        return [(f"IPPO {a} ", spec, rows) for a, (spec, rows) in out.items()], p
    if suite == "learn":
        ev, p = run_learn(case)
        return [(f"{case['algo']}.learn/{name} call {ci} ", spec, rows) for name, ci, spec, rows in ev], p
    raise InfraError(f"unknown suite {suite}")


def same_num(x, y) -> bool:
    if x is None or y is None:
        return x is None and y is None
    x, y = float(x), float(y)
    if math.isnan(x) or math.isnan(y):
        return False
    return x == y or close(x, y, 1e-6)


def twin_problems(case, groups) -> list[str]:
    """an option that must be inert leaves actions, log-probs and entropies identical to those of an identically seeded
    network / agent built without it (same weights, same draws, same history)"""
    opts = inert_options(case)
    if not opts:
        return []
    what = " and ".join(opts)
    try:
        tgroups, tp = plain_groups(twin_case(case))
    except Exception as e:
        return [f"the same case without {what} raised {type(e).__name__}: {e}"]
    if tp:
        return []                                  # the default configuration is judged by its own cases
    problems = []
    if [g[0] for g in groups] != [g[0] for g in tgroups]:
        return [f"with {what} the case produces {[g[0].strip() for g in groups]} but without it {[g[0].strip() for g in tgroups]}"]
    for (label, spec, rows), (_l, _s, trows) in zip(groups, tgroups):
        if spec["kind"] == "box":
            continue
        if len(rows) != len(trows):
            problems.append(f"{label}{len(rows)} rows with {what}, {len(trows)} without")
            continue
        for b, (r, t) in enumerate(zip(rows, trows)):
            for key, name in (("action", "action"), ("full_action", "action returned by StochasticActor.forward")):
                if key in r and not np.array_equal(np.asarray(r[key], dtype=np.float64), np.asarray(t.get(key), dtype=np.float64)):
                    problems.append(f"{label}row {b}: {what} must have no effect, but the {name} is {r[key]} with it and "
                                    f"{t.get(key)} without (same seed, same weights)")
                    break
            for key, sub, name in (("lp", None, "log_prob"), ("ent", None, "entropy"), ("lp_full", None, "log_prob of StochasticActor.forward"),
                                   ("re", "lp", "re-evaluated log_prob of the stored action"), ("re", "ent", "entropy reported by the re-evaluation"),
                                   ("tail", "lp", "log_prob of an unlikely stored action")):
                if key not in r:
                    continue
                x, y = r.get(key), t.get(key)
                if sub is not None:
                    x, y = (x or {}).get(sub), (y or {}).get(sub)
                if not same_num(x, y):
                    problems.append(f"{label}row {b}: {what} must have no effect, but the {name} is {x!r} with it and {y!r} without "
                                    f"(same seed, same weights)")
            if problems:
                return problems[:4]
    return problems


# ----------------------------------------------------------------------------- evaluate one case
def tail_row(L: Lines, spec, row, problems, tag):
    """the same distribution, an unlikely stored action: model line + float64 oracle on its re-evaluation"""
    t = row.get("tail")
    if not t:
        return
    r2 = {k: v for k, v in row.items() if k in ("raw", "mask", "squash", "mu", "log_std", "dist")}
    r2.update(action=t["action"], lp=None, re={"lp": t["lp"], "u2": None})
    row_lines(L, spec, r2, tag + "unlikely stored action: ")
    oracle_row(spec, r2, problems, tag + "unlikely stored action: ")


def eval_case(chk: Check, case, n_draws: int = 0):
    """returns (diffs, problems, tags): diffs = model/implementation disagreements, problems = oracle failures"""
    suite = case["suite"]
    L = Lines()
    problems, tags = [], [f"suite-{suite}"]
    try:
        if suite == "actor":
            rows, problems = run_actor(case)
            spec = case["spec"]
            for b, row in enumerate(rows):
                if dead_row(spec, row.get("mask")):
                    tags.append("dead-row")
                    continue
                row_lines(L, spec, row, f"row {b}: ")
                lp_t = oracle_row(spec, row, problems, f"row {b}: ")
                if lp_t is not None and "lp_full" in row:
                    extra = eps_allow(row.get("squash"), row["action"])
                    if not close(row["lp_full"], lp_t, 1e-4, extra):
                        problems.append(f"row {b}: StochasticActor.forward returned action {row['full_action']} with log_prob {row['lp_full']!r}; "
                                        f"the (tanh-corrected) log-density of that action's pre-image under the network's distribution is {lp_t!r}")
                    if "lp_unscaled" in row and not close(row["lp_unscaled"], row["lp_full"], 1e-4, extra + cond_extra(row) * 4 + 1e-4):
                        problems.append(f"row {b}: forward reported log_prob {row['lp_full']!r} with its action, but action_log_prob of the same "
                                        f"(unscaled) action under the same weights is {row['lp_unscaled']!r}")
                tail_row(L, spec, row, problems, f"row {b}: ")
                if row.get("late"):
                    problems.append(row["late"])
                if row.get("late2"):
                    problems.append(row["late2"])
            if n_draws:
                problems += run_draws(case, n_draws)
            groups, labels = [(spec, rows)], [""]
        elif suite == "ppo":
            rows, problems = run_ppo(case)
            spec = case["spec"]
            for b, row in enumerate(rows):
                if dead_row(spec, row.get("mask")):
                    tags.append("dead-row")
                    continue
                row_lines(L, spec, row, f"PPO row {b}: ")
                oracle_row(spec, row, problems, f"PPO row {b}: ")
                tail_row(L, spec, row, problems, f"PPO row {b}: ")
            if rows and "ppoent" in rows[0]:
                e, lps = rows[0]["ppoent"]
                L.add(f"ppoent | {frs(lps)}", expect_val(e, "PPO stand-in entropy with squashing"))
            groups, labels = [(spec, rows)], ["PPO "]
        elif suite == "ippo":
            out, problems = run_ippo(case)
            groups, labels = [], [f"IPPO {a} " for a in out]
            for a, (spec, rows) in out.items():
                for b, row in enumerate(rows):
                    if dead_row(spec, row.get("mask")):
                        tags.append("dead-row")
                        continue
                    row_lines(L, spec, row, f"IPPO {a} row {b}: ")
                    oracle_row(spec, row, problems, f"IPPO {a} row {b}: ")
                groups.append((spec, rows))
        elif suite == "learn":
            evaluated, problems = run_learn(case)
            groups, labels = [], [f"{case['algo']}.learn/{name} call {ci} " for name, ci, _s, _r in evaluated]
            for name, ci, spec, rows in evaluated:
                for b, row in enumerate(rows):
                    row_lines(L, spec, row, f"{case['algo']}.learn/{name} call {ci} row {b}: ")
                    oracle_row(spec, row, problems, f"{case['algo']}.learn/{name} call {ci} row {b}: ")
                groups.append((spec, rows))
        elif suite == "glue":
            problems, _mism, gtags = run_glue(case)
            tags += gtags
            if case.get("squash") and case["spec"]["kind"] == "box":
                tags.append("squash-row")
            tags.append(f"kind-{case['spec']['kind']}")
            groups, labels = [], []
        else:
            raise InfraError(f"unknown suite {suite}")
        inert = inert_options(case) if suite != "glue" else []
        if inert:
            tags.append("inert-option")
            problems = [f"{p} [configuration: {' and '.join(inert)}, where the option must have no effect]" for p in problems]
            problems += twin_problems(case, [(lb, sp, rw) for lb, (sp, rw) in zip(labels, groups)])
    except InfraError:
        raise
    except Exception as e:  # the implementation raised on a legal configuration
        inert = inert_options(case)
        return [], [f"implementation raised, or returned objects of an unexpected shape, on a legal configuration: {type(e).__name__}: {e}"
                    + (f" [configuration: {' and '.join(inert)}, where the option must have no effect]" if inert else "")], tags, 0
    for op in case.get("history") or []:
        tags.append(f"history-{op[0]}")
    for spec, rows in groups:
        k = spec["kind"]
        tags.append(f"kind-{k}")
        if flat_dim(spec) >= 16:
            tags.append("large-space")
        for row in rows:
            if row.get("mask") is not None and not all(row["mask"]):
                tags.append("masked-row")
            if row.get("squash"):
                tags.append("squash-row")
            if row.get("re") is not None:
                tags.append("stored-reeval")
    diffs = []
    if L.lines:
        outs = chk.driver.run(["reset"] + L.lines)[1:]
        chk.corr["model_lines"] += len(L.lines)
        for ln, ck, out in zip(L.lines, L.checks, outs):
            if out == "bad-op":
                raise InfraError(f"driver answered bad-op for {ln[:120]!r}")
            try:
                msg = ck(out) if ck is not None else None
            except Exception as e:     # data read from the implementation does not have the documented layout
                msg = f"implementation output could not be compared with the model's answer ({type(e).__name__}: {e})"
            if msg:
                diffs.append({"line": ln[:400], "model": out[:200], "what": msg})
    return diffs, problems, tags, len(L.lines)


# ----------------------------------------------------------------------------- generation
def all_masks(n: int):
    return [[(m >> i) & 1 for i in range(n)] for m in range(1, 1 << n)]


def random_mask(rng, spec):
    if spec["kind"] == "multibinary":
        return [rng.randint(0, 1) for _ in range(int(spec["n"]))]
    out = []
    for nk in nvec_of(spec):
        while True:
            m = [rng.randint(0, 1) for _ in range(nk)]
            if any(m):
                break
        out += m
    return out


BIG_SPECS = {
    "discrete": [{"kind": "discrete", "n": 20}, {"kind": "discrete", "n": 50}],
    "multidiscrete": [{"kind": "multidiscrete", "nvec": [10] * 8}, {"kind": "multidiscrete", "nvec": [12] * 10},
                      {"kind": "multidiscrete", "nvec": [11, 10, 13, 10, 12, 10, 15, 10, 10]}],
    "multibinary": [{"kind": "multibinary", "n": 32}, {"kind": "multibinary", "n": 16}],
    "box": [{"kind": "box", "d": 16}, {"kind": "box", "d": 24}, {"kind": "box", "d": 32}],
}


def random_spec(rng, kinds=("discrete", "multidiscrete", "multibinary", "box"), big=None):
    k = rng.choice(kinds)
    if big is None:
        big = rng.random() < 0.2
    if big:
        return json.loads(json.dumps(rng.choice(BIG_SPECS[k])))
    if k == "discrete":
        return {"kind": k, "n": rng.choice([2, 3, 4, 5, 7])}
    if k == "multidiscrete":
        return {"kind": k, "nvec": rng.choice([[2, 3], [3, 2, 2], [4], [1, 3], [2, 2, 2, 2], [5, 1, 2], [3, 4], [3, 3], [2, 2, 2], [4, 4], [3, 3]])}
    if k == "multibinary":
        return {"kind": k, "n": rng.choice([1, 2, 3, 5])}
    return {"kind": k, "d": rng.choice([1, 2, 3, 5])}


N_METHODS = 8      # StochasticActor advertises 8 architecture methods at HEAD; indices are taken modulo the real count


def actor_history(rng):
    if rng.random() < 0.45:
        return []
    ops = []
    for _ in range(rng.randint(1, 3)):
        r = rng.random()
        if r < 0.2:
            ops.append(["clone"])
        elif r < 0.75:
            ops.append(["mut", rng.randrange(N_METHODS)])
        elif r < 0.85:
            ops.append(["log_std", rng.choice([-1.0, -0.5, 0.25, 1.0])])
        elif r < 0.9:
            ops.append(["sd"])
        else:
            ops.append(["load", rng.choice([-1.0, -0.5, 0.25])])
        if rng.random() < 0.5:                             # interleave forwards in either mode
            ops.insert(rng.randrange(len(ops) + 1), [rng.choice(["eval_fwd", "eval_fwd", "train_fwd"])])
    return ops


def agent_history(rng):
    if rng.random() < 0.5:
        return []
    ops = []
    for _ in range(rng.randint(1, 2)):
        r = rng.random()
        if r < 0.25:
            ops.append(["clone"])
        elif r < 0.85:
            ops.append(["amut", rng.randrange(1 << 20), None if rng.random() < 0.4 else rng.randrange(N_METHODS)])
        elif r < 0.93:
            ops.append(["log_std", rng.choice([-1.0, -0.5, 0.25])])
        else:
            ops.append(["load", rng.choice([-1.0, -0.5, 0.25])])
        if rng.random() < 0.5:
            ops.insert(rng.randrange(len(ops) + 1), ["get_action"])
    return ops


def dead_row(spec, mask01) -> bool:
    """a categorical component without any legal outcome: the property says nothing about such a row (there is no
    legal action to report); it is never judged, only its neighbours in the batch are"""
    if mask01 is None or spec["kind"] not in ("discrete", "multidiscrete"):
        return False
    off = 0
    for nk in nvec_of(spec):
        if not any(mask01[off:off + nk]):
            return True
        off += nk
    return False


def kill_component(rng, spec, m):
    nvec = nvec_of(spec)
    k = rng.randrange(len(nvec))
    off = sum(nvec[:k])
    return m[:off] + [0] * nvec[k] + m[off + nvec[k]:]


def gen_rows(rng, spec, masked: bool, nrows=None):
    n = nrows or rng.randint(2, 4)
    idx = rng.sample(range(POOL), n)
    rows = [[i, random_mask(rng, spec) if masked else None] for i in idx]
    if masked and spec["kind"] in ("discrete", "multidiscrete") and rng.random() < 0.3:
        j = rng.randrange(n)                               # one exhausted row next to ordinarily masked rows
        rows[j][1] = kill_component(rng, spec, rows[j][1])
    return rows


def common_fields(rng, spec):
    f = {"seed": rng.randrange(1 << 30), "scale": rng.choice([1.0, 4.0, 16.0])}
    if spec["kind"] == "box":
        f["std_init"] = rng.choice([0.0, 0.0, 0.5, 1.0, 0.05, 2.5, 3.0])
        f["log_std"] = rng.choice([None, None, None, -1.0, -0.5, 0.25])
        f["squash"] = rng.random() < 0.55
        if f["squash"]:
            f["std_init"] = min(f["std_init"], 1.0)
            f["scale"] = rng.choice([1.0, 2.0, 4.0])
            r = rng.random()
            d = int(spec["d"])
            if d > 5:
                r = r if r < 0.35 else 1.0          # only scalar bounds for the large spaces
            if r < 0.2:
                spec["low"], spec["high"] = -2.0, 2.0
            elif r < 0.35:
                spec["low"], spec["high"] = 0.0, 10.0
            elif r < 0.55:
                spec["low"], spec["high"] = [-2.0, 0.0, -1.0, -0.5, -3.0][:d], [2.0, 3.0, 1.0, 0.25, 5.0][:d]
    else:
        # the Gaussian-only options on a space without a Gaussian (drawn from the case seed so that the main stream of
        # random choices is the one earlier rounds used): they must be inert there
        import random
        r2 = random.Random(f["seed"] ^ 0x16D15)
        if r2.random() < 0.3:
            f["squash"] = True
        if r2.random() < 0.3:
            f["std_init"] = r2.choice(STD_INITS)
    return f


STD_INITS = [0.5, 1.0, 0.05, 2.5]      # non-default action_std_init values (PPO / IPPO require >= 0)


def option_sweep_cases(rng, quick: bool):
    """every distribution option of the constructors set to a non-default value on EVERY action-space kind, directly on
    the actor, through PPO.get_action -> evaluate_actions, through PPO.learn, and (action_std_init only: IPPO's critic
    constructor refuses squash_output in net_config) through IPPO"""
    cases = []
    small = {"discrete": {"kind": "discrete", "n": 4}, "multidiscrete": {"kind": "multidiscrete", "nvec": [3, 2, 4]},
             "multibinary": {"kind": "multibinary", "n": 3}, "box": {"kind": "box", "d": 2}}
    combos = [{"squash": True}, {"std_init": 1.0}, {"squash": True, "std_init": 0.5}]
    for kind in ("multidiscrete", "multibinary", "discrete", "box"):
        for ci, opts in enumerate(combos):
            for suite in ("actor", "ppo"):
                spec = json.loads(json.dumps(small[kind] if rng.random() < 0.5 else random_spec(rng, (kind,), big=False)))
                if kind == "box" and opts.get("squash") and rng.random() < 0.5:
                    spec["low"], spec["high"] = -2.0, 2.0
                masked = kind != "box" and ci == 0 and suite == "actor"
                c = {"suite": suite, "spec": spec, "rows": gen_rows(rng, spec, masked, 3), "seed": rng.randrange(1 << 30),
                     "scale": rng.choice([2.0, 4.0]), **opts}
                if suite == "actor":
                    c["mode"] = rng.choice(["train", "eval"])
                    if ci == 2:
                        c["history"] = [[rng.choice(["clone", "sd"])], ["mut", rng.randrange(N_METHODS)]]
                elif ci == 2:
                    c["history"] = [["clone"], ["amut", rng.randrange(1 << 20), rng.randrange(N_METHODS)]]
                cases.append(c)
        for opts in combos[:2]:                               # EvolvableDistribution constructed directly
            spec = json.loads(json.dumps(small[kind]))
            cases.append({"suite": "actor", "via": "dist", "spec": spec, "rows": gen_rows(rng, spec, kind != "box" and "squash" in opts, 3),
                          "seed": rng.randrange(1 << 30), "scale": 4.0, "mode": rng.choice(["train", "eval"]), **opts})
        if kind != "box":
            spec = json.loads(json.dumps(small[kind]))
            cases.append({"suite": "learn", "algo": "PPO", "spec": spec, "rows": [], "seed": rng.randrange(1 << 30), "scale": 2.0,
                          **combos[rng.randrange(3) if quick else 2]})
            if not quick:
                cases.append({"suite": "learn", "algo": "PPO", "spec": spec, "rows": [], "seed": rng.randrange(1 << 30), "scale": 2.0,
                              **combos[0]})
    for s0, s1 in ((small["multidiscrete"], small["discrete"]), (small["multibinary"], small["box"])):
        ids = ["agent_0", "agent_1", "other_0"]
        cases.append({"suite": "ippo", "agent_ids": ids, "specs": [s0, s0, s1], "rows": [[i, None] for i in rng.sample(range(POOL), 3)],
                      "seed": rng.randrange(1 << 30), "scale": 4.0, "std_init": rng.choice(STD_INITS)})
    cases.append({"suite": "learn", "algo": "IPPO", "agent_ids": ["agent_0", "agent_1", "other_0"],
                  "specs": [small["multidiscrete"], small["multidiscrete"], small["multibinary"]], "rows": [],
                  "seed": rng.randrange(1 << 30), "scale": 2.0, "std_init": 1.0})
    return cases


def exhaustive_mask_cases(rng):
    cases = []
    for n in (2, 3, 4):
        spec = {"kind": "discrete", "n": n}
        ms = all_masks(n)
        ms.insert(rng.randrange(len(ms)), [0] * n)          # an exhausted row among them
        cases.append({"suite": "actor", "spec": spec, "rows": [[i % POOL, m] for i, m in enumerate(ms)],
                      "seed": rng.randrange(1 << 30), "scale": 4.0})
    spec = {"kind": "multidiscrete", "nvec": [2, 3]}
    ms = [a + b for a in all_masks(2) for b in all_masks(3)]
    ms.insert(5, [0, 0, 1, 0, 1])
    ms.insert(11, [1, 1, 0, 0, 0])
    cases.append({"suite": "actor", "spec": spec, "rows": [[i % POOL, m] for i, m in enumerate(ms)],
                  "seed": rng.randrange(1 << 30), "scale": 4.0})
    for nv in ([2, 2], [3, 3]):
        spec = {"kind": "multidiscrete", "nvec": nv}
        ms = [a + b for a in all_masks(nv[0]) for b in all_masks(nv[1])]
        if len(ms) > 21:
            ms = rng.sample(ms, 21)
        cases.append({"suite": "actor", "spec": spec, "rows": [[i % POOL, m] for i, m in enumerate(ms)],
                      "seed": rng.randrange(1 << 30), "scale": 4.0})
    spec = {"kind": "multibinary", "n": 3}
    ms = [[(m >> i) & 1 for i in range(3)] for m in range(8)]
    cases.append({"suite": "actor", "spec": spec, "rows": [[i, m] for i, m in enumerate(ms)],
                  "seed": rng.randrange(1 << 30), "scale": 4.0})
    return cases


def gen_cases(chk: Check):
    rng = chk.rng
    quick = chk.tier == "quick"
    cases = exhaustive_mask_cases(rng)
    # every architecture method the actor advertises, once on a squashed and once on a plain Box policy
    for k in range(N_METHODS):
        for squash in (True, False):
            spec = {"kind": "box", "d": 2}
            cases.append({"suite": "actor", "spec": spec, "rows": gen_rows(rng, spec, False, 2), "seed": rng.randrange(1 << 30),
                          "scale": 2.0, "std_init": 0.0, "squash": squash, "history": [["mut", k]]})
    for k in range(N_METHODS if not quick else 4):           # the same through Mutations.architecture_mutate on PPO
        kk = [0, N_METHODS - 1, 1, 3][k] if quick else k
        spec = {"kind": "box", "d": 2}
        cases.append({"suite": "ppo", "spec": spec, "rows": gen_rows(rng, spec, False, 2), "seed": rng.randrange(1 << 30),
                      "scale": 2.0, "std_init": 0.0, "squash": True, "history": [["amut", rng.randrange(1 << 20), kk]]})
    # the std in use must be the CURRENT log_std after every kind of change, in evaluation mode too
    for change in (["log_std", -0.5], ["load", 0.25], ["sd"], ["clone"]):
        for squash in (False, True):
            spec = {"kind": "box", "d": 3}
            cases.append({"suite": "actor", "spec": spec, "rows": gen_rows(rng, spec, False, 2), "seed": rng.randrange(1 << 30),
                          "scale": 2.0, "std_init": 0.0, "squash": squash, "mode": "eval", "history": [["eval_fwd"], change]})
    for change in (["log_std", -0.5], ["load", 0.25], ["learn"]):
        spec = {"kind": "box", "d": 3}
        cases.append({"suite": "ppo", "spec": spec, "rows": gen_rows(rng, spec, False, 2), "seed": rng.randrange(1 << 30),
                      "scale": 2.0, "std_init": 0.0, "squash": False, "lr": 0.02, "history": [["get_action"], change]})
    for change in (["log_std", -0.5], ["learn"]):
        cases.append({"suite": "ippo", "agent_ids": ["agent_0", "agent_1", "other_0"],
                      "specs": [{"kind": "box", "d": 2}, {"kind": "box", "d": 2}, {"kind": "box", "d": 3}],
                      "rows": [[i, None] for i in rng.sample(range(POOL), 2)], "seed": rng.randrange(1 << 30), "scale": 2.0,
                      "std_init": 0.0, "lr": 0.02, "history": [["get_action"], change]})
    # own stream (derived from the check seed): the main stream of random choices stays the one earlier rounds used
    opt_rng = __import__("random").Random((int(chk.seed) * 1000003) ^ 0x0C16)
    cases += option_sweep_cases(opt_rng, quick)
    kinds4 = ("discrete", "multidiscrete", "multibinary", "box")
    for i in range(100 if quick else 400):                    # the actor directly
        spec = random_spec(rng, big=True, kinds=(kinds4[i % 4],)) if i < 8 else random_spec(rng)
        masked = spec["kind"] != "box" and rng.random() < 0.6
        cases.append({"suite": "actor", "spec": spec, "rows": gen_rows(rng, spec, masked), **common_fields(rng, spec),
                      "history": actor_history(rng), "mode": rng.choice(["train", "eval", "eval"])})
    for i in range(60 if quick else 240):                     # PPO.get_action / evaluate_actions
        spec = random_spec(rng, big=True, kinds=(kinds4[i % 4],)) if i < 8 else random_spec(rng)
        masked = spec["kind"] != "box" and rng.random() < 0.4
        cases.append({"suite": "ppo", "spec": spec, "rows": gen_rows(rng, spec, masked), **common_fields(rng, spec),
                      "history": agent_history(rng)})
    for _ in range(24 if quick else 80):                     # IPPO.get_action
        masks = rng.random() < 0.5
        kinds = ("discrete", "multidiscrete", "multibinary") if masks else ("discrete", "multidiscrete", "multibinary", "box")
        if rng.random() < 0.6:
            ids = ["agent_0", "agent_1", "other_0"]
            s0, s1 = random_spec(rng, kinds), random_spec(rng, kinds)
            specs = [s0, s0, s1]
        else:
            ids = ["a_0", "b_0"]
            specs = [random_spec(rng, kinds) for _ in ids]
        rows = [[i, None] for i in rng.sample(range(POOL), rng.randint(2, 3))]
        c = {"suite": "ippo", "agent_ids": ids, "specs": specs, "rows": rows, "seed": rng.randrange(1 << 30),
             "scale": rng.choice([1.0, 4.0]), "std_init": rng.choice([0.0, 0.5, 0.05, 2.5]), "history": agent_history(rng)}
        if masks:
            c["masks"] = {a: [random_mask(rng, specs[k]) for _ in rows] for k, a in enumerate(ids)}
            if rng.random() < 0.4:                         # an exhausted row for one agent next to ordinary rows
                k = rng.randrange(len(ids))
                if specs[k]["kind"] in ("discrete", "multidiscrete"):
                    j = rng.randrange(len(rows))
                    c["masks"][ids[k]][j] = kill_component(rng, specs[k], c["masks"][ids[k]][j])
        cases.append(c)
    one_dim = [{"kind": "box", "d": 1}, {"kind": "multibinary", "n": 1}, {"kind": "multidiscrete", "nvec": [3]}]
    for i in range(16 if quick else 50):                      # what learn() re-evaluates
        spec = one_dim[i % 3] if i < 3 or rng.random() < 0.25 else \
            (random_spec(rng, big=True, kinds=(kinds4[i % 4],)) if i < 7 else random_spec(rng))
        c = {"suite": "learn", "algo": "PPO", "spec": spec, "rows": [], **common_fields(rng, spec),
             "history": agent_history(rng) if i >= 7 else []}
        c["scale"] = min(c["scale"], 4.0)
        cases.append(c)
    for i in range(8 if quick else 24):
        s0 = one_dim[i % 3] if i < 3 else (random_spec(rng, big=True) if i < 5 else random_spec(rng))
        s1 = random_spec(rng)
        cases.append({"suite": "learn", "algo": "IPPO", "agent_ids": ["agent_0", "agent_1", "other_0"], "specs": [s0, s0, s1],
                      "rows": [], "seed": rng.randrange(1 << 30), "scale": rng.choice([1.0, 4.0]), "std_init": 0.0})
    cases += glue_cases(rng, False)                           # ratio = 1 in the first minibatch: kinds x B in {1,2,5} x squash
    return cases


# ----------------------------------------------------------------------------- verdicts
def case_key(case):
    return {k: v for k, v in case.items() if k != "origin"}


def shrink(chk: Check, case, n_draws):
    """fewest rows on which the oracle (or, failing that, the correspondence) still fails"""
    if len(case.get("rows") or []) < 2 or case["suite"] == "ippo":
        return case

    def still(sub):
        c = dict(case, rows=sub)
        d, p, *_ = eval_case(chk, c, n_draws)
        return bool(p) or bool(d)
    return dict(case, rows=ddmin(case["rows"], still))


def judge(chk: Check, case, n_draws, diffs, problems):
    small = shrink(chk, case, n_draws)
    d2, p2, *_ = eval_case(chk, small, n_draws)
    if not (d2 or p2):
        small, d2, p2 = case, diffs, problems
    replay = {"case": case_key(small), "oracle_problems": p2[:6], "model_vs_implementation": d2[:6],
              "correspondence": "harness/c16.py vs Model/Dist.lean", "theorems": chk.gate["theorems"],
              "repo": str(__import__("common").REPO)}
    if p2:
        chk.violation(p2[0], replay)
    else:
        chk.violation("implementation and Dist model disagree: " + d2[0]["what"]
                      + "; the property oracle holds on this case and its shrinks", replay, no_input=True)


def pre_gate(chk: Check) -> None:
    """Regenerate lean/Gen/DistGen.lean from the source text of the tree under test (before the Lean gate) and re-check
    `generated = model` (Proofs/DistGenEq.lean) and the theorems over the generated definitions (Props/C16.lean)."""
    import common
    import py2lean_dist
    import py2lean_ppoglue
    # both generated files are imported by Props/C16.lean: bring the second one up to date with the tree under test
    # before the first gate builds that module (its own gate below reports a rejected source)
    try:
        py2lean_ppoglue.write_if_changed(py2lean_ppoglue.translate(common.REPO)[0], common.LEAN_DIR / "Gen" / "PpoGlueGen.lean")
    except py2lean_ppoglue.Unsupported:
        pass
    common.translation_gate(chk, py2lean_dist, "Gen/DistGen.lean", ["Gen.DistGen", "Proofs.DistGenEq", "Props.C16"],
                            "log-prob / entropy / masking / squashing formulas of distributions.py and StochasticActor")
    common.translation_gate(chk, py2lean_ppoglue, "Gen/PpoGlueGen.lean", ["Gen.PpoGlueGen", "Proofs.PpoGlueGenEq", "Props.C16"],
                            "PPO / IPPO glue: which action, mask and log-prob travel from get_action through learn into the actor")


def run(chk: Check) -> None:
    n_draws = 128 if chk.tier == "quick" else 512
    chk.rule = ("real StochasticActor / PPO / IPPO with the smallest legal networks (head weights scaled by 1, 4, 16 to spread "
                "the logits), Discrete(2..7), MultiDiscrete (10 nvecs incl. size-1 and equal-size components), MultiBinary(1..5), Box(1..5) with "
                "and without squashing (unit, [-2,2], [0,10] and per-dimension bounds when squashing), action_std_init 0/0.5/1 and log-std overrides -1..0.25 (a different std per dimension), "
                "every non-empty mask pattern for Discrete(2,3,4), MultiDiscrete([2,3]) and MultiBinary(3) plus random masks, "
                "squash_output=True and action_std_init 0.05..2.5 also on every non-Box kind (must be inert: compared with the identically seeded case without the option), "
                "batches of 2-21 seeded observations; distinct = distinct case descriptor; non-trivial = at least one row is "
                "masked, squashed, multi-component or a stored re-evaluation")
    chk.assumptions = [
        "component log-probabilities/entropies given to the model are torch's (log_softmax, logsigmoid, Normal formula) on the REAL logits; the model checks composition, not exp/log",
        "every component keeps at least one allowed action (an all-false mask is an environment error)",
        "with squashing there is no closed-form entropy: the actor reports None and PPO substitutes -mean(log_prob), which is what is checked",
        "log-probabilities refer to the head-level action in (-1,1); scale_action to the Box bounds is an affine relabelling (constant Jacobian not included by the code)",
        "PPO.evaluate_actions has no mask argument, so stored re-evaluation through PPO is checked on unmasked states; masked re-evaluation is checked on the actor",
        "float32 storage of a = tanh(u) limits how exactly atanh(a) recovers u; tolerances include that conditioning term",
    ]
    corpus = sorted((ROOT / "corpus" / "C16").glob("*.json"))
    cases = []
    for f in corpus:
        c = json.loads(f.read_text())
        c = c.get("replay", c)
        c = c.get("case", c)
        c["origin"] = f.name
        cases.append(c)
    cases += gen_cases(chk)
    per_suite: dict[str, list[int]] = {}
    reported = 0
    for case in cases:
        nd = n_draws if case["suite"] == "actor" else 0
        diffs, problems, tags, _ = eval_case(chk, case, nd)
        nontrivial = any(t in ("masked-row", "squash-row", "stored-reeval", "kind-multidiscrete", "kind-multibinary", "large-space", "inert-option")
                         or t.startswith("history-") for t in tags)
        chk.case(case_key(case), nontrivial=nontrivial,
                 sample={k: case[k] for k in ("suite", "via", "spec", "specs", "squash", "scale", "log_std", "std_init", "history", "mode", "algo") if k in case},
                 tags=sorted(set(tags)))
        s = per_suite.setdefault(case["suite"], [0, 0])
        s[0] += 1
        if diffs or problems:
            s[1] += bool(diffs)
            if reported < 4:
                judge(chk, case, nd, diffs, problems)
            else:
                chk.violation((problems or [diffs[0]["what"]])[0], None, no_input=not problems)
            reported += 1
    for name, (n, d) in per_suite.items():
        chk.suite({"actor": "actor-direct", "ppo": "ppo-get-evaluate", "ippo": "ippo-get-action", "learn": "learn-reevaluation",
                   "glue": "glue-first-minibatch"}[name], n, d)
    note_unsupported(chk)
    known_probes(chk)
    glue_mask_probes(chk)
    if chk.tier == "thorough":
        selftest(chk)


FINDING_MASK = "C16-ppo-reevaluation-ignores-mask"
FINDING_SCALED = "C16-actor-level-action-nonunit-bounds"


def probe_ppo_mask(case):
    """PPO.evaluate_actions on actions that were sampled under a mask (unchanged parameters)"""
    idx, mask = rows_of(case)
    obs = obs_pool(case["seed"])[idx]
    ag = build_ppo(case)
    torch.manual_seed(case["seed"] + 1)
    act, lp, _e, _v = ag.get_action(obs, action_mask=mask)
    with torch.no_grad():
        re_lp, _, _ = ag.evaluate_actions(obs, torch.as_tensor(np.asarray(act)))
    lp, re_lp = np.asarray(lp, dtype=np.float64), re_lp.numpy().astype(np.float64)
    bad = [b for b in range(len(idx)) if not close(float(re_lp[b]), float(lp[b]), 1e-4)]
    if bad:
        b = bad[0]
        return (f"PPO: action {np.asarray(act)[b].tolist()} sampled under mask {mask[b].astype(int).tolist()} with log_prob {lp[b]!r}; "
                f"evaluate_actions (no mask argument, same parameters) gives {re_lp[b]!r}")
    return None


def probe_scaled_action(case):
    """exactly the known defect: action_log_prob(SCALED action that StochasticActor.forward returned) is NaN / not the value
    that action_log_prob gives for the same action before scaling (same distribution object, same weights).  What forward
    itself reports is judged by the actor-direct suite, not here."""
    idx, _ = rows_of(case)
    obs = torch.as_tensor(obs_pool(case["seed"])[idx])
    actor = build_actor(case)
    lo, hi = (torch.tensor(v, dtype=torch.float32) for v in bounds_of(case["spec"]))
    with torch.no_grad():
        torch.manual_seed(case["seed"] + 1)
        a, _lp, _ = actor(obs)
        unscaled = ((a - lo) / (0.5 * (hi - lo)) - 1.0).clamp(-1.0, 1.0)
        ok = actor.action_log_prob(unscaled)
        re = actor.action_log_prob(a.clone())
    bad = [b for b in range(len(idx)) if not close(float(re[b]), float(ok[b]), 1e-3)]
    if bad:
        b = bad[0]
        return (f"actor(obs) returned the scaled action {a[b].tolist()} (bounds [{lo.tolist()},{hi.tolist()}]); action_log_prob(that action) = "
                f"{float(re[b])!r}, action_log_prob(the same action before scaling) = {float(ok[b])!r}")
    return None


PROBES = {
    FINDING_MASK: (probe_ppo_mask, {"suite": "probe", "spec": {"kind": "discrete", "n": 3},
                                    "rows": [[0, [1, 0, 1]], [1, [0, 1, 1]], [2, [1, 1, 0]]], "seed": 0, "scale": 4.0}),
    FINDING_SCALED: (probe_scaled_action, {"suite": "probe", "spec": {"kind": "box", "d": 2, "low": -2.0, "high": 2.0},
                                           "rows": [[0, None], [1, None], [2, None]], "seed": 0, "scale": 2.0,
                                           "squash": True, "std_init": 0.0}),
}


def known_probes(chk: Check) -> None:
    """analysed defects that are not repaired by the C16 fixes: probed only when known_findings.json lists them
    (open -> KNOWN-FINDING line, fixed -> the probe must pass); otherwise recorded as a note, never judged"""
    listed = getattr(chk, "_known", {})
    for fid, (fn, case) in PROBES.items():
        try:
            detail = fn(case)
        except Exception as e:
            detail = f"probe raised {type(e).__name__}: {e}"
        if fid in listed:
            if detail:
                chk.finding(fid, detail, {"probe": fid, "case": case, "detail": detail})
        else:
            chk.notes.append(f"probe {fid} (not listed in known_findings.json, not judged): " + (detail or "passes on this tree"))


def note_unsupported(chk: Check) -> None:
    """configurations of the quantifier that the library rejects or that belong to another property: recorded, not judged"""
    try:
        import inspect
        from agilerl.networks.distributions import EvolvableDistribution
        extra = sorted(set(inspect.signature(EvolvableDistribution.__init__).parameters)
                       - {"self", "action_space", "network", "action_std_init", "squash_output", "device"})
        if extra:
            chk.notes.append(f"EvolvableDistribution has constructor options this check does not sweep: {extra}")
    except Exception as e:
        chk.notes.append(f"EvolvableDistribution signature probe: {type(e).__name__}")
    try:
        from agilerl.algorithms import IPPO
        try:
            IPPO(observation_spaces=[obs_space()], action_spaces=[space_of({"kind": "box", "d": 2})], agent_ids=["a_0"],
                 net_config=net_config(True), device="cpu")
            chk.notes.append("IPPO accepts squash_output in net_config on this tree (not exercised by this check)")
        except TypeError as e:
            chk.notes.append(f"IPPO rejects squash_output in net_config ({type(e).__name__}: {str(e)[:80]}): IPPO x squashing is outside the reachable configurations")
    except Exception as e:
        chk.notes.append(f"IPPO squash probe: {type(e).__name__}")


# ----------------------------------------------------------------------------- self-test (thorough)
def selftest(chk: Check) -> None:
    """seeded faults in the implementation must be noticed by the suites above"""
    from agilerl.networks import distributions as D
    from gymnasium import spaces
    rng = chk.rng

    def noticed(cases):
        for c in cases:
            d, p, *_ = eval_case(chk, c, 64 if c["suite"] == "actor" else 0)
            if d or p:
                return True
        return False

    def md_cases():
        return [{"suite": s, "spec": {"kind": "multidiscrete", "nvec": [2, 3]}, "rows": [[i, None] for i in range(3)],
                 "seed": 11 + j, "scale": 16.0} for j, s in enumerate(["actor", "ppo"])]

    def sq_cases():
        return [{"suite": s, "spec": {"kind": "box", "d": 2}, "rows": [[i, None] for i in range(3)], "seed": 21 + j,
                 "scale": 4.0, "squash": True, "std_init": 0.0} for j, s in enumerate(["actor", "ppo"])]

    def mask_cases():
        return [{"suite": "actor", "spec": {"kind": "discrete", "n": 3}, "rows": [[0, [1, 0, 1]], [1, [0, 1, 1]], [2, [1, 1, 0]]],
                 "seed": 31, "scale": 4.0}]

    faults = []

    # 1. MultiDiscrete split offsets shifted by one logit
    orig_gd = D.EvolvableDistribution.get_distribution

    def shifted(self, logits):
        if isinstance(self.action_space, spaces.MultiDiscrete):
            logits = torch.roll(logits, 1, dims=1)
        return orig_gd(self, logits)
    faults.append(("MultiDiscrete split offsets shifted", D.EvolvableDistribution, "get_distribution", shifted, md_cases))

    # 2. squash correction dropped
    orig_lp = D.TorchDistribution.log_prob

    def no_corr(self, action):
        out = orig_lp(self, action)
        if self.squash_output:
            out = out + torch.log(1 - action.pow(2) + 1e-6).sum(dim=1)
        return out
    faults.append(("squash correction dropped", D.TorchDistribution, "log_prob", no_corr, sq_cases))

    # 3. mask applied after the softmax with a floor: masked actions keep probability
    def soft_mask(logits, mask):
        p = torch.softmax(logits, dim=-1) * mask + 1e-3
        return torch.log(p)
    faults.append(("mask applied to probabilities after softmax (masked actions keep mass)", D, "apply_action_mask_discrete", soft_mask, mask_cases))

    # 4. the snapshot's stored-action defect (Gaussian evaluated at the cached draw)
    def cached_lp(self, action):
        _a = action if not self.squash_output else self.sampled_action
        out = self._handler.log_prob(self.distribution, _a)
        if self.squash_output:
            out = out - torch.log(1 - action.pow(2) + 1e-6).sum(dim=1)
        return out
    faults.append(("squashed log_prob of a stored action uses the cached draw", D.TorchDistribution, "log_prob", cached_lp, sq_cases))

    # 5. a component dropped from the sum
    MC = D.MultiCategoricalHandler
    orig_mc = MC.log_prob

    def drop_last(self, distribution, action):
        return orig_mc(self, distribution[:-1], action)
    faults.append(("last MultiDiscrete component dropped from the sum", MC, "log_prob", drop_last, md_cases))

    # 6. / 7. Gaussian-only constructor options reaching a policy without a Gaussian
    def inert_cases(opts):
        def mk():
            return [{"suite": s, "spec": sp, "rows": [[i, None] for i in range(3)], "seed": 41 + j, "scale": 4.0, **opts}
                    for j, (s, sp) in enumerate([("actor", {"kind": "multidiscrete", "nvec": [3, 2]}),
                                                 ("ppo", {"kind": "multibinary", "n": 3})])]
        return mk

    orig_init = D.EvolvableDistribution.__init__

    def unguarded_squash(self, action_space, network, action_std_init=0.0, squash_output=False, device="cpu"):
        orig_init(self, action_space, network, action_std_init=action_std_init, squash_output=squash_output, device=device)
        self.squash_output = squash_output
    faults.append(("squash_output not restricted to Box policies (tanh of categorical / Bernoulli samples)", D.EvolvableDistribution,
                   "__init__", unguarded_squash, inert_cases({"squash": True})))

    def std_init_leaks(self, action_space, network, action_std_init=0.0, squash_output=False, device="cpu"):
        orig_init(self, action_space, network, action_std_init=action_std_init, squash_output=squash_output, device=device)
        if not isinstance(action_space, spaces.Box) and action_std_init:
            with torch.no_grad():                 # self-consistent (sample, log-prob, entropy agree) but not inert
                for p_ in network.parameters():
                    p_.mul_(0.5)
    faults.append(("action_std_init changes a policy that has no log-std (only the twin comparison can see it)", D.EvolvableDistribution,
                   "__init__", std_init_leaks, inert_cases({"std_init": 1.0})))

    # 8. / 9. the PPO glue: the action stored next to a log-prob, and the action dimension on the way back into the actor
    from agilerl.algorithms.ppo import PPO as _PPO
    orig_ga, orig_ev = _PPO.get_action, _PPO.evaluate_actions

    def clipped_store(self, obs, action_mask=None):
        a, lp, e, v = orig_ga(self, obs, action_mask)
        if isinstance(self.action_space, spaces.Box):
            a = np.clip(a, -0.25, 0.25)
        return a, lp, e, v

    def glue_box_cases():
        return [{"suite": "glue", "spec": {"kind": "box", "d": 2}, "rows": [[i, None] for i in range(5)], "seed": 51, "scale": 2.0,
                 "std_init": 0.0, "squash": False}]
    faults.append(("PPO.get_action (training mode) returns a clipped action next to the log-prob of the unclipped one", _PPO, "get_action",
                   clipped_store, glue_box_cases))

    def squeezed_eval(self, obs, actions):
        return orig_ev(self, obs, actions.squeeze())

    def glue_onedim_cases():
        return [{"suite": "glue", "spec": {"kind": "multibinary", "n": 1}, "rows": [[i, None] for i in range(3)], "seed": 52, "scale": 4.0,
                 "std_init": 0.0, "squash": False}]
    faults.append(("one-dimensional actions reach action_log_prob without their action dimension", _PPO, "evaluate_actions",
                   squeezed_eval, glue_onedim_cases))

    for name, owner, attr, repl, mk in faults:
        orig = getattr(owner, attr)
        setattr(owner, attr, repl)
        try:
            ok = noticed(mk())
        finally:
            setattr(owner, attr, orig)
        if not ok:
            raise InfraError(f"C16 self-test: seeded fault not noticed: {name}")
        chk.notes.append(f"self-test: detected — {name}")
    # and with everything restored the same cases are clean unless the tree itself is defective
    _ = rng.random()


# ----------------------------------------------------------------------------- replay
def replay(chk: Check, path: str) -> int:
    c = json.loads(open(path).read())
    c = c.get("replay", c)
    case = c.get("case", c)
    if c.get("probe") in PROBES and case.get("suite") == "glue":
        _p, mism, _t = run_glue(case)
        print(json.dumps({"probe": c["probe"], "case": case, "detail": mism[:3]}, indent=1, default=str))
        if mism:
            print(f"VIOLATION property=C16 replay={path}")
            return 1
        return 0
    if c.get("probe") in PROBES:
        detail = PROBES[c["probe"]][0](case)
        print(json.dumps({"probe": c["probe"], "case": case, "detail": detail}, indent=1, default=str))
        if detail:
            print(f"VIOLATION property=C16 replay={path}")
            return 1
        return 0
    diffs, problems, tags, nlines = eval_case(chk, case, 128 if case["suite"] == "actor" else 0)
    print(json.dumps({"case": case, "oracle_problems": problems[:8], "model_vs_implementation": diffs[:8],
                      "model_lines": nlines}, indent=1, default=str))
    if problems:
        print(f"VIOLATION property=C16 replay={path}")
        return 1
    if diffs:
        print(f"VIOLATION property=C16 replay={path} no-failing-input-found")
        return 1
    return 0
